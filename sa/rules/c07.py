"""C07 — store indices follow insertion order across sessions and evictions.

R1  size-table freshness.  `NcFiles.size_index` is a snapshot of trajectory
    counts.  For every construction site of NcFiles that describes a file which
    can still grow (opened for append or newly created), either the snapshot is
    None (the locate code then indexes the file directly) or some function on
    the add path refreshes it.  Construction sites are classified by a table
    confirmed by reading; an unknown site is treated as growable.
R1b the only site that does take a snapshot (merged stores) is read-only: the
    constructor refuses every writable mode for merged stores before opening.
R1c in _load_trajectory the two locate branches are exhaustive: the
    size-table branch is taken iff the table is not None, the direct branch
    uses the requested index unchanged.
R2  one increment per successful add: on every normal path through `add` the
    next-index counter is incremented exactly once, and the returned value is
    a copy of the counter taken before the increment.
R3  length source: __len__ sums the trajectory dimension over *all* files of
    the measuring field set; APPEND initialises the counter from the same
    dimension.
R4  eviction refusal wiring: the cache's popitem raises before evicting when
    the flag is set; the flag is set iff the store has no base file and is
    cleared only by `save` after everything was written.
R7  file-link typestate (C08-R5): no list operation dereferences file-only
    state on a store that has no file attached.
R5  the cache key under which a loaded trajectory is stored is the requested
    index, and __getitem__ consults the cache with that same key.
"""

from __future__ import annotations

import ast
import copy

from ..algebra import AlgebraError, normal_form
from ..astutil import (ancestors, arg_or_kw, assigned_names, call_name, calls_in, conjuncts, eval_pred, guards_of,
                       kwarg, names_in, norm, single_def_value, stmt_of, stores_to, walk_no_nested)
from ..cfg import CFG
from ..loader import dotted_name
from ..resolve import closure, resolve_call, resolve_class_call

STORE = 'trajectories/store.py'

# construction sites of NcFiles: function -> (growable?, reason)
SITE_TABLE = {
    'TrajectoryStore._create_nc_file': (True, 'file created for writing (CREATE / save / create_associated)'),
    'TrajectoryStore._open_nc_file': (True, 'single file opened for READ or APPEND'),
    'TrajectoryStore._open_merged_store': (False, 'merged store: READ only (see R1b)'),
}


def run(ctx):
    prog = ctx.prog
    m = prog.module(STORE)
    # R7: the list operations (add / sync / close / index / iterate / len) work on a store that has no file attached
    # yet: file-only state is dereferenced only behind a test that files are attached (typestate rule of C08)
    from .c08 import rule_linked
    rule_linked(ctx, m, rule='C07-R7')
    cls = m.cls('TrajectoryStore')
    add = m.func('TrajectoryStore.add')

    # ---- R1 ---------------------------------------------------------------
    sites = []
    for fi in m.functions.values():
        for c in calls_in(fi.node):
            rc = resolve_class_call(prog, fi, c)
            if rc is not None and rc.name == 'NcFiles':
                sites.append((fi, c))
    ctx.floor('C07-R1', len(sites), 3, 'NcFiles construction sites')
    add_path = closure(prog, [add])
    refreshers = []
    for fn in add_path:
        for t, st, how in stores_to(fn.node):
            b = t
            while isinstance(b, ast.Subscript):
                b = b.value
            if isinstance(b, ast.Attribute) and b.attr == 'size_index':
                refreshers.append((fn, st))
        for c in calls_in(fn.node):
            if isinstance(c.func, ast.Attribute) and c.func.attr in ('append', 'extend', 'insert') \
                    and isinstance(c.func.value, ast.Attribute) and c.func.value.attr == 'size_index':
                refreshers.append((fn, c))
    for fi, c in sites:
        growable, reason = SITE_TABLE.get(fi.qualname, (True, 'unknown construction site: treated as growable'))
        v = kwarg(c, 'size_index')
        if v is None:
            # positional: field order of the dataclass
            ctx.undecided('C07-R1', fi, norm(c)[:60], 'size_index not passed by keyword')
        is_none = isinstance(v, ast.Constant) and v.value is None
        if not growable:
            ctx.ob('C07-R1', fi, f'size_index={norm(v)[:60]} (read-only site)', True,
                   f'{reason}; a snapshot of a file that cannot grow cannot go stale', line=c.lineno,
                   nontrivial=False)
            continue
        ok = is_none or bool(refreshers)
        ctx.ob('C07-R1', fi, f'size_index={norm(v)[:60]} at growable site', ok,
               ('no snapshot: the file is indexed directly' if is_none else
                f'snapshot refreshed on the add path by {refreshers[0][0].qualname}') if ok else
               (f'{reason}: the table is a snapshot of the trajectory count taken at open time and '
                'nothing on the add path (add → _write_trajectory → _write_data) refreshes it; '
                '_load_trajectory then locates old and new items with a stale table '
                '(append session: store[0] returns a later trajectory)'),
               line=c.lineno)

    # ---- R1b merged stores are read-only -----------------------------------
    init = m.func('TrajectoryStore.__init__')
    found = None
    for fn in closure(prog, [init]):
        for n in walk_no_nested(fn.node):
            if isinstance(n, ast.Raise):
                gs = guards_of(n)
                txt = [norm(x) for x, pol, _ in gs]
                if any('merged_store' in t for t in txt) and any('READ' in t or 'APPEND' in t for t in txt):
                    found = (fn, n, txt)
    ctx.ob('C07-R1b', init, 'merged stores refused in writable modes', found is not None,
           (f'{found[0].qualname} raises under {found[2]}') if found else
           'nothing refuses opening a merged store for APPEND: its size table would go stale',
           line=(found[1].lineno if found else init.node.lineno))

    # ---- R1c locate branches -------------------------------------------------
    load = m.func('TrajectoryStore._load_trajectory')
    branch = None
    for n in walk_no_nested(load.node):
        if isinstance(n, ast.If) and 'size_index' in norm(n.test) and 'is not None' in norm(n.test):
            branch = n
            break
        if isinstance(n, ast.If) and 'size_index' in norm(n.test) and 'is None' in norm(n.test):
            branch = n
            break
    if branch is None:
        ctx.undecided('C07-R1c', load, 'size_index branch', 'locate code no longer branches on size_index')
    gi_defs = [s for t, s, how in stores_to(load.node) if isinstance(t, ast.Name) and t.id == 'group_index']
    direct = [s for s in gi_defs if not any(a is branch for a in ancestors(s))]
    ok = len(direct) == 1 and isinstance(direct[0].value, ast.Name) and direct[0].value.id in load.params
    ctx.ob('C07-R1c', load, 'direct branch uses the requested index unchanged', ok,
           f'group_index defaults to parameter `{norm(direct[0].value)}`' if ok else
           'the index used for a single file is not the requested index',
           line=(direct[0].lineno if direct else load.node.lineno))
    # every read of var at group_index / the loaded item is cached under `index`
    cache_store = [st for t, st, how in stores_to(load.node)
                   if isinstance(t, ast.Subscript) and isinstance(t.value, ast.Attribute)
                   and t.value.attr == '_trajectories']
    ok = len(cache_store) == 1 and isinstance(cache_store[0].targets[0].slice, ast.Name) \
        and cache_store[0].targets[0].slice.id == load.params[1]
    ctx.ob('C07-R5', load, 'loaded trajectory cached under the requested index', ok,
           f'{norm(cache_store[0])}' if ok else 'the cache key is not the requested index',
           line=(cache_store[0].lineno if cache_store else load.node.lineno))
    reads = [c for c in calls_in(load.node) if call_name(c).endswith('_read_from_nc_var')]
    for c in reads:
        a = c.args[1] if len(c.args) > 1 else kwarg(c, 'index')
        ok = isinstance(a, ast.Name) and a.id == 'group_index'
        ctx.ob('C07-R5', load, f'record read at {norm(a)}', ok,
               'reads the located record' if ok else 'reads a different record than the one located',
               line=c.lineno)
    gi = m.func('TrajectoryStore.__getitem__')
    key = gi.params[1]
    subs = [n for n in walk_no_nested(gi.node) if isinstance(n, ast.Subscript)
            and isinstance(n.value, ast.Attribute) and n.value.attr == '_trajectories']
    cmps = [n for n in walk_no_nested(gi.node) if isinstance(n, ast.Compare)
            and any(isinstance(c, ast.Attribute) and c.attr == '_trajectories' for c in n.comparators)]
    loads_ = [c for c in calls_in(gi.node) if call_name(c).endswith('_load_trajectory')]
    ok = bool(subs) and all(isinstance(s.slice, ast.Name) and s.slice.id == key for s in subs) \
        and all(isinstance(c.left, ast.Name) and c.left.id == key for c in cmps) \
        and all(c.args and isinstance(c.args[0], ast.Name) and c.args[0].id == key for c in loads_)
    ctx.ob('C07-R5', gi, 'cache consulted, loaded and returned under one key', ok,
           f'{len(subs)} subscripts, {len(cmps)} membership tests, {len(loads_)} loads all use `{key}`'
           if ok else 'cache lookup / load / return do not use the same key')
    raises = [n for n in walk_no_nested(gi.node) if isinstance(n, ast.Raise) and 'IndexError' in norm(n)]
    ctx.ob('C07-R5', gi, 'unknown index reported as IndexError', bool(raises),
           'raise IndexError present' if raises else 'an index beyond the end is not reported as out of range',
           nontrivial=False)

    # ---- R2 one increment per successful add -------------------------------
    g = CFG(add.node)
    inc_nodes = set()
    for n in g.nodes:
        if n.kind == 'stmt' and isinstance(n.stmt, (ast.AugAssign, ast.Assign)):
            tg = n.stmt.target if isinstance(n.stmt, ast.AugAssign) else n.stmt.targets[0]
            if isinstance(tg, ast.Attribute) and tg.attr == '_next_index' and dotted_name(tg.value) == 'self':
                if _in_reraising_handler(n.stmt):
                    continue
                inc_nodes.add(n.id)
    ctx.floor('C07-R2', len(inc_nodes), 1, 'counter updates in add')

    def transfer(node, st):
        if node.id in inc_nodes:
            s = node.stmt
            plus_one = isinstance(s, ast.AugAssign) and isinstance(s.op, ast.Add) \
                and isinstance(s.value, ast.Constant) and s.value.value == 1
            if isinstance(s, ast.Assign):
                plus_one = norm(s.value) in ('self._next_index + 1', '1 + self._next_index')
            return frozenset((c + 1 if plus_one else 99) for c in st)
        return st

    ins, _ = g.forward(frozenset({0}), transfer, lambda a, b: a | b,
                       edge_ok=lambda a, b, lab: lab != 'e')
    counts = ins.get(g.exit, frozenset())
    ok = counts == frozenset({1})
    ctx.ob('C07-R2', add, 'counter incremented exactly once on every normal path', ok,
           'every path to a return passes exactly one `_next_index += 1`' if ok else
           f'increment counts over normal paths to return: {sorted(counts)} (99 = not a +1 update)')
    rets = [n for n in g.nodes if n.kind == 'stmt' and isinstance(n.stmt, ast.Return)]
    dom = g.dominators(edge_ok=lambda a, b, lab: lab != 'e')
    for r in rets:
        v = r.stmt.value
        okr = False
        why = 'return value is not a copy of the counter taken before the increment'
        if isinstance(v, ast.Name):
            d = single_def_value(add.node, v.id)
            if d is not None and norm(d) == 'self._next_index':
                dn = g.nodes_of(stmt_of(d))
                okr = bool(dn) and all(dn[0] in dom[i] for i in inc_nodes)
                why = (f'{v.id} = self._next_index is taken before the increment' if okr
                       else 'the saved copy is not taken before the increment')
        ctx.ob('C07-R2', add, f'return {norm(v)}', okr, why, line=r.line)
    # the trajectory is cached and written under that same saved index
    for n in g.nodes:
        if n.kind == 'stmt' and isinstance(n.stmt, ast.Assign):
            t = n.stmt.targets[0]
            if isinstance(t, ast.Subscript) and isinstance(t.value, ast.Attribute) \
                    and t.value.attr == '_trajectories' and not _in_reraising_handler(n.stmt):
                ret_names = {norm(r.stmt.value) for r in rets}
                ok = norm(t.slice) in ret_names
                ctx.ob('C07-R2', add, f'cached under {norm(t.slice)}', ok,
                       'same value as returned' if ok else
                       'the trajectory is cached under a different index than the one returned',
                       line=n.line)
    for c in calls_in(add.node):
        if call_name(c).endswith('_write_trajectory'):
            ret_names = {norm(r.stmt.value) for r in rets}
            ok = bool(c.args) and norm(c.args[0]) in ret_names
            ctx.ob('C07-R2', add, f'written at {norm(c.args[0]) if c.args else "?"}', ok,
                   'same value as returned' if ok else
                   'the trajectory is written at a different index than the one returned', line=c.lineno)

    # on rejection paths the counter must be back at its pre-add value: the
    # validate-before-mutate dataflow of C10-R1, restricted to the counter
    from .c10 import rule_add as _c10_add
    sub = type(ctx)(ctx.prop, ctx.prog, ctx.tier)
    _c10_add(sub)
    for o in sub.obligations:
        if '_next_index' in o.construct and o.rule == 'C10-R1':
            o.rule = 'C07-R2'
            ctx.obligations.append(o)

    # ---- R3 length source ----------------------------------------------------
    ln = m.func('TrajectoryStore.__len__')
    rets = [n for n in walk_no_nested(ln.node) if isinstance(n, ast.Return) and n.value is not None]
    file_ret = [r for r in rets if 'traj_dim' in norm(r.value)]
    mem_ret = [r for r in rets if '_trajectories' in norm(r.value)]
    if not file_ret:
        ctx.undecided('C07-R3', ln, 'file-backed length', 'no return mentioning traj_dim')
    for r in file_ret:
        txt = norm(r.value)
        const_sub = any(isinstance(x, ast.Subscript) and isinstance(x.value, ast.Attribute)
                        and x.value.attr == 'traj_dim' and isinstance(x.slice, ast.Constant)
                        for x in ast.walk(r.value))
        agg = txt.startswith('sum(') and 'len(' in txt
        if not const_sub and not agg:
            ctx.undecided('C07-R3', ln, txt, 'length expression is neither a sum over traj_dim nor a single element')
        ctx.ob('C07-R3', ln, f'return {txt}', agg and not const_sub,
               'sums the trajectory dimension of every file of the field set' if agg and not const_sub
               else 'length looks at one file only: wrong for merged stores', line=r.lineno)
    ctx.ob('C07-R3', ln, 'in-memory length is the cache size', bool(mem_ret),
           'len(self._trajectories) when not linked' if mem_ret else 'no in-memory length', nontrivial=False)
    opn = m.func('TrajectoryStore._open')
    sets = [st for t, st, how in stores_to(opn.node)
            if isinstance(t, ast.Attribute) and t.attr == '_next_index']
    ok = len(sets) == 1 and 'traj_dim' in norm(sets[0].value) and 'len(' in norm(sets[0].value) \
        and any('APPEND' in norm(x) for x, _, _ in guards_of(sets[0]))
    ctx.ob('C07-R3', opn, 'APPEND starts the counter at the file length', ok,
           norm(sets[0]) if ok else 'the counter is not initialised from the trajectory dimension on APPEND',
           line=(sets[0].lineno if sets else opn.node.lineno))

    # ---- R4 eviction wiring ----------------------------------------------------
    cache = m.cls('TrajectoryCache')
    pop = cache.methods.get('popitem')
    if pop is None:
        ctx.undecided('C07-R4', (m.relpath, 'TrajectoryCache'), 'popitem', 'method not found')
    gp = CFG(pop.node)
    raise_n = [n for n in gp.nodes if n.kind == 'stmt' and isinstance(n.stmt, ast.Raise)]
    sup_n = [n for n in gp.nodes if n.stmt is not None and n.kind == 'stmt'
             and any(isinstance(c.func, ast.Attribute) and c.func.attr == 'popitem' for c in calls_in(n.stmt))]
    okp = False
    if raise_n and sup_n:
        gs = guards_of(raise_n[0].stmt)
        okp = any('exception_on_eviction' in norm(x) and pol for x, pol, _ in gs) and \
            not gp.reaches(sup_n[0].id, raise_n[0].id)
        test_nodes = [t for _, _, o in gs for t in gp.nodes_of(o)]
        domp = gp.dominators()
        okp = okp and any(t in domp[sup_n[0].id] for t in test_nodes)
    ctx.ob('C07-R4', pop, 'refusal precedes the eviction', okp,
           'raise under exception_on_eviction dominates super().popitem()' if okp else
           'the cache can evict from an in-memory store (the trajectory would be lost)')
    flag_sets = []
    for fn in m.functions.values():
        for t, st, how in stores_to(fn.node):
            if isinstance(t, ast.Attribute) and t.attr == 'exception_on_eviction':
                flag_sets.append((fn, st))
    ctx.floor('C07-R4', len(flag_sets), 3, 'stores of exception_on_eviction')
    for fn, st in flag_sets:
        val = st.value.value if isinstance(st.value, ast.Constant) else None
        if val is True:
            gs = [norm(x) for x, pol, _ in guards_of(st) if pol]
            ok = fn.qualname == 'TrajectoryStore.__init__' and any('base_file is None' in t for t in gs)
            why = 'set exactly when the store has no base file' if ok else \
                'flag set under a different condition than "no base file"'
        elif val is False:
            if fn.qualname == 'TrajectoryCache.__init__':
                ok, why = True, 'default'
            elif fn.qualname == 'TrajectoryStore.save':
                # must come after the write loop
                body = fn.node.body
                idx = next(i for i, s in enumerate(body) if s is st) if st in body else -1
                wr = [i for i, s in enumerate(body) if any(call_name(c).endswith('_write_trajectory') for c in calls_in(s))]
                ok = idx >= 0 and bool(wr) and idx > max(wr)
                why = 'cleared after every trajectory was written' if ok else \
                    'evictions are allowed before the trajectories were written to the new file'
            else:
                ok, why = False, 'eviction refusal cleared outside save()'
        else:
            ok, why = False, 'non-constant value'
        ctx.ob('C07-R4', fn, norm(st), ok, why, line=st.lineno)
    # ---- R6 iteration and save walk the indices 0 .. len-1 in order -----------
    it0 = m.func('TrajectoryStore.__iter__')
    r0 = [n for n in walk_no_nested(it0.node) if isinstance(n, ast.Return)]
    if len(r0) == 1 and norm(r0[0].value) == 'self':
        ctx.ob('C07-R6', it0, '__iter__ returns a fresh iterator', False,
               'the store is its own iterator: the position is kept on the store, so two overlapping iterations '
               '(nested loops, zip(store, store), a partly consumed iterator) share and reset one cursor and no longer '
               'yield the trajectories in insertion order', line=r0[0].lineno)
        return
    itname = call_name(r0[0].value) if len(r0) == 1 and isinstance(r0[0].value, ast.Call) else None
    itc = m.classes.get(itname) if itname else None
    if itc is None:
        ctx.undecided('C07-R6', it0, '__iter__', 'iterator class not found')
    nx = itc.methods.get('__next__')
    ini = itc.methods.get('__init__')
    if nx is None or ini is None:
        ctx.undecided('C07-R6', (m.relpath, itc.name), '__next__', 'iterator methods not found')
    src = ' '.join(norm(s_) for s_ in nx.node.body)
    ok = 'if self._index < len(self._store)' in src and 'item = self._store[self._index]' in src \
        and 'self._index += 1' in src and 'raise StopIteration' in src
    start = [st for t, st, how in stores_to(ini.node) if norm(t) == 'self._index']
    ok = ok and len(start) == 1 and norm(start[0].value) == '0'
    ctx.ob('C07-R6', nx, 'iteration yields store[0], store[1], … while index < len(store)', ok,
           'starts at 0, reads store[index], then advances by one, stops at len' if ok else
           'iteration does not walk the indices 0..len-1 in order')
    it = m.func('TrajectoryStore.__iter__')
    r = [n for n in walk_no_nested(it.node) if isinstance(n, ast.Return)]
    ok = len(r) == 1 and norm(r[0].value) == f'{itc.name}(self)'
    ctx.ob('C07-R6', it, '__iter__ hands out a fresh iterator over this store', ok, norm(r[0].value) if ok else '__iter__ changed', nontrivial=False)
    sv = m.func('TrajectoryStore.save')
    n_def = single_def_value(sv.node, 'trajectories_to_save')
    g2 = CFG(sv.node)
    dom2 = g2.dominators(edge_ok=lambda a, b, lab: lab != 'e')
    cr = [n for n in g2.nodes if n.stmt is not None and n.kind == 'stmt' and any(call_name(c) == 'self._create' for c in calls_in(n.stmt))]
    nd = [n for n in g2.nodes if n.stmt is not None and n.kind == 'stmt' and isinstance(n.stmt, ast.Assign)
          and norm(n.stmt.targets[0]) == 'trajectories_to_save']
    ok = n_def is not None and norm(n_def) == 'len(self)' and bool(cr) and bool(nd) and nd[0].id in dom2[cr[0].id]
    ctx.ob('C07-R6', sv, 'save counts the in-memory trajectories before the files exist', ok,
           'len(self) taken before _create() switches the length source to the (empty) file' if ok else
           'save measures the store after linking it to the new, empty files: nothing (or the wrong number) is written')
    wl = [n for n in walk_no_nested(sv.node) if isinstance(n, ast.For) and any(call_name(c) == 'self._write_trajectory' for c in calls_in(n))]
    ok = len(wl) == 1 and norm(wl[0].iter) == 'range(trajectories_to_save)' and \
        any(call_name(c) == 'self._write_trajectory' and [norm(a) for a in c.args] == [norm(wl[0].target)] for c in calls_in(wl[0]))
    ctx.ob('C07-R6', sv, 'save writes indices 0 .. n-1, each at its own index', ok, 'for i in range(n): _write_trajectory(i)' if ok else
           'save does not write every cached trajectory at its own index')

    # the flag is set on an in-memory store only if base_file is None: also the
    # in-memory condition of __init__ must read the attribute the checker set
    ctx.assumptions += [
        'netCDF4 unlimited dimensions grow on write and report their current length via len()',
        'cachetools.LRUCache calls popitem() to evict',
    ]


def _in_reraising_handler(stmt):
    for a in ancestors(stmt):
        if isinstance(a, ast.ExceptHandler):
            return True
        if isinstance(a, (ast.FunctionDef, ast.AsyncFunctionDef)):
            return False
    return False


# ======================================================================================================
# Symbolic path enumeration (shared by C07 and C09; lives here because both modules belong to one owner)
# ======================================================================================================
#
# `Sym(prog, fi).run(target)` walks every path through a function *structurally* (if / guard clause / early return /
# conditional expression / tuple packing and unpacking / walrus / private helpers of the same module, which are
# entered and summarised per return path) and keeps, per path,
#   env    local name (and `self.attr` written on the path) -> expression over the function's inputs,
#   facts  the branch conditions the path took, in a canonical spelling (`not`, `!=`, `is not`, `>=`, `>`, `<=`
#          folded into `==`, `is`, `<` plus a polarity).
# A rule then asks *which value reaches which use under which conditions* instead of looking for a statement shape.
# Loop bodies are walked once from a state in which everything the loop assigns is unknown; a statement that may
# change heap state (store, mutating or unknown call) forgets the facts and values that read that state.

_PURE_FUNCS = {'len', 'set', 'list', 'tuple', 'dict', 'sorted', 'frozenset', 'Path', 'getattr', 'isinstance', 'int',
               'float', 'str', 'abs', 'min', 'max', 'sum', 'range', 'enumerate', 'zip', 'bool', 'type', 'hasattr',
               'reversed', 'round', 'any', 'all', 'repr', 'id', 'slice', 'iter', 'next', 'hash', 'callable',
               'issubclass', 'divmod', 'ord', 'chr'}
_PURE_ROOTS = {'bisect', 'math', 'np', 'numpy', 'itertools', 'operator', 'os.path', 'functools'}
_PURE_METHODS = {'keys', 'values', 'items', 'get', 'copy', 'index', 'count', 'lower', 'upper', 'strip', 'split',
                 'startswith', 'endswith', 'format', 'join', 'bisect_left', 'bisect_right', 'bisect', 'accumulate'}


class SymUndecided(Exception):
    pass


def _base_id(name: str) -> str:
    return name.split('@')[0]


def chain_root(e: ast.AST) -> ast.Name | None:
    while isinstance(e, (ast.Attribute, ast.Subscript, ast.Starred)):
        e = e.value
    return e if isinstance(e, ast.Name) else None


def mentions_heap(e: ast.AST, root: str) -> bool:
    """does e read heap state reachable from the variable `root` (attribute / element / call argument / container
    membership)?  A bare use of the variable itself is not a heap read."""
    for n in ast.walk(e):
        if isinstance(n, (ast.Attribute, ast.Subscript)):
            r = chain_root(n)
            if r is not None and _base_id(r.id) == root:
                return True
        elif isinstance(n, ast.Call):
            if any(isinstance(x, ast.Name) and _base_id(x.id) == root for a in list(n.args) + [k.value for k in n.keywords]
                   for x in ast.walk(a)):
                return True
        elif isinstance(n, ast.Compare) and any(isinstance(o, (ast.In, ast.NotIn)) for o in n.ops):
            if any(isinstance(x, ast.Name) and _base_id(x.id) == root for c in n.comparators for x in ast.walk(c)):
                return True
    return False


def canon_fact(e: ast.expr, pol: bool = True) -> tuple[str, bool, ast.expr]:
    """canonical (text, polarity, expr) of the fact `e has truth value pol`"""
    while isinstance(e, ast.UnaryOp) and isinstance(e.op, ast.Not):
        e, pol = e.operand, not pol
    if isinstance(e, ast.Compare) and len(e.ops) == 1:
        op, a, b = e.ops[0], e.left, e.comparators[0]
        new = None
        if isinstance(op, ast.IsNot):
            new, pol = (ast.Is(), a, b), not pol
        elif isinstance(op, ast.NotEq):
            new, pol = (ast.Eq(), a, b), not pol
        elif isinstance(op, ast.NotIn):
            new, pol = (ast.In(), a, b), not pol
        elif isinstance(op, ast.GtE):
            new, pol = (ast.Lt(), a, b), not pol
        elif isinstance(op, ast.Gt):
            new = (ast.Lt(), b, a)
        elif isinstance(op, ast.LtE):
            new, pol = (ast.Lt(), b, a), not pol
        if new is not None:
            op, a, b = new
        if isinstance(op, (ast.Is, ast.Eq)):
            # symmetric: constants to the right, otherwise by text
            ka, kb = (isinstance(a, ast.Constant), norm(a)), (isinstance(b, ast.Constant), norm(b))
            if ka > kb:
                a, b = b, a
        e = ast.Compare(left=a, ops=[op], comparators=[b])
    return norm(e), pol, e


def _noneness(e: ast.expr):
    """True: e is None; False: e is certainly not None; None: unknown"""
    if isinstance(e, ast.Constant):
        return e.value is None
    if isinstance(e, (ast.Tuple, ast.List, ast.Dict, ast.Set, ast.ListComp, ast.DictComp, ast.SetComp, ast.GeneratorExp,
                      ast.JoinedStr, ast.Lambda, ast.Compare)):
        return False
    if isinstance(e, ast.BinOp):
        return False
    return None


class SymState:
    __slots__ = ('env', 'facts', 'epoch', 'clob')

    def __init__(self, env=None, facts=None, epoch=None, clob=None):
        self.env: dict[str, ast.expr] = dict(env or {})
        self.facts: list[tuple[str, bool, ast.expr]] = list(facts or [])
        self.epoch: dict[str, int] = dict(epoch or {})
        self.clob: set[str] = set(clob or ())

    def fork(self) -> 'SymState':
        return SymState(self.env, self.facts, self.epoch, self.clob)

    def fact(self, text: str):
        """polarity of the canonical fact `text` on this path, or None"""
        for k, p, _ in self.facts:
            if k == text:
                return p
        return None

    def holds(self, e: ast.expr | str, pol: bool = True) -> bool:
        if isinstance(e, str):
            e = ast.parse(e, mode='eval').body
        k, p, _ = canon_fact(e, pol)
        return self.fact(k) == p


class SymHit:
    def __init__(self, node, state, sym):
        self.node, self.state, self.sym = node, state, sym

    def ev(self, e: ast.expr) -> ast.expr:
        return self.sym.ev(e, self.state.fork())


class Sym:
    def __init__(self, prog, fi, depth: int = 0, parent: 'Sym | None' = None, cap: int = 600):
        self.prog, self.fi, self.depth, self.cap = prog, fi, depth, cap
        self.hits: list[SymHit] = parent.hits if parent else []
        self.raises: list = parent.raises if parent else []       # (state, exc expr | None, stmt, sym)
        self.returns: list[tuple[SymState, ast.expr | None, ast.stmt | None]] = []
        self.target = parent.target if parent else None
        self.recv = None
        if fi.cls is not None and fi.params and not any(d.split('.')[-1] == 'staticmethod' for d in fi.decorators()):
            self.recv = fi.params[0]
        self._tag = 0

    # ---- driver ----------------------------------------------------------------------------------------
    def run(self, target=None, init: SymState | None = None) -> 'Sym':
        if target is not None:
            self.target = target
        outs = self.block(self.fi.node.body, [init or SymState()])
        for s in outs:
            self.returns.append((s, ast.Constant(value=None), None))
        return self

    def block(self, stmts, states):
        for s in stmts:
            nxt = []
            for st in states:
                nxt += self.stmt(s, st)
            states = nxt
            if len(states) > self.cap:
                raise SymUndecided(f'{self.fi.qualname}: more than {self.cap} paths')
            if not states:
                break
        return states

    # ---- expressions -----------------------------------------------------------------------------------
    def ev(self, e: ast.expr, st: SymState) -> ast.expr:
        sym = self

        class T(ast.NodeTransformer):
            def __init__(self):
                self.bound: list[set[str]] = []

            def is_bound(self, name):
                return any(name in b for b in self.bound)

            def visit_Name(self, n):
                if isinstance(n.ctx, ast.Load) and not self.is_bound(n.id) and n.id in st.env:
                    return copy.deepcopy(st.env[n.id])
                return n

            def root(self, n: ast.Name):
                if self.is_bound(n.id):
                    return n
                if n.id in st.env:
                    return copy.deepcopy(st.env[n.id])
                ep = st.epoch.get(n.id, 0)
                return ast.Name(id=f'{n.id}@e{ep}', ctx=ast.Load()) if ep else n

            def visit_Attribute(self, n):
                if isinstance(n.value, ast.Name):
                    if sym.recv is not None and n.value.id == sym.recv and not self.is_bound(sym.recv):
                        key = f'{sym.recv}.{n.attr}'
                        if key in st.env and isinstance(n.ctx, ast.Load):
                            return copy.deepcopy(st.env[key])
                    n.value = self.root(n.value)
                    return n
                n.value = self.visit(n.value)
                return n

            def visit_Subscript(self, n):
                n.value = self.root(n.value) if isinstance(n.value, ast.Name) else self.visit(n.value)
                n.slice = self.visit(n.slice)
                if isinstance(n.value, ast.Tuple) and isinstance(n.slice, ast.Constant) and isinstance(n.slice.value, int) \
                        and -len(n.value.elts) <= n.slice.value < len(n.value.elts) \
                        and not any(isinstance(x, ast.Starred) for x in n.value.elts):
                    return n.value.elts[n.slice.value]
                return n

            def visit_NamedExpr(self, n):
                v = self.visit(n.value)
                st.env[n.target.id] = v
                return copy.deepcopy(v)

            def visit_IfExp(self, n):
                n.test = self.visit(n.test)
                t = sym.truth(n.test, st)
                if t is True:
                    return self.visit(n.body)
                if t is False:
                    return self.visit(n.orelse)
                n.body, n.orelse = self.visit(n.body), self.visit(n.orelse)
                return n

            def _comp(self, n):
                names = set()
                for g in n.generators:
                    names |= set(assigned_names(g.target))
                # the first iterable is evaluated outside the comprehension's scope
                n.generators[0].iter = self.visit(n.generators[0].iter)
                self.bound.append(names)
                for i, g in enumerate(n.generators):
                    if i:
                        g.iter = self.visit(g.iter)
                    g.ifs = [self.visit(x) for x in g.ifs]
                if isinstance(n, ast.DictComp):
                    n.key, n.value = self.visit(n.key), self.visit(n.value)
                else:
                    n.elt = self.visit(n.elt)
                self.bound.pop()
                return n

            visit_ListComp = visit_SetComp = visit_GeneratorExp = visit_DictComp = _comp

            def visit_Lambda(self, n):
                a = n.args
                self.bound.append({x.arg for x in a.posonlyargs + a.args + a.kwonlyargs}
                                  | ({a.vararg.arg} if a.vararg else set()) | ({a.kwarg.arg} if a.kwarg else set()))
                n.body = self.visit(n.body)
                self.bound.pop()
                return n

        return T().visit(copy.deepcopy(e))

    def truth(self, e: ast.expr, st: SymState):
        """static truth value of an (already substituted) test on this path: True / False / None"""
        k, pol, ce = canon_fact(e, True)
        p = st.fact(k)
        if p is not None:
            return p == pol
        if isinstance(e, ast.Constant):
            return bool(e.value)
        if isinstance(e, (ast.Tuple, ast.List, ast.Set)):
            return bool(e.elts)
        if isinstance(e, ast.Dict):
            return bool(e.keys)
        if isinstance(e, ast.UnaryOp) and isinstance(e.op, ast.Not):
            t = self.truth(e.operand, st)
            return None if t is None else not t
        if isinstance(e, ast.BoolOp):
            ts = [self.truth(v, st) for v in e.values]
            if isinstance(e.op, ast.And):
                return False if any(t is False for t in ts) else (True if all(t is True for t in ts) else None)
            return True if any(t is True for t in ts) else (False if all(t is False for t in ts) else None)
        if isinstance(ce, ast.Compare) and isinstance(ce.ops[0], (ast.Is, ast.Eq)):
            a, b = ce.left, ce.comparators[0]
            if isinstance(b, ast.Constant) and b.value is None:
                nn = _noneness(a)
                if nn is not None:
                    return nn == pol
            if isinstance(a, ast.Constant) and isinstance(b, ast.Constant) and isinstance(ce.ops[0], ast.Eq):
                return (a.value == b.value) == pol
            if norm(a) == norm(b) and not any(isinstance(x, ast.Call) for x in ast.walk(a)):
                return pol
        return None

    def assume(self, st: SymState, test: ast.expr, pol: bool) -> bool:
        """add `test is pol` to the path; False when the path is infeasible"""
        for a, p in conjuncts(test, pol):
            t = self.truth(a, st)
            if t is not None:
                if t != p:
                    return False
                continue
            while isinstance(a, ast.UnaryOp) and isinstance(a.op, ast.Not):
                a, p = a.operand, not p
            if isinstance(a, ast.BoolOp) and (isinstance(a.op, ast.Or) == p):
                # a disjunction known true / a conjunction known false: drop the members already decided
                rem = [v for v in a.values if self.truth(v, st) is None]
                if len(rem) == 1:
                    if not self.assume(st, rem[0], p):
                        return False
                    continue
            st.facts.append(canon_fact(a, p))
        return True

    # ---- heap -----------------------------------------------------------------------------------------
    def _fresh(self, name: str, where) -> ast.Name:
        self._tag += 1
        return ast.Name(id=f'{name}@{getattr(where, "lineno", 0)}', ctx=ast.Load())

    def clobber(self, st: SymState, roots, where=None):
        """heap state reachable from the variables `roots` may have changed"""
        roots = {_base_id(r) for r in roots}
        if not roots:
            return
        st.facts = [f for f in st.facts if not any(mentions_heap(f[2], r) for r in roots)]
        for k, v in list(st.env.items()):
            if any(mentions_heap(v, r) for r in roots) or ('.' in k and k.split('.')[0] in roots):
                st.env[k] = self._fresh(k, where)
        for r in roots:
            st.epoch[r] = st.epoch.get(r, 0) + 1
        st.clob |= roots

    def clobber_text(self, st: SymState, pred):
        st.facts = [f for f in st.facts if not any(pred(x) for x in ast.walk(f[2]))]
        for k, v in list(st.env.items()):
            if any(pred(x) for x in ast.walk(v)):
                st.env[k] = self._fresh(k, v)

    def _pure_call(self, c: ast.Call) -> bool:
        name = call_name(c)
        if name in _PURE_FUNCS:
            return True
        if any(name == r or name.startswith(r + '.') for r in _PURE_ROOTS):
            return True
        if isinstance(c.func, ast.Attribute) and c.func.attr in _PURE_METHODS:
            return True
        return False

    def effects(self, e: ast.AST | None, st: SymState, skip: ast.AST | None = None):
        """forget what the impure calls inside e may change"""
        if e is None:
            return
        for c in [x for x in walk_no_nested(e, include_lambda=False) if isinstance(x, ast.Call)]:
            if c is skip or self._pure_call(c):
                continue
            parts = list(c.args) + [k.value for k in c.keywords]
            if isinstance(c.func, ast.Attribute):
                parts.append(c.func.value)
            roots = set()
            for p in parts:
                try:
                    v = self.ev(p, st.fork())
                except RecursionError:      # pragma: no cover
                    v = p
                roots |= {x.id for x in ast.walk(v) if isinstance(x, ast.Name)}
            self.clobber(st, roots, c)

    # ---- calls of helpers of the same module ------------------------------------------------------------
    def _summarisable(self, c: ast.Call):
        if self.depth >= 2:
            return None
        try:
            callee = resolve_call(self.prog, self.fi, c)
        except Exception:
            return None
        if callee is None or callee.module is not self.fi.module or callee == self.fi:
            return None
        if any(isinstance(x, (ast.Yield, ast.YieldFrom, ast.Await)) for x in walk_no_nested(callee.node)):
            return None
        decs = [d.split('.')[-1].split('(')[0] for d in callee.decorators()]
        if any(d not in ('staticmethod', 'classmethod') for d in decs):
            return None
        if any(isinstance(a, ast.Starred) for a in c.args) or any(k.arg is None for k in c.keywords):
            return None
        return callee

    def _call(self, callee, c: ast.Call, st: SymState):
        a = callee.node.args
        if a.vararg or a.kwarg:
            return None
        pos = [x.arg for x in a.posonlyargs + a.args]
        defaults = dict(zip(reversed(pos), reversed(a.defaults)))
        for k, d in zip(a.kwonlyargs, a.kw_defaults):
            if d is not None:
                defaults[k.arg] = d
        names = pos + [x.arg for x in a.kwonlyargs]
        bind: dict[str, ast.expr] = {}
        decs = [d.split('.')[-1] for d in callee.decorators()]
        same_recv = False
        if callee.cls is not None and 'staticmethod' not in decs:
            if not isinstance(c.func, ast.Attribute) or not pos:
                return None
            if callee.name in ('__init__', '__post_init__', '__new__'):
                return None
            rv = self.ev(c.func.value, st.fork())
            if 'classmethod' not in decs:
                # the helper runs on the same object under the same name: its `self.attr` stores are this path's
                same_recv = self.recv is not None and isinstance(c.func.value, ast.Name) \
                    and c.func.value.id == self.recv == pos[0] and self.recv not in st.env
            if not same_recv:
                bind[pos[0]] = rv
            pos = pos[1:]
        if len(c.args) > len(pos):
            return None
        for p, x in zip(pos, c.args):
            bind[p] = self.ev(x, st)
        for k in c.keywords:
            if k.arg not in names or k.arg in bind:
                return None
            bind[k.arg] = self.ev(k.value, st)
        for p in names:
            if p not in bind:
                if p not in defaults:
                    return None
                bind[p] = copy.deepcopy(defaults[p])
        sub = Sym(self.prog, callee, self.depth + 1, parent=self, cap=64)
        init = SymState(bind, st.facts, st.epoch, st.clob)
        if same_recv and sub.recv is not None:
            for k, v in st.env.items():
                if k.startswith(self.recv + '.'):
                    init.env[sub.recv + k[len(self.recv):]] = v
        try:
            sub.run(init=init)
        except SymUndecided:
            return None
        if len(sub.returns) > 16:
            return None
        out = []
        for rst, rv, _ in sub.returns:
            new = SymState(st.env, rst.facts, rst.epoch, rst.clob)
            gone = {_base_id(r) for r in rst.clob} - {_base_id(r) for r in st.clob}
            if gone:
                for k, v in list(new.env.items()):
                    if any(mentions_heap(v, r) for r in gone) or ('.' in k and k.split('.')[0] in gone):
                        new.env[k] = self._fresh(k, c)
            if same_recv and sub.recv is not None:
                for k, v in rst.env.items():
                    if k.startswith(sub.recv + '.'):
                        new.env[self.recv + k[len(sub.recv):]] = v
            elif sub.recv is not None and any(k.startswith(sub.recv + '.') for k in rst.env):
                # the helper wrote attributes of another object
                self.clobber(new, {x.id for x in ast.walk(bind.get(callee.params[0], ast.Name(id=sub.recv)))
                                   if isinstance(x, ast.Name)}, c)
            out.append((new, rv if rv is not None else ast.Constant(value=None)))
        return out

    def value_states(self, e: ast.expr | None, st: SymState):
        """[(state, value)] of evaluating e: one per return path of a summarised helper, else one"""
        if e is None:
            return [(st, ast.Constant(value=None))]
        if isinstance(e, ast.Call):
            callee = self._summarisable(e)
            if callee is not None:
                for x in list(e.args) + [k.value for k in e.keywords]:
                    self.effects(x, st)
                r = self._call(callee, e, st)
                if r is not None:
                    return r
        v = self.ev(e, st)
        self.effects(e, st)
        return [(st, v)]

    # ---- statements -------------------------------------------------------------------------------------
    def _heads(self, s: ast.stmt):
        if isinstance(s, (ast.If, ast.While)):
            return [s.test]
        if isinstance(s, (ast.For, ast.AsyncFor)):
            return [s.iter]
        if isinstance(s, (ast.With, ast.AsyncWith)):
            return [i.context_expr for i in s.items]
        if isinstance(s, ast.Match):
            return [s.subject]
        if isinstance(s, (ast.Try, ast.FunctionDef, ast.AsyncFunctionDef, ast.ClassDef)):
            return []
        return [s]

    def bind(self, t: ast.expr, v: ast.expr, st: SymState):
        if isinstance(t, ast.Name):
            st.env[t.id] = v
        elif isinstance(t, (ast.Tuple, ast.List)):
            if any(isinstance(x, ast.Starred) for x in t.elts):
                for nme in assigned_names(t):
                    st.env[nme] = self._fresh(nme, t)
                return
            same = isinstance(v, (ast.Tuple, ast.List)) and len(v.elts) == len(t.elts) \
                and not any(isinstance(x, ast.Starred) for x in v.elts)
            for i, x in enumerate(t.elts):
                self.bind(x, v.elts[i] if same else
                          ast.Subscript(value=copy.deepcopy(v), slice=ast.Constant(value=i), ctx=ast.Load()), st)
        elif isinstance(t, ast.Attribute):
            if self.recv is not None and isinstance(t.value, ast.Name) and t.value.id == self.recv \
                    and self.recv not in st.env:
                st.env[f'{self.recv}.{t.attr}'] = v
                # reads of the attribute through aliases of the receiver are not tracked: none in scope
            else:
                attr = t.attr
                self.clobber_text(st, lambda x: isinstance(x, ast.Attribute) and x.attr == attr)
        elif isinstance(t, ast.Subscript):
            base = norm(self.ev(t.value, st.fork()))
            self.clobber_text(st, lambda x: isinstance(x, (ast.Attribute, ast.Subscript, ast.Name)) and norm(x) == base)
            r = chain_root(t)
            if r is not None and r.id in st.env and isinstance(st.env[r.id], (ast.Tuple, ast.List, ast.Dict, ast.Set)):
                st.env[r.id] = self._fresh(r.id, t)
        elif isinstance(t, ast.Starred):
            self.bind(t.value, self._fresh('starred', t), st)

    def _assigned(self, stmts) -> set[str]:
        out = set()
        for s in stmts:
            for x in walk_no_nested(s):
                if isinstance(x, ast.Name) and isinstance(x.ctx, (ast.Store, ast.Del)):
                    out.add(x.id)
                elif isinstance(x, ast.Attribute) and isinstance(x.ctx, (ast.Store, ast.Del)) \
                        and isinstance(x.value, ast.Name) and x.value.id == self.recv:
                    out.add(f'{self.recv}.{x.attr}')
        return out

    def _havoc(self, st: SymState, names, where):
        for nme in names:
            st.env[nme] = self._fresh(nme, where)

    def stmt(self, s: ast.stmt, st: SymState):
        if self.target is not None:
            for h in self._heads(s):
                for n in walk_no_nested(h):
                    if self.target(n):
                        self.hits.append(SymHit(n, st.fork(), self))
                        return []
        if isinstance(s, (ast.Assign, ast.AnnAssign)):
            if s.value is None:
                return [st]
            outs = []
            for st2, v in self.value_states(s.value, st):
                for t in (s.targets if isinstance(s, ast.Assign) else [s.target]):
                    self.bind(t, copy.deepcopy(v), st2)
                outs.append(st2)
            return outs
        if isinstance(s, ast.AugAssign):
            v = self.ev(s.value, st)
            self.effects(s.value, st)
            t = s.target
            key = None
            if isinstance(t, ast.Name):
                key = t.id
            elif isinstance(t, ast.Attribute) and isinstance(t.value, ast.Name) and t.value.id == self.recv \
                    and self.recv not in st.env:
                key = f'{self.recv}.{t.attr}'
            if key is None:
                self.bind(t, self._fresh('aug', s), st)
                return [st]
            cur = st.env.get(key)
            if cur is None:
                cur = ast.parse(key, mode='eval').body
            st.env[key] = ast.BinOp(left=copy.deepcopy(cur), op=s.op, right=v)
            return [st]
        if isinstance(s, ast.If):
            test = self.ev(s.test, st)
            self.effects(s.test, st)
            outs = []
            for pol, body in ((True, s.body), (False, s.orelse)):
                st2 = st.fork()
                if self.assume(st2, test, pol):
                    outs += self.block(body, [st2])
            return outs
        if isinstance(s, (ast.For, ast.AsyncFor, ast.While)):
            head = s.iter if not isinstance(s, ast.While) else s.test
            self.effects(head, st)
            assigned = self._assigned(s.body)
            inner = st.fork()
            self._havoc(inner, assigned, s)
            if not isinstance(s, ast.While):
                for nme in assigned_names(s.target):
                    inner.env[nme] = self._fresh(nme, s)
            self.block(s.body, [inner])          # returns / raises / hits inside are recorded
            after = st.fork()
            self._havoc(after, assigned | (set(assigned_names(s.target)) if not isinstance(s, ast.While) else set()), s)
            # heap effects of the body: replay them on the state after the loop
            for b in s.body:
                for x in walk_no_nested(b):
                    if isinstance(x, ast.stmt):
                        self._stmt_effects(x, after)
            return self.block(s.orelse, [after]) if s.orelse else [after]
        if isinstance(s, (ast.With, ast.AsyncWith)):
            for it in s.items:
                v = self.ev(it.context_expr, st)
                self.effects(it.context_expr, st)
                if it.optional_vars is not None:
                    self.bind(it.optional_vars,
                              ast.Call(func=ast.Attribute(value=v, attr='__enter__', ctx=ast.Load()), args=[], keywords=[]), st)
            return self.block(s.body, [st])
        if isinstance(s, ast.Try) or type(s).__name__ == 'TryStar':
            outs = self.block(s.body, [st.fork()])
            outs = self.block(s.orelse, outs) if s.orelse else outs
            assigned = self._assigned(s.body)
            for h in s.handlers:
                hs = st.fork()
                self._havoc(hs, assigned, h)
                for b in s.body:
                    for x in walk_no_nested(b):
                        if isinstance(x, ast.stmt):
                            self._stmt_effects(x, hs)
                if h.name:
                    hs.env[h.name] = self._fresh(h.name, h)
                outs += self.block(h.body, [hs])
            return self.block(s.finalbody, outs) if s.finalbody else outs
        if isinstance(s, ast.Match):
            subj = self.ev(s.subject, st)
            self.effects(s.subject, st)
            outs = []
            for c in s.cases:
                cs = st.fork()
                for x in ast.walk(c.pattern):
                    for f in ('name', 'rest'):
                        if isinstance(getattr(x, f, None), str):
                            cs.env[getattr(x, f)] = self._fresh(getattr(x, f), c)
                cs.facts.append((f'match {norm(subj)} case {norm(c.pattern)}', True, subj))
                if c.guard is not None:
                    if not self.assume(cs, self.ev(c.guard, cs), True):
                        continue
                outs += self.block(c.body, [cs])
            wild = any(isinstance(c.pattern, ast.MatchAs) and c.pattern.pattern is None and c.guard is None for c in s.cases)
            return outs if wild else outs + [st]
        if isinstance(s, ast.Return):
            for st2, v in self.value_states(s.value, st):
                self.returns.append((st2, v, s))
            return []
        if isinstance(s, ast.Raise):
            self.raises.append((st, self.ev(s.exc, st.fork()) if s.exc is not None else None, s, self))
            return []
        if isinstance(s, ast.Expr):
            return [st2 for st2, _ in self.value_states(s.value, st)]
        if isinstance(s, ast.Assert):
            return [st] if self.assume(st, self.ev(s.test, st), True) else []
        if isinstance(s, ast.Delete):
            for t in s.targets:
                if isinstance(t, ast.Name):
                    st.env[t.id] = self._fresh(t.id, s)
                else:
                    self.bind(t, self._fresh('del', s), st)
            return [st]
        if isinstance(s, (ast.Break, ast.Continue)):
            return []
        if isinstance(s, (ast.FunctionDef, ast.AsyncFunctionDef, ast.ClassDef)):
            st.env[s.name] = self._fresh(s.name, s)
            return [st]
        return [st]

    def _stmt_effects(self, s: ast.stmt, st: SymState):
        """heap effects of one simple statement, without following control flow (used for loop / try bodies)"""
        if isinstance(s, (ast.Assign, ast.AnnAssign, ast.AugAssign)):
            self.effects(s.value, st)
            for t in (s.targets if isinstance(s, ast.Assign) else [s.target]):
                for x in ([t] if not isinstance(t, (ast.Tuple, ast.List)) else list(ast.walk(t))):
                    if isinstance(x, (ast.Attribute, ast.Subscript)) and isinstance(x.ctx, ast.Store):
                        if isinstance(x, ast.Attribute) and isinstance(x.value, ast.Name) and x.value.id == self.recv:
                            continue    # already unknown through _havoc
                        self.bind(x, self._fresh('loop', s), st)
        elif isinstance(s, (ast.Expr, ast.Return)):
            self.effects(s.value, st)
        elif isinstance(s, (ast.If, ast.While)):
            self.effects(s.test, st)
        elif isinstance(s, (ast.For, ast.AsyncFor)):
            self.effects(s.iter, st)
        elif isinstance(s, (ast.With, ast.AsyncWith)):
            for it in s.items:
                self.effects(it.context_expr, st)
        elif isinstance(s, ast.Delete):
            for t in s.targets:
                if not isinstance(t, ast.Name):
                    self.bind(t, self._fresh('del', s), st)


def sym_show(e: ast.AST | None) -> str:
    """text of a symbolic value without the internal epoch / loop tags"""
    import re
    return re.sub(r'@e?\d+', '', norm(e)) if e is not None else 'None'
