"""C07 — store indices follow insertion order across sessions and evictions.

R1c, R3 (length), R4, R5, R6 are decided on *symbolic paths* (`Sym`, bottom of this module): every path through a
function is walked structurally - if / guard clause / early return / conditional expression / tuple packing and
unpacking / walrus / private helpers of the module, which are entered and summarised per return path - keeping per
path the value of every local (and of `self.attr` written on the path) as an expression over the function's inputs,
and the branch conditions taken, in a canonical spelling.  A rule then asks which value reaches which use under which
conditions; it never looks for a particular statement, local name or helper.  What the engine cannot follow is
UNDECIDED, never a violation.

R1  size-table freshness.  `NcFiles.size_index` is a snapshot of trajectory
    counts.  For every construction site of NcFiles that describes a file which
    can still grow (opened for append or newly created), either the snapshot is
    None (the locate code then indexes the file directly) or some function on
    the add path refreshes it.  Construction sites are classified by a table
    confirmed by reading; an unknown site is treated as growable.
R1b the only site that does take a snapshot (merged stores) is read-only: the
    constructor refuses every writable mode for merged stores before opening.
R1c locate paths: on every path of _load_trajectory that reaches a record read
    (`_read_from_nc_var`) with "no size table" established (or without using the
    table), the record read is the requested index itself, of file 0; the table
    is used only on paths that established that it exists.  (The arithmetic on
    the table paths is C09-R3.)  The paths run through private methods that
    _load_trajectory calls on the store itself (a split-off `_read_fields`)
    and query methods of the file-set record (`locate(index)`).
R2  one increment per successful add: on every normal path through `add` the
    next-index counter is incremented exactly once (`+= 1`, or stored as the
    saved entry value plus one), and the returned value is a copy of the counter
    taken before the increment; the write is handed that index and - when the
    trajectory is passed along - the trajectory being added.  Refused addition: every statement of add that
    puts the trajectory into the cache (element store, setdefault / update /
    __setitem__, or a method of the store that does so) is a point where a
    store without a file refuses - the cache's popitem() raises instead of
    evicting (R4); the exception classes a handler must name are read off that
    raise.  On every path from such a point out of add() by that exception the
    counter has its entry value: not yet advanced at the point, or put back
    from the saved copy by the first handler that catches the refusal
    (directly or through a method of the store that is handed the saved copy).
    A `with` over a context manager *of the program* is first read as what the interpreter runs for it
    (`dissolve_managers`): the constructor's field stores become locals of add (a field that is just an argument is
    that argument), `v.f` of the object bound by `as v` is that local, and `__exit__` becomes `except BaseException:
    <what it does when handed an exception>; raise` / `else: <what it does when handed none>` (`finally` when it does
    not look at its arguments) - its tests of the exception parameters are decided per case; generator-based managers
    are spliced at their yield; copies of single-definition locals are propagated.  A manager that may swallow the
    exception or that uses it otherwise is UNDECIDED.  R2 (and the shared restore dataflow of C10-R1) then judge the
    rollback of a manager object exactly as a hand-written handler.
R3  length: every value __len__ can return is classified - the sum of the
    trajectory dimension over *all* files of the measuring field set (a single
    element is wrong for merged stores), the cache size for an in-memory store,
    or a *stored count* (`self.<attr>`).  A stored count is a freshness
    obligation like R1: some function on the add path must update or clear it,
    unless every store of the count happens under modes in which add() refuses
    (decided by evaluating the path conditions of the stores and of add's
    refusals over the members of the file-mode enum).  APPEND initialises the
    counter from the same dimension.  A `cached_property` of a record class of the module that copies a number, and a
    field of such a record, are stored counts as well (kept in that object): fresh only if the add path deletes /
    overwrites the attribute (`del x.p`, `x.__dict__.pop('p')`, `x.p = …`); the same for a count the locate code (R1c)
    compares the index with.  Members of record / helper classes (class known from annotations and constructors) are
    opened by the symbolic engine: a single-expression `@property` is its expression over the same object, an
    effect-free method is entered like a private helper; a `cached_property` that keeps objects is its expression.
    Constructing a *record* of the program (dataclass / NamedTuple without written constructor) only keeps the
    arguments: it is no effect, the value is not None, and a field read of it is the argument it was built with (so a
    query method may hand its result back as a record).
R4  eviction refusal, per site: every path to the base-class popitem() has seen
    the refusal flag unset and the set flag raises (a refusal raised after the
    base-class popitem() has already removed the entry is reported as such);
    the flag becomes true only in the store's constructor under "no base file"
    (guarded store - the guard may be spelt through a property of the store
    that only names the condition -, the condition itself as value, or a
    parameter of the cache's constructor / of a factory of the cache that is
    stored into the flag, default False), and false only as the default, under
    "has a base file", or in `save` at a point from which no trajectory write
    is reachable.
R7  file-link typestate.  The two states in which the constructor leaves a
    store without a file - *in memory* (CREATE, no base file) and *creation
    pending* (CREATE with a base file, before the first successful addition) -
    are computed by evaluating the constructor's stores.  Every public
    operation is walked on its CFG in each state (tests with a definite value
    in the state - attributes as the constructor left them, properties that
    name a condition opened, locals that can hold one constant only - are
    followed on that side only; loops over an empty container are not entered;
    an edge that attaches files leaves the state; self-calls are followed):
    no path reaches `self._nc[<fixed key>]`, `self.index_group.<attr>` or an
    `assert` that is false in the state (the loader's `assert npoints is not
    None` with no file to read from).  `indexable` counts as still None while
    creation is pending only if every store of it leaves the state or is
    undone before the method is left.  A store that was closed is outside the
    histories of the property (it is reopened, not used) and is not a state
    here.
R8  no half-written addition.  Where the write path (closure of `_write_trajectory`) refuses a missing required
    value (a raise under `<field>.required` and a None test), the fields before that one are already in the file at the
    new index: the trajectory dimension has grown though add() fails.  So on the symbolic paths of add (helpers
    entered) some refusal that depends on `.required` is reached before the counter, the cache or a file is touched,
    and its condition compares with None a value *read from the trajectory being added* (`getattr(t, n)`,
    `t._data.get(n)`, `t._data[n]`, in a loop, a comprehension, any() / next() or a helper's verdict).  A refusal that
    tests something else about the trajectory (key membership: unset fields are present with value None) lets the
    incomplete trajectory through to the write.
R5  cache-key discipline: every store of a loaded trajectory into the cache is
    keyed by the requested index; every return of __getitem__ is the cache
    entry of the requested index on a path that established membership (or a
    `.get()` tested against None - a truth-value test treats an empty
    trajectory as missing); every load is of the requested index (or is
    followed, on every path, by one); an unknown index is refused by absence.
    The symbolic paths carry the ordered trace of what changed the heap; from
    it the cache changes of a path are read (element stores, mapping methods,
    calls of functions whose closure inserts - keyed by the parameter their own
    paths insert under).  Out of range is decided on the cache as the load of
    the requested index left it: on every path to IndexError the last entry
    put into the cache is that of the requested index and nothing is removed
    after it (anything loaded afterwards - read-ahead, neighbours - makes a
    small LRU cache evict the requested entry again).  Likewise a cache entry
    returned after another key was inserted needs a new membership test.
R6  iteration yields store[0], store[1], …: every value __iter__ can return is
    a fresh iterator whose position is an index that starts at 0, is read
    through store[index], advances by one and stops at len(store) (iterator
    class with a cursor - decided per path of __init__/__next__ -, generator or
    generator expression over range(len(store))).  The store as its own
    iterator shares one cursor; an iterator over the cache mapping yields cache
    order (read order) and only resident items.  `save` counts the trajectories
    before the files exist and writes index i at position i (a write that is
    handed the trajectory gets the cache entry / store item of that same i).
"""

from __future__ import annotations

import ast
import copy

from ..algebra import AlgebraError, normal_form
from ..astutil import (ancestors, arg_or_kw, assigned_names, call_name, calls_in, conjuncts, eval_pred, guards_of,
                       kwarg, local_defs, norm, single_def_value, stmt_of, stores_to, walk_no_nested)
from ..cfg import CFG
from ..loader import dotted_name
from ..resolve import closure, resolve_call, resolve_class_call

STORE = 'trajectories/store.py'
# the classes whose public members are the vocabulary of the rules (never opened by the symbolic engine)
VOCAB_CLASSES = ('TrajectoryStore',)

# construction sites of NcFiles: function -> (growable?, reason)
SITE_TABLE = {
    'TrajectoryStore._create_nc_file': (True, 'file created for writing (CREATE / save / create_associated)'),
    'TrajectoryStore._open_nc_file': (True, 'single file opened for READ or APPEND'),
    'TrajectoryStore._open_merged_store': (False, 'merged store: READ only (see R1b)'),
}


def run(ctx):
    prog = ctx.prog
    m = prog.module(STORE)
    # R7: the list operations (add / sync / close / index / iterate / len) work on a store that has no file attached
    # yet - in memory, or created with a base file before the first successful addition -: file-only state is
    # dereferenced (and the loader's assertion about loaded data reached) only behind a test that files are attached
    rule_link_state(ctx, prog, m, rule='C07-R7')
    cls = m.cls('TrajectoryStore')
    add = m.func('TrajectoryStore.add')

    # ---- R1 ---------------------------------------------------------------
    sites = []
    for fi in m.functions.values():
        for c in calls_in(fi.node):
            rc = resolve_class_call(prog, fi, c)
            if rc is not None and rc.name == 'NcFiles':
                sites.append((fi, c))
    ctx.floor('C07-R1', len(sites), 3, 'NcFiles construction sites')
    add_path = closure(prog, [add])
    refreshers = []
    for fn in add_path:
        for t, st, how in stores_to(fn.node):
            b = t
            while isinstance(b, ast.Subscript):
                b = b.value
            if isinstance(b, ast.Attribute) and b.attr == 'size_index':
                refreshers.append((fn, st))
        for c in calls_in(fn.node):
            if isinstance(c.func, ast.Attribute) and c.func.attr in ('append', 'extend', 'insert') \
                    and isinstance(c.func.value, ast.Attribute) and c.func.value.attr == 'size_index':
                refreshers.append((fn, c))
    for fi, c in sites:
        growable, reason = SITE_TABLE.get(fi.qualname, (True, 'unknown construction site: treated as growable'))
        v = kwarg(c, 'size_index')
        if v is None:
            # positional: field order of the dataclass
            ctx.undecided('C07-R1', fi, norm(c)[:60], 'size_index not passed by keyword')
        is_none = isinstance(v, ast.Constant) and v.value is None
        if not growable:
            ctx.ob('C07-R1', fi, f'size_index={norm(v)[:60]} (read-only site)', True,
                   f'{reason}; a snapshot of a file that cannot grow cannot go stale', line=c.lineno,
                   nontrivial=False)
            continue
        ok = is_none or bool(refreshers)
        ctx.ob('C07-R1', fi, f'size_index={norm(v)[:60]} at growable site', ok,
               ('no snapshot: the file is indexed directly' if is_none else
                f'snapshot refreshed on the add path by {refreshers[0][0].qualname}') if ok else
               (f'{reason}: the table is a snapshot of the trajectory count taken at open time and '
                'nothing on the add path (add → _write_trajectory → _write_data) refreshes it; '
                '_load_trajectory then locates old and new items with a stale table '
                '(append session: store[0] returns a later trajectory)'),
               line=c.lineno)

    # ---- R1b merged stores are read-only -----------------------------------
    init = m.func('TrajectoryStore.__init__')
    found = None
    for fn in closure(prog, [init]):
        for n in walk_no_nested(fn.node):
            if isinstance(n, ast.Raise):
                gs = guards_of(n)
                txt = [norm(x) for x, pol, _ in gs]
                if any('merged_store' in t for t in txt) and any('READ' in t or 'APPEND' in t for t in txt):
                    found = (fn, n, txt)
    ctx.ob('C07-R1b', init, 'merged stores refused in writable modes', found is not None,
           (f'{found[0].qualname} raises under {found[2]}') if found else
           'nothing refuses opening a merged store for APPEND: its size table would go stale',
           line=(found[1].lineno if found else init.node.lineno))

    # ---- R1c locate paths, R5 cache-key discipline (decided on symbolic paths, see below) ----------------
    rule_locate(ctx, prog, m)
    rule_getitem(ctx, prog, m)

    # ---- R2 one increment per successful add -------------------------------
    # (a `with` over a context manager of the program is read as the try / except / finally the interpreter runs: the
    # rollback a manager's __exit__ performs when it is handed an exception is a handler of add)
    add0 = add
    try:
        add = dissolve_managers(prog, add0)
    except ManagerUndecided as e:
        ctx.undecided('C07-R2', add0, 'with statement over a context manager of the program', str(e))
    g = CFG(add.node)
    inc_nodes = set()
    for n in g.nodes:
        if n.kind == 'stmt' and isinstance(n.stmt, (ast.AugAssign, ast.Assign)):
            tg = n.stmt.target if isinstance(n.stmt, ast.AugAssign) else n.stmt.targets[0]
            if isinstance(tg, ast.Attribute) and tg.attr == '_next_index' and dotted_name(tg.value) == 'self':
                if _in_reraising_handler(n.stmt):
                    continue
                inc_nodes.add(n.id)
    ctx.floor('C07-R2', len(inc_nodes), 1, 'counter updates in add')

    def transfer(node, st):
        if node.id in inc_nodes:
            s = node.stmt
            plus_one = isinstance(s, ast.AugAssign) and isinstance(s.op, ast.Add) \
                and isinstance(s.value, ast.Constant) and s.value.value == 1
            if isinstance(s, ast.Assign):
                plus_one = norm(s.value) in ('self._next_index + 1', '1 + self._next_index')
                v = s.value
                if not plus_one and isinstance(v, ast.BinOp) and isinstance(v.op, ast.Add):
                    # `self._next_index = saved + 1` with saved = the counter at entry: one past the old value, however
                    # often this is stored
                    for x, y in ((v.left, v.right), (v.right, v.left)):
                        if isinstance(y, ast.Constant) and y.value == 1 and type(y.value) is int and isinstance(x, ast.Name):
                            d = single_def_value(add.node, x.id)
                            dn = g.nodes_of(stmt_of(d)) if d is not None and norm(d) == 'self._next_index' else []
                            if dn and all(dn[0] in dom[i] for i in inc_nodes):
                                return frozenset({1})
            return frozenset((c + 1 if plus_one else 99) for c in st)
        return st

    dom = g.dominators(edge_ok=lambda a, b, lab: lab != 'e')
    ins, _ = g.forward(frozenset({0}), transfer, lambda a, b: a | b,
                       edge_ok=lambda a, b, lab: lab != 'e')
    counts = ins.get(g.exit, frozenset())
    ok = counts == frozenset({1})
    ctx.ob('C07-R2', add, 'counter incremented exactly once on every normal path', ok,
           'every path to a return passes exactly one `_next_index += 1`' if ok else
           f'increment counts over normal paths to return: {sorted(counts)} (99 = not a +1 update)')
    rets = [n for n in g.nodes if n.kind == 'stmt' and isinstance(n.stmt, ast.Return)]
    for r in rets:
        v = r.stmt.value
        okr = False
        why = 'return value is not a copy of the counter taken before the increment'
        if isinstance(v, ast.Name):
            d = single_def_value(add.node, v.id)
            if d is not None and norm(d) == 'self._next_index':
                dn = g.nodes_of(stmt_of(d))
                okr = bool(dn) and all(dn[0] in dom[i] for i in inc_nodes)
                why = (f'{v.id} = self._next_index is taken before the increment' if okr
                       else 'the saved copy is not taken before the increment')
        ctx.ob('C07-R2', add, f'return {norm(v)}', okr, why, line=r.line)
    # the trajectory is cached and written under that same saved index
    for n in g.nodes:
        if n.kind == 'stmt' and isinstance(n.stmt, ast.Assign):
            t = n.stmt.targets[0]
            if isinstance(t, ast.Subscript) and isinstance(t.value, ast.Attribute) \
                    and t.value.attr == '_trajectories' and not _in_reraising_handler(n.stmt):
                ret_names = {norm(r.stmt.value) for r in rets}
                ok = norm(t.slice) in ret_names
                ctx.ob('C07-R2', add, f'cached under {norm(t.slice)}', ok,
                       'same value as returned' if ok else
                       'the trajectory is cached under a different index than the one returned',
                       line=n.line)
    for c in calls_in(add.node):
        if call_name(c).endswith('_write_trajectory'):
            ret_names = {norm(r.stmt.value) for r in rets}
            ok = bool(c.args) and norm(c.args[0]) in ret_names
            ctx.ob('C07-R2', add, f'written at {norm(c.args[0]) if c.args else "?"}', ok,
                   'same value as returned' if ok else
                   'the trajectory is written at a different index than the one returned', line=c.lineno)
            # a write that is handed the trajectory as well writes the one being added (or the cache entry under the
            # returned index), not another one
            added = add.params[1] if len(add.params) > 1 else None
            for a in list(c.args[1:]) + [k.value for k in c.keywords if k.arg is not None]:
                if isinstance(a, ast.Name) and a.id != added:
                    a = single_def_value(add.node, a.id) or a
                if norm(a) in ret_names:
                    continue
                mine = _is_name(a, added) or (isinstance(a, ast.Subscript) and _is_cache(a.value)
                                              and norm(a.slice) in ret_names)
                ctx.ob('C07-R2', add, f'trajectory written: {norm(a)[:50]}', mine,
                       'the trajectory being added' if mine else
                       f'the write at the new index is handed `{norm(a)[:50]}`, not the trajectory being added: index n-1 '
                       f'holds other data in the file than the n-th trajectory added', line=c.lineno)

    # a full in-memory store refuses the addition where the trajectory is put into the cache
    rule_refusal(ctx, prog, m, add, g, inc_nodes, dom)

    # on rejection paths the counter must be back at its pre-add value: the
    # validate-before-mutate dataflow of C10-R1, restricted to the counter
    from .c10 import rule_add as _c10_add
    sub = type(ctx)(ctx.prop, ctx.prog, ctx.tier)
    if add is add0:
        _c10_add(sub)
    else:
        _c10_add(sub, fn=add)
    for o in sub.obligations:
        if '_next_index' in o.construct and o.rule == 'C10-R1':
            o.rule = 'C07-R2'
            ctx.obligations.append(o)

    add = add0
    # ---- R8 an addition the write path would refuse half-way is refused before anything is written -------
    rule_prevalidation(ctx, prog, m, add)

    # ---- R3 length source ----------------------------------------------------
    rule_len(ctx, prog, m, add)
    opn = m.func('TrajectoryStore._open')
    sets = [st for t, st, how in stores_to(opn.node)
            if isinstance(t, ast.Attribute) and t.attr == '_next_index']
    init_txt = norm(sets[0].value) if sets else ''
    if len(sets) == 1 and 'traj_dim' not in init_txt:
        # the value through the members of the file record it is spelt with (`files.ntrajectories`): what is read at
        # this moment - a cached member is, here, its expression
        try:
            hs = Sym(prog, opn).run(lambda n, s=sets[0]: n is s).hits
        except SymUndecided:
            hs = []
        vals = set()
        for h in hs:
            for _, v in h.sym.value_states(sets[0].value, h.state.fork()):
                vals.add(_strip(split_cached(prog, opn, h.sym, v)[0]))
        if len(vals) == 1:
            init_txt = next(iter(vals))
        if vals and not any('traj_dim' in t for t in vals) and any(
                (isinstance(x, ast.Call) and call_name(x) not in _PURE_FUNCS)
                or (isinstance(x, ast.Attribute) and hs[0].sym.class_of(x.value) is not None
                    and _attr_annotation(hs[0].sym.class_of(x.value), x.attr) is not None)
                for t in vals for x in ast.walk(ast.parse(t, mode='eval'))):
            ctx.undecided('C07-R3', opn, sorted(vals)[0][:80], 'initial value of the counter on APPEND: a call or a stored field that could not be followed to the trajectory dimension')
    ok = len(sets) == 1 and 'traj_dim' in init_txt and 'len(' in init_txt \
        and any('APPEND' in norm(x) for x, _, _ in guards_of(sets[0]))
    ctx.ob('C07-R3', opn, 'APPEND starts the counter at the file length', ok,
           norm(sets[0]) if ok else 'the counter is not initialised from the trajectory dimension on APPEND',
           line=(sets[0].lineno if sets else opn.node.lineno))

    # ---- R4 eviction wiring (per site, see rule_eviction) ---------------------------------------------
    rule_eviction(ctx, prog, m)
    # ---- R6 iteration and save walk the indices 0 .. len-1 in order -----------
    rule_iter(ctx, prog, m)
    rule_save(ctx, prog, m)

    # the flag is set on an in-memory store only if base_file is None: also the
    # in-memory condition of __init__ must read the attribute the checker set
    ctx.assumptions += [
        'netCDF4 unlimited dimensions grow on write and report their current length via len()',
        'cachetools.LRUCache calls popitem() to evict',
        'cachetools.Cache.__setitem__ evicts (calls popitem) before it stores the new entry: a refused insertion stores nothing',
    ]


COUNTER = '_next_index'


def _counter_store(s: ast.AST) -> bool:
    if isinstance(s, (ast.Assign, ast.AugAssign, ast.AnnAssign)):
        ts = s.targets if isinstance(s, ast.Assign) else [s.target]
        return any(isinstance(x, ast.Attribute) and x.attr == COUNTER and dotted_name(x.value) == 'self'
                   and isinstance(x.ctx, ast.Store) for t in ts for x in ast.walk(t))
    return False


def refusal_exceptions(prog, m) -> tuple[set[str], str] | None:
    """(names under which a handler catches it, display name) of what the cache raises instead of evicting, read off
    the raise in the cache's popitem(); None when popitem cannot refuse"""
    import builtins
    cache = m.classes.get('TrajectoryCache')
    pop = cache.methods.get('popitem') if cache is not None else None
    if pop is None:
        return None
    for x in walk_no_nested(pop.node):
        if isinstance(x, ast.Raise) and x.exc is not None and not _in_reraising_handler(x):
            e = x.exc.func if isinstance(x.exc, ast.Call) else x.exc
            name = e.attr if isinstance(e, ast.Attribute) else e.id if isinstance(e, ast.Name) else None
            if name is None:
                continue
            names, todo = {name, 'Exception', 'BaseException'}, [name]
            while todo:
                n = todo.pop()
                ci = next((c for q, c in m.classes.items() if q.split('.')[-1] == n), None)
                if ci is not None:
                    for b in ci.base_exprs:
                        b = b.split('.')[-1].split('[')[0]
                        if b not in names:
                            names.add(b)
                            todo.append(b)
                elif isinstance(getattr(builtins, n, None), type) and issubclass(getattr(builtins, n), BaseException):
                    names |= {k.__name__ for k in getattr(builtins, n).__mro__ if k is not object}
            return names, f'{cache.name}.popitem raises {name}'
    return None


def rule_refusal(ctx, prog, m, add, g, inc_nodes, dom):
    """C07-R2 (refused addition): the statement that puts the trajectory into the cache is where a store without a
    file refuses the addition (the cache raises instead of evicting, R4).  On every path from such a statement out of
    add() by that exception the counter has its value from before the call: it was not yet advanced there, or a
    handler that catches the refusal puts the saved copy back."""
    ref = refusal_exceptions(prog, m)
    if ref is None:
        ctx.undecided('C07-R2', add, 'refused addition', 'the cache has no popitem() that refuses: nothing to decide here (R4)')
    catches, what = ref

    def in_handler(stmt):
        return _in_reraising_handler(stmt)

    # where the addition can be refused: insertions into the cache, directly or through a method of the store
    points: dict[int, str] = {}
    for n in g.nodes:
        if n.stmt is None or n.kind in ('finally', 'dispatch', 'join', 'except') or in_handler(n.stmt):
            continue
        heads = [n.stmt] if n.kind == 'stmt' else Sym._heads(None, n.stmt)
        for h in heads:
            if _is_cache_insert(h):
                points[n.id] = norm(h)[:60]
                continue
            for c in calls_in(h):
                if _is_cache_insert(c):
                    points[n.id] = norm(c)[:60]
                    continue
                try:
                    callee = resolve_call(prog, add, c)
                except Exception:
                    callee = None
                if callee is not None and callee.cls is add.cls and callee_cache_inserts(prog, callee):
                    points[n.id] = norm(c)[:60]
    ctx.floor('C07-R2/refusal', len(points), 1, 'statements of add that put the trajectory into the cache')

    def saved_copy(name: str) -> bool:
        d = single_def_value(add.node, name)
        if d is None or norm(d) != f'self.{COUNTER}':
            return False
        dn = g.nodes_of(stmt_of(d))
        return bool(dn) and all(dn[0] in dom.get(i, set()) for i in inc_nodes)

    def _const(e):
        return e.value if isinstance(e, ast.Constant) and type(e.value) is int else None

    def counter_after(s: ast.stmt, off: int) -> int:
        """the counter's distance from its value at entry after the store s, given the distance before (99: unknown)"""
        if isinstance(s, ast.AugAssign):
            c = _const(s.value)
            if c is None or off == 99 or not isinstance(s.op, (ast.Add, ast.Sub)):
                return 99
            return off + c if isinstance(s.op, ast.Add) else off - c
        v = None
        if isinstance(s, (ast.Assign, ast.AnnAssign)):
            for t in (s.targets if isinstance(s, ast.Assign) else [s.target]):
                if isinstance(t, ast.Attribute) and t.attr == COUNTER:
                    v = s.value
                elif isinstance(t, (ast.Tuple, ast.List)) and isinstance(s.value, (ast.Tuple, ast.List)) \
                        and len(t.elts) == len(s.value.elts):
                    for a, b in zip(t.elts, s.value.elts):
                        if isinstance(a, ast.Attribute) and a.attr == COUNTER:
                            v = b
        if v is None:
            return 99

        def base(e):
            """distance of e from the entry value when e is the saved copy / the counter itself"""
            if isinstance(e, ast.Name) and saved_copy(e.id):
                return 0
            if norm(e) == f'self.{COUNTER}':
                return off
            return None
        b = base(v)
        if b is None and isinstance(v, ast.BinOp) and isinstance(v.op, (ast.Add, ast.Sub)):
            for x, y in ((v.left, v.right), (v.right, v.left)):
                if base(x) is not None and _const(y) is not None and (isinstance(v.op, ast.Add) or x is v.left):
                    b = base(x) if base(x) == 99 else base(x) + (_const(y) if isinstance(v.op, ast.Add) else -_const(y))
                    break
        return 99 if b is None else b

    def helper_restore(s: ast.stmt):
        """True / False when the statement calls a method of the store that stores the counter (from a saved copy
        passed to it / in another way); None when it does not touch the counter"""
        # (a helper that advances the counter on the normal path is inlined by the loader or outside this rule's
        # reach: R2's instance floor on the counter updates of add then fails honestly)
        if not (isinstance(s, ast.Expr) and isinstance(s.value, ast.Call)):
            return None
        c = s.value
        try:
            callee = resolve_call(prog, add, c)
        except Exception:
            callee = None
        if callee is None or callee.cls is not add.cls:
            return None
        found = None
        for f in closure(prog, [callee]):
            for x in walk_no_nested(f.node):
                if _counter_store(x):
                    v = getattr(x, 'value', None)
                    ok = f == callee and isinstance(x, ast.Assign) and isinstance(v, ast.Name) and v.id in callee.params[1:]
                    if ok:
                        a = arg_or_kw(c, callee.params[1:].index(v.id), v.id)
                        ok = isinstance(a, ast.Name) and saved_copy(a.id)
                    found = ok if found is None else (found and ok)
        return found

    def handler_of(nid):
        return g.nodes[nid].stmt if g.nodes[nid].kind == 'except' else None

    def catching(h: ast.ExceptHandler) -> bool:
        if h.type is None:
            return True
        ts = h.type.elts if isinstance(h.type, ast.Tuple) else [h.type]
        return any(norm(t).split('.')[-1] in catches for t in ts)

    def edge_ok_from(point):
        def edge_ok(a, b, lab):
            if lab != 'e':
                return True
            na = g.nodes[a]
            if a == point:
                return True
            if na.kind == 'dispatch':
                hs = [h for h in na.stmt.handlers]
                first = next((h for h in hs if catching(h)), None)
                if first is None:
                    return handler_of(b) is None           # passes on to the outer target
                return handler_of(b) is first
            if na.kind == 'stmt' and isinstance(na.stmt, ast.Raise):
                return in_handler(na.stmt) or 'exc' in na.fin
            return 'exc' in na.fin
        return edge_ok

    def transfer(node, st):
        if node.kind != 'stmt' or node.stmt is None:
            return st
        s = node.stmt
        if _counter_store(s):
            return frozenset(counter_after(s, off) for off in st)
        if in_handler(s):
            hr = helper_restore(s)
            if hr is not None:
                return frozenset({0}) if hr else frozenset({99})
        return st

    for pid, txt in sorted(points.items()):
        # the state in which the refusal leaves the point: the counter as it was when the statement started
        ins, _ = g.forward(frozenset({0}), transfer, lambda a, b: a | b,
                           edge_ok=lambda a, b, lab: lab != 'e')
        at = ins.get(pid)
        if at is None:
            continue
        eo = edge_ok_from(pid)
        seen, work, out = {}, [(pid, at, True)], frozenset()
        # propagate along the exceptional continuation of the point only
        while work:
            nid, st, first = work.pop()
            node = g.nodes[nid]
            st_out = st if first else transfer(node, st)
            for b, lab in g.succ[nid]:
                if first and lab != 'e':
                    continue
                if not eo(nid, b, lab):
                    continue
                if b == g.raise_exit:
                    out |= st_out
                    continue
                if b == g.exit:
                    continue
                new = seen.get(b, frozenset()) | st_out
                if new != seen.get(b):
                    seen[b] = new
                    work.append((b, new, False))
        ok = out <= {0}
        incs = sorted({int(g.nodes[i].line) for i in inc_nodes
                       if g.reaches(i, pid, edge_ok=lambda a, b, lab: lab != 'e')})
        ctx.ob('C07-R2', add, f'refused insertion `{txt}` leaves the counter untouched', ok,
               (f'when the cache refuses ({what}) the counter has not been advanced yet or a handler puts the saved '
                f'copy back') if ok else
               (f'`{txt}` is where a store without a file refuses the addition ({what}); the counter was already '
                f'advanced (line {", ".join(map(str, incs)) or "?"}) and no handler on the way out puts the saved copy '
                f'back: every refused add() uses up an index, so the next trajectory gets an index that is too large '
                f'(store[len-1] raises IndexError, iteration breaks, holes in the file after save)'),
               line=g.nodes[pid].line)


def _in_reraising_handler(stmt):
    for a in ancestors(stmt):
        if isinstance(a, ast.ExceptHandler):
            return True
        if isinstance(a, (ast.FunctionDef, ast.AsyncFunctionDef)):
            return False
    return False


# ======================================================================================================
# `with` statements over context managers of the program, as the try / except / finally the interpreter runs
# ======================================================================================================

class ManagerUndecided(Exception):
    pass


def _exc_truth(e: ast.expr, names: set[str], raised: bool, consts: dict | None = None):
    """truth value of a test of `__exit__` over its exception parameters (`et`, `args[0]`, a local that holds such a
    test) when BODY raised / did not raise; 'free' when the test does not read them, None when it reads them in a way
    that is not followed"""
    consts = consts or {}

    def is_exc(x):
        return (isinstance(x, ast.Name) and x.id in names) or (
            isinstance(x, ast.Subscript) and isinstance(x.value, ast.Name) and x.value.id in names
            and isinstance(x.slice, ast.Constant) and x.slice.value in (0, 1, 2))
    if not any(isinstance(x, ast.Name) and (x.id in names or x.id in consts) for x in ast.walk(e)):
        return 'free'
    if isinstance(e, ast.Name) and e.id in consts:
        return consts[e.id]
    if is_exc(e):
        return raised
    if isinstance(e, ast.UnaryOp) and isinstance(e.op, ast.Not):
        v = _exc_truth(e.operand, names, raised, consts)
        return (not v) if isinstance(v, bool) else None
    if isinstance(e, ast.Compare) and len(e.ops) == 1 and is_exc(e.left) \
            and isinstance(e.comparators[0], ast.Constant) and e.comparators[0].value is None:
        if isinstance(e.ops[0], (ast.Is, ast.Eq)):
            return not raised
        if isinstance(e.ops[0], (ast.IsNot, ast.NotEq)):
            return raised
        return None
    if isinstance(e, ast.BoolOp):
        vs = [_exc_truth(v, names, raised, consts) for v in e.values]
        if all(isinstance(v, bool) for v in vs):
            return all(vs) if isinstance(e.op, ast.And) else any(vs)
    return None


def _exit_branch(stmts: list, names: set[str], raised: bool, consts: dict | None = None):
    """what `__exit__` does when BODY raised / did not raise: (statements, reached a return) - its tests of the
    exception parameters decided, a trailing `return <false>` dropped.  ManagerUndecided when the exception is looked
    at in another way, when it may be swallowed, or a `return` stands under a test that is kept."""
    out = []
    consts = {} if consts is None else consts
    for s in stmts:
        if isinstance(s, ast.Return):
            v = s.value
            if raised and not (v is None or (isinstance(v, ast.Constant) and not v.value)):
                raise ManagerUndecided('__exit__ may swallow the exception')
            if v is not None and not isinstance(v, (ast.Constant, ast.Name)):
                raise ManagerUndecided('__exit__ returns a computed value')
            return out, True
        if isinstance(s, ast.Assign) and len(s.targets) == 1 and isinstance(s.targets[0], ast.Name):
            t = _exc_truth(s.value, names, raised, consts)
            if isinstance(t, bool):
                consts[s.targets[0].id] = t         # a local that names the outcome
                continue
            consts.pop(s.targets[0].id, None)
        if isinstance(s, ast.If):
            t = _exc_truth(s.test, names, raised, consts)
            if t is None:
                raise ManagerUndecided('__exit__ tests the exception in a way that is not followed')
            if t != 'free':
                sub, done = _exit_branch(s.body if t else s.orelse, names, raised, consts)
                out += sub
                if done:
                    return out, True
                continue
        if any(isinstance(x, ast.Return) for x in ast.walk(s)):
            raise ManagerUndecided('return of __exit__ under a condition')
        if any(isinstance(x, ast.Name) and (x.id in names or x.id in consts) for x in ast.walk(s)):
            raise ManagerUndecided('__exit__ uses the exception')
        out.append(s)
    return out, False


def _doc_free(body: list) -> list:
    return [s for s in body if not (isinstance(s, ast.Expr) and isinstance(s.value, ast.Constant)
                                    and isinstance(s.value.value, str))]


class _ObjFields(ast.NodeTransformer):
    """`<me>.f` -> the expression / local that stands for field f; names in `rename` renamed"""

    def __init__(self, me: str | None, repl: dict, rename: dict | None = None, subst: dict | None = None):
        self.me, self.repl, self.rename, self.subst = me, repl, rename or {}, subst or {}

    def visit_Attribute(self, n: ast.Attribute):
        if self.me is not None and isinstance(n.value, ast.Name) and n.value.id == self.me and n.attr in self.repl:
            r = self.repl[n.attr]
            if isinstance(r, str):
                return ast.copy_location(ast.Name(r, n.ctx), n)
            if not isinstance(n.ctx, ast.Load):
                raise ManagerUndecided(f'field {n.attr} of the manager object is stored')
            return ast.copy_location(copy.deepcopy(r), n)
        return self.generic_visit(n)

    def visit_Name(self, n: ast.Name):
        if n.id == self.me:
            raise ManagerUndecided('the manager object is used as a whole')
        if n.id in self.subst and isinstance(n.ctx, ast.Load):
            return ast.copy_location(copy.deepcopy(self.subst[n.id]), n)
        if n.id in self.rename:
            return ast.copy_location(ast.Name(self.rename[n.id], n.ctx), n)
        return n


def _detached_copy(node: ast.AST) -> ast.AST:
    p = getattr(node, '_parent', None)
    node._parent = None
    try:
        new = copy.deepcopy(node)
    finally:
        node._parent = p
    new._parent = p
    return new


def _class_manager_try(prog, fi, fn_node: ast.AST, w: ast.With, ci) -> list:
    """the statements `with C(args) [as v]: BODY` stands for, C a class of the program:

        <constructor: its field stores, as locals of the caller - a field that is just an argument is that argument>
        <body of __enter__>
        try: BODY
        except BaseException: <what __exit__ does when it is handed an exception>; raise
        else: <what __exit__ does when it is handed none>          (`finally`, when __exit__ does not look)

    and every `v.f` of the function is the local that holds field f (v bound to the object by `return self`)."""
    from ..astutil import _bind_manager_arguments
    it = w.items[0]
    call = it.context_expr
    init, enter, exit_ = (ci.find_method(k) for k in ('__init__', '__enter__', '__exit__'))
    if enter is None or exit_ is None:
        raise ManagerUndecided(f'{ci.name} has no __enter__ / __exit__ that can be read')
    for f in (init, enter, exit_):
        if f is None:
            continue
        if f.node.decorator_list or any(isinstance(x, (ast.Yield, ast.YieldFrom, ast.Await, ast.Global, ast.Nonlocal, ast.Lambda))
                                        or (x is not f.node and isinstance(x, (ast.FunctionDef, ast.ClassDef)))
                                        for x in ast.walk(f.node)):
            raise ManagerUndecided(f'{f.qualname}: shape not followed')
    cname = ci.name.split('.')[-1]
    fn_stores = {x.id for x in ast.walk(fn_node) if isinstance(x, ast.Name) and isinstance(x.ctx, (ast.Store, ast.Del))}
    var = None
    if it.optional_vars is not None:
        if not isinstance(it.optional_vars, ast.Name):
            raise ManagerUndecided('the manager is unpacked')
        var = it.optional_vars.id

    def plain(v):
        return isinstance(v, ast.Constant) or (isinstance(v, ast.Name) and v.id not in fn_stores)

    pre: list[ast.stmt] = []
    fields: dict[str, object] = {}      # field -> local name (str) | expression that stands for it

    def local_of(fld):
        return f'{fld}__{cname}'

    if init is not None:
        bound = _bind_manager_arguments(init.node, call, ast.Name('<self>', ast.Load()))
        if bound is None or not init.node.args.args:
            raise ManagerUndecided('constructor arguments cannot be bound')
        me0 = init.node.args.args[0].arg
        subst = {}
        for p, v in bound.items():
            if p == me0:
                continue
            if plain(v):
                subst[p] = v
            else:
                nm = f'{p}__{cname}'
                subst[p] = ast.Name(nm, ast.Load())
                pre.append(ast.copy_location(ast.Assign(targets=[ast.Name(nm, ast.Store())], value=copy.deepcopy(v)), w))
        for s in _doc_free(init.node.body):
            if isinstance(s, ast.Assign) and len(s.targets) == 1:
                t, v = s.targets[0], s.value
            elif isinstance(s, ast.AnnAssign) and s.value is not None:
                t, v = s.target, s.value
            elif isinstance(s, ast.Pass):
                continue
            else:
                raise ManagerUndecided('the constructor does more than store fields')
            if not (isinstance(t, ast.Attribute) and isinstance(t.value, ast.Name) and t.value.id == me0) or t.attr in fields:
                raise ManagerUndecided('the constructor does more than store fields')
            v2 = _ObjFields(me0, dict(fields), subst=subst).visit(copy.deepcopy(v))
            if plain(v2):
                fields[t.attr] = v2
            else:
                fields[t.attr] = local_of(t.attr)
                pre.append(ast.copy_location(ast.Assign(targets=[ast.Name(local_of(t.attr), ast.Store())], value=v2), s))
    else:
        # generated constructor: the annotated fields in order (dataclass)
        if not any('dataclass' in ast.unparse(d) for d in ci.node.decorator_list) or len(ci.mro()) > 1:
            raise ManagerUndecided('no constructor to read')
        if ci.find_method('__post_init__') is not None:
            raise ManagerUndecided('__post_init__ is not followed')
        order = list(ci.annotated_fields())
        defaults = {k: v for k, v in ci.class_assignments().items() if v is not None}
        if any(isinstance(x, ast.Starred) for x in call.args) or any(k.arg is None for k in call.keywords) \
                or len(call.args) > len(order):
            raise ManagerUndecided('constructor arguments cannot be bound')
        given = dict(zip(order, call.args))
        for k in call.keywords:
            if k.arg in given or k.arg not in order:
                raise ManagerUndecided('constructor arguments cannot be bound')
            given[k.arg] = k.value
        for fld in order:
            v = given.get(fld, defaults.get(fld))
            if v is None or (fld not in given and not isinstance(v, ast.Constant)):
                raise ManagerUndecided('constructor arguments cannot be bound')
            if plain(v):
                fields[fld] = v
            else:
                fields[fld] = local_of(fld)
                pre.append(ast.copy_location(ast.Assign(targets=[ast.Name(local_of(fld), ast.Store())], value=copy.deepcopy(v)), w))

    # fields stored after construction (by __enter__ / __exit__ / the function through v) live in locals
    def stored_fields(node, me):
        return {x.attr for x in ast.walk(node) if isinstance(x, ast.Attribute) and isinstance(x.value, ast.Name)
                and x.value.id == me and isinstance(x.ctx, (ast.Store, ast.Del))}
    later = set()
    for f in (enter, exit_):
        if f.node.args.args:
            later |= stored_fields(f.node, f.node.args.args[0].arg)
    if var is not None:
        later |= stored_fields(fn_node, var)
    for fld in later:
        if not isinstance(fields.get(fld), str):
            if fld in fields:
                pre.append(ast.copy_location(ast.Assign(targets=[ast.Name(local_of(fld), ast.Store())], value=copy.deepcopy(fields[fld])), w))
            fields[fld] = local_of(fld)

    def part(f, names_fixed=()):
        a = f.node.args
        me = a.args[0].arg if a.args else None
        if me is None:
            raise ManagerUndecided(f'{f.qualname}: no receiver')
        loc = {x.id for x in ast.walk(f.node) if isinstance(x, ast.Name) and isinstance(x.ctx, (ast.Store, ast.Del))}
        rename = {nm: f'{nm}__{cname}' for nm in loc if nm not in names_fixed}
        return me, rename

    # __enter__
    me, rename = part(enter)
    ebody = _doc_free(enter.node.body)
    enter_val = None
    if ebody and isinstance(ebody[-1], ast.Return):
        enter_val, ebody = ebody[-1].value, ebody[:-1]
    if any(isinstance(x, ast.Return) for s in ebody for x in ast.walk(s)):
        raise ManagerUndecided('__enter__ returns from several places')
    is_self = isinstance(enter_val, ast.Name) and enter_val.id == me
    enter_stmts = [_ObjFields(me, fields, rename).visit(copy.deepcopy(s)) for s in ebody]
    if var is not None:
        if is_self:
            pass
        else:
            val = ast.Constant(None) if enter_val is None else _ObjFields(me, fields, rename).visit(copy.deepcopy(enter_val))
            enter_stmts.append(ast.copy_location(ast.Assign(targets=[ast.Name(var, ast.Store())], value=val), w))

    # __exit__
    xa = exit_.node.args
    if xa.kwarg or xa.kwonlyargs or not ((len(xa.args) == 4 and xa.vararg is None) or (len(xa.args) == 1 and xa.vararg)):
        raise ManagerUndecided('signature of __exit__')
    ex_names = {p.arg for p in xa.args[1:]} | ({xa.vararg.arg} if xa.vararg else set())
    me, rename = part(exit_)
    xbody = _doc_free(exit_.node.body)
    looks = any(isinstance(x, ast.Name) and x.id in ex_names for s in xbody for x in ast.walk(s))
    on_exc, _ = _exit_branch(xbody, ex_names, True)
    on_ok, _ = _exit_branch(xbody, ex_names, False)
    on_exc = [_ObjFields(me, fields, rename).visit(copy.deepcopy(s)) for s in on_exc]
    on_ok = [_ObjFields(me, fields, rename).visit(copy.deepcopy(s)) for s in on_ok]

    inner = w.body if len(w.items) == 1 else [ast.copy_location(ast.With(items=w.items[1:], body=w.body, type_comment=None), w)]
    if not on_exc and not on_ok:
        tr = list(inner)
    elif not looks:
        tr = [ast.copy_location(ast.Try(body=inner, handlers=[], orelse=[], finalbody=on_ok), w)]
    else:
        jumps = [x for s in inner for x in walk_no_nested(s) if isinstance(x, (ast.Return, ast.Break, ast.Continue))]
        if on_ok and jumps:
            raise ManagerUndecided('BODY leaves the with statement by a jump and __exit__ acts on a normal exit')
        h = ast.ExceptHandler(type=ast.Name('BaseException', ast.Load()), name=None,
                              body=on_exc + [ast.copy_location(ast.Raise(exc=None, cause=None), exit_.node)])
        ast.copy_location(h, exit_.node)
        tr = [ast.copy_location(ast.Try(body=inner, handlers=[h], orelse=on_ok, finalbody=[]), w)]
    return pre + enter_stmts + tr, (var if is_self else None), fields


def _propagate_copies(fn: ast.AST) -> None:
    """`a = b`, both plain locals bound exactly once in the function (b possibly a parameter never rebound): a is b
    wherever it is read - read b, drop the copy (in place)"""
    from ..astutil import _replace_stmt
    for _ in range(8):
        stores: dict[str, int] = {}
        for x in ast.walk(fn):
            if isinstance(x, ast.Name) and isinstance(x.ctx, (ast.Store, ast.Del)):
                stores[x.id] = stores.get(x.id, 0) + 1
            elif isinstance(x, ast.ExceptHandler) and x.name:
                stores[x.name] = stores.get(x.name, 0) + 2
            elif isinstance(x, (ast.Global, ast.Nonlocal)):
                return
        a = fn.args
        params = {p.arg for p in a.posonlyargs + a.args + a.kwonlyargs}
        hit = None
        for st in walk_no_nested(fn):
            if isinstance(st, ast.Assign) and len(st.targets) == 1 and isinstance(st.targets[0], ast.Name) \
                    and isinstance(st.value, ast.Name) and stores.get(st.targets[0].id) == 1 \
                    and st.targets[0].id not in params and st.targets[0].id != st.value.id \
                    and (stores.get(st.value.id, 0) == 1 and st.value.id not in params
                         or stores.get(st.value.id, 0) == 0 and st.value.id in params):
                hit = st
                break
        if hit is None:
            return
        x_, y_ = hit.targets[0].id, hit.value.id
        _replace_stmt(fn, hit, [])
        for n in ast.walk(fn):
            if isinstance(n, ast.Name) and n.id == x_ and isinstance(n.ctx, ast.Load):
                n.id = y_


def dissolve_managers(prog, fi, max_rounds: int = 4):
    """A copy of function `fi` in which every `with` over a context manager *of the program* is replaced by what the
    interpreter runs for it (see `_class_manager_try`; generator-based managers: astutil.splice_generator_managers), so
    that the CFG rules see the rollback a manager performs as the handler it is.  `fi` itself when there is nothing to
    replace.  ManagerUndecided when a manager of the program cannot be followed."""
    from ..astutil import _replace_stmt, set_parents, splice_generator_managers, is_generator_manager
    from ..loader import FunctionInfo

    def resolve_gen(call):
        try:
            callee = resolve_call(prog, fi, call)
        except Exception:
            callee = None
        if callee is None or not is_generator_manager(callee.node):
            return None
        f = call.func
        recv = f.value if isinstance(f, ast.Attribute) and callee.cls is not None and not any(
            'staticmethod' in d for d in callee.decorators()) else None
        return callee.node, callee.qualname, recv

    node = fi.node
    out, done = splice_generator_managers(node, resolve_gen)
    changed = bool(done)
    for _ in range(max_rounds):
        hit = None
        for w in walk_no_nested(out):
            if isinstance(w, ast.With) and w.items and isinstance(w.items[0].context_expr, ast.Call):
                try:
                    ci = resolve_class_call(prog, fi, w.items[0].context_expr)
                except Exception:
                    ci = None
                if ci is not None and (ci.find_method('__exit__') is not None or ci.find_method('__enter__') is not None):
                    hit = (w, ci)
                    break
        if hit is None:
            break
        if out is node:
            idx = [i for i, x in enumerate(walk_no_nested(node)) if x is hit[0]][0]
            out = _detached_copy(node)
            hit = ([x for x in walk_no_nested(out)][idx], hit[1])
        w, ci = hit
        stmts, obj, fields = _class_manager_try(prog, fi, out, w, ci)
        _replace_stmt(out, w, stmts)
        if obj is not None:
            # the name bound by `as` is the manager object: its fields are the locals / arguments that hold them
            tr = _ObjFields(obj, fields)
            out.body = [tr.visit(s) for s in out.body]
        ast.fix_missing_locations(out)
        set_parents(out)
        changed = True
    if not changed:
        return fi
    _propagate_copies(out)
    set_parents(out)
    return FunctionInfo(qualname=fi.qualname, node=out, module=fi.module, cls=fi.cls)


# ======================================================================================================
# Semantic sub-rules built on the symbolic paths
# ======================================================================================================

CACHE_ATTR = '_trajectories'


def _strip(e: ast.AST | str) -> str:
    return sym_show(e) if not isinstance(e, str) else e


def recv_attr(e: ast.AST, attr: str, recv: str = 'self') -> bool:
    """e is `<recv>.<attr>` (in any heap epoch)"""
    return isinstance(e, ast.Attribute) and e.attr == attr and isinstance(e.value, ast.Name) \
        and _base_id(e.value.id) == recv


def _is_name(e: ast.AST, name: str) -> bool:
    return isinstance(e, ast.Name) and e.id == name


def _nf(e: ast.expr):
    try:
        return normal_form(ast.parse(_strip(e), mode='eval').body)
    except (AlgebraError, SyntaxError):
        return None


def _diff(a: ast.expr, b: ast.expr):
    """exact rational constant a - b, or None when it is not a constant"""
    na, nb = _nf(a), _nf(b)
    if na is None or nb is None:
        return None
    d = na - nb
    return d.const() if d.is_const() else None


class LocatePath:
    """one path through the locate code to a record read: which file object (X), which group list key (K), which
    file position (F) and which record index (rec) reach the read, under which facts"""

    def __init__(self, hit, var, rec, X, K, F):
        self.hit, self.var, self.rec, self.X, self.K, self.F, self.state = hit, var, rec, X, K, F, hit.state

    def table_none(self, X=None):
        """True: the path established that X's size table is None; False: that it exists; None: neither"""
        return self.state.fact(f'{norm(X if X is not None else self.X)}.size_index is None')

    def other_tables(self):
        """size-table tests on this path about other objects than the files that are read: [(object text, is None)]"""
        out = []
        for k, p, e in self.state.facts:
            if isinstance(e, ast.Compare) and isinstance(e.ops[0], ast.Is) and isinstance(e.left, ast.Attribute) \
                    and e.left.attr == 'size_index' and isinstance(e.comparators[0], ast.Constant) \
                    and e.comparators[0].value is None and norm(e.left.value) != norm(self.X):
                out.append((e.left.value, p))
        return out

    def uses_table(self) -> bool:
        return any(isinstance(x, ast.Attribute) and x.attr == 'size_index'
                   for part in (self.rec, self.F) for x in ast.walk(part))


def locate_paths(ctx, rule: str, prog, m) -> tuple[list[LocatePath], object]:
    """Paths of _load_trajectory to every read of a record (`_read_from_nc_var`), through helpers of the module."""
    load = m.func('TrajectoryStore._load_trajectory')
    rd = m.func('TrajectoryStore._read_from_nc_var')
    pn = rd.params[1:] if rd.params and rd.params[0] == 'self' else rd.params

    def is_read(n):
        return isinstance(n, ast.Call) and isinstance(n.func, ast.Attribute) and n.func.attr == rd.name

    try:
        # the locate code may live in private methods of the store that _load_trajectory calls on itself (a split
        # `_read_fields` / `_locate`): they are entered; the record read itself is the target, not entered
        sym = Sym(prog, load)
        sym.enter_methods = True
        sym.opaque.add(rd.name)
        sym.run(is_read)
    except SymUndecided as e:
        ctx.undecided(rule, load, 'locate paths', str(e))
    out = []
    for h in sym.hits:
        a_var, a_idx = arg_or_kw(h.node, 0, pn[0]), arg_or_kw(h.node, 1, pn[1])
        if a_var is None or a_idx is None:
            ctx.undecided(rule, load, norm(h.node)[:60], 'cannot tell the variable / record arguments of the read')
        var, rec = h.ev(a_var), h.ev(a_idx)
        chain = None
        for x in ast.walk(var):
            if isinstance(x, ast.Subscript) and isinstance(x.value, ast.Subscript) \
                    and isinstance(x.value.value, ast.Attribute) and x.value.value.attr == 'groups':
                chain = x
                break
        if chain is None:
            ctx.undecided(rule, load, _strip(var)[:80], 'the variable read is not taken from <files>.groups[<field set>][<file>]')
        out.append(LocatePath(h, var, rec, chain.value.value.value, chain.value.slice, chain.slice))
    return out, load


def rule_locate(ctx, prog, m):
    """C07-R1c: a store that consists of one growing file is read at the requested index itself."""
    paths, load = locate_paths(ctx, 'C07-R1c', prog, m)
    idx = load.params[1]
    direct = 0
    for p in paths:
        t = p.table_none()
        if t is None and p.other_tables():
            # located with the table of other files than the ones read: which table that must be is C09-R3;
            # for the single-file case the test on that other object stands in
            vals = {pol for _, pol in p.other_tables()}
            t = vals.pop() if len(vals) == 1 else None
        if t is True or (t is None and not p.uses_table()):
            direct += 1
            ok = _is_name(p.rec, idx) and isinstance(p.F, ast.Constant) and p.F.value == 0
            ctx.ob('C07-R1c', load, 'a single file is read at the requested index unchanged', ok,
                   f'without a size table record `{_strip(p.rec)}` of file {_strip(p.F)} is read' if ok else
                   f'on the path without a size table the record read is `{_strip(p.rec)}` of file `{_strip(p.F)}`, not '
                   f'`{idx}` of file 0: the index used for a single file is not the requested index',
                   line=p.hit.node.lineno)
        elif t is None:
            ctx.undecided('C07-R1c', load, _strip(p.rec)[:80],
                          'the size table is used on a path that did not establish that it exists')
        else:
            ctx.ob('C07-R1c', load, 'the size table is consulted only where it exists', True,
                   f'record `{_strip(p.rec)[:70]}` under `size_index is not None` (arithmetic: C09-R3)',
                   line=p.hit.node.lineno, nontrivial=False)
    ctx.floor('C07-R1c', direct, 1, 'paths that read a single file directly')
    # a count the locate code compares the index with is the file's *current* count: a `cached_property` that copies a
    # number is a snapshot like the size table (R1) - fresh only if the add path clears it
    seen = set()
    add = m.func('TrajectoryStore.add')
    for p in paths:
        for e in [f[2] for f in p.state.facts] + [p.rec, p.F]:
            for cls, meth, node, body in split_cached(prog, load, p.hit.sym, e)[1]:
                if (cls.name, node.attr) in seen:
                    continue
                seen.add((cls.name, node.attr))
                drops = member_drops(prog, closure(prog, [add]), cls, node.attr)
                ctx.ob('C07-R1c', load, f'count {cls.name}.{node.attr} used to locate an index is current', bool(drops),
                       (f'{drops[0][0].qualname} clears the cached value on the add path' if drops else
                        f'the index is located against `{cls.name}.{node.attr}`, a cached_property: `{_strip(body)[:70]}` is '
                        f'evaluated at the first read and the number is kept; nothing on the add path clears it, so '
                        f'trajectories added after that read are reported as out of range once they have left the cache'),
                       line=meth.node.lineno)

    # R5: the loaded trajectory is cached under the requested index
    def is_cache_store(n):
        if isinstance(n, ast.Assign):
            return any(isinstance(t, ast.Subscript) and recv_attr(t.value, CACHE_ATTR) for t in n.targets)
        return isinstance(n, ast.Call) and isinstance(n.func, ast.Attribute) and recv_attr(n.func.value, CACHE_ATTR) \
            and n.func.attr in ('__setitem__', 'setdefault', 'update')

    try:
        sym = Sym(prog, load).run(is_cache_store)
    except SymUndecided as e:
        ctx.undecided('C07-R5', load, 'cache store', str(e))
    ctx.floor('C07-R5', len(sym.hits), 1, 'stores of the loaded trajectory into the cache')
    for h in sym.hits:
        n = h.node
        if isinstance(n, ast.Assign):
            keys = [t.slice for t in n.targets if isinstance(t, ast.Subscript)]
        elif n.func.attr == 'update':
            keys = list(n.args[0].keys) if n.args and isinstance(n.args[0], ast.Dict) else []
            if not keys:
                ctx.undecided('C07-R5', load, norm(n)[:60], 'cache updated from an unknown mapping')
        else:
            keys = n.args[:1]
        for k in keys:
            kv = h.ev(k)
            ok = _is_name(kv, idx)
            ctx.ob('C07-R5', load, 'loaded trajectory cached under the requested index', ok,
                   f'cache key `{_strip(kv)}`' if ok else
                   f'the cache key `{_strip(kv)}` is not the requested index `{idx}`', line=n.lineno)
    for p in paths:
        # the record that is read is the located one: on the direct path the index itself (above), on the table
        # path an index derived from the table entry of the file that is read
        if p.table_none() is False:
            ok = any(isinstance(x, ast.Name) and x.id == idx for x in ast.walk(p.rec))
            ctx.ob('C07-R5', load, 'record read derives from the requested index', ok,
                   f'`{_strip(p.rec)[:80]}`' if ok else
                   f'reads record `{_strip(p.rec)[:80]}`: a different record than the one located', line=p.hit.node.lineno)


_CACHE_INSERTS = ('__setitem__', 'setdefault', 'update')
_CACHE_REMOVALS = ('pop', 'popitem', 'clear', '__delitem__')


def _is_cache(e: ast.AST) -> bool:
    """`<object>.<cache attribute>` (any receiver, any heap epoch)"""
    return isinstance(e, ast.Attribute) and e.attr == CACHE_ATTR


def _is_cache_insert(n: ast.AST) -> bool:
    """a statement / call that puts an entry into the cache mapping (and so may make the cache evict or refuse)"""
    if isinstance(n, (ast.Assign, ast.AnnAssign, ast.AugAssign)):
        ts = n.targets if isinstance(n, ast.Assign) else [n.target]
        return any(isinstance(t, ast.Subscript) and _is_cache(t.value) for t in ts)
    return isinstance(n, ast.Call) and isinstance(n.func, ast.Attribute) and _is_cache(n.func.value) \
        and n.func.attr in _CACHE_INSERTS


def _insert_keys(n: ast.AST) -> list[ast.expr | None]:
    if isinstance(n, ast.Call):
        if n.func.attr == 'update':
            return list(n.args[0].keys) if n.args and isinstance(n.args[0], ast.Dict) and not n.keywords else [None]
        return [n.args[0]] if n.args and not isinstance(n.args[0], ast.Starred) else [None]
    ts = n.targets if isinstance(n, ast.Assign) else [n.target]
    return [t.slice for t in ts if isinstance(t, ast.Subscript) and _is_cache(t.value)]


_INSERT_SUMMARY: dict = {}


def callee_cache_inserts(prog, callee) -> list[str | None]:
    """what a call of `callee` may put into the cache: per insertion in its closure the name of the parameter of
    `callee` that is the key, or None when the key is something else (decided on the symbolic paths of callee)"""
    k = (id(prog), callee.file, callee.qualname)
    if k in _INSERT_SUMMARY:
        return _INSERT_SUMMARY[k]
    out: list[str | None] = []
    for fn in closure(prog, [callee]):
        if not any(_is_cache_insert(x) for x in walk_no_nested(fn.node)):
            continue
        if fn != callee:
            out.append(None)
            continue
        try:
            hits = Sym(prog, fn).run(_is_cache_insert).hits
        except SymUndecided:
            hits = []
        if not hits:
            out.append(None)
        for h in hits:
            for key in _insert_keys(h.node):
                kv = h.ev(key) if key is not None else None
                out.append(kv.id if isinstance(kv, ast.Name) and kv.id in fn.params else None)
    _INSERT_SUMMARY[k] = out
    return out


def cache_events(prog, st) -> list[tuple[str, ast.expr | None, ast.AST]]:
    """the cache changes on a symbolic path, in order: ('insert' | 'remove', key over the function's inputs or None
    when it is not known, node)"""
    out = []
    for kind, node, e, fi in st.trace:
        if kind in ('store', 'del'):
            if isinstance(e, ast.Subscript) and _is_cache(e.value):
                out.append(('insert' if kind == 'store' else 'remove', e.slice, node))
            continue
        if not isinstance(e, ast.Call):
            continue
        if isinstance(e.func, ast.Attribute) and _is_cache(e.func.value):
            if e.func.attr in _CACHE_INSERTS:
                out += [('insert', key, node) for key in _insert_keys(e)]
            elif e.func.attr in _CACHE_REMOVALS:
                out.append(('remove', e.args[0] if e.args and e.func.attr != 'popitem' else None, node))
            continue
        try:
            callee = resolve_call(prog, fi, node)
        except Exception:
            callee = None
        if callee is None:
            continue
        pn = callee.params[1:] if callee.cls is not None and isinstance(node.func, ast.Attribute) else callee.params
        for par in callee_cache_inserts(prog, callee):
            a = arg_or_kw(e, pn.index(par), par) if par in pn else None
            out.append(('insert', a, node))
    return out


def _missing_key_is_index_error(stmt: ast.stmt) -> bool:
    """stmt stands in the body of a `try` whose handler for a missing key (KeyError / LookupError) raises IndexError"""
    for a in ancestors(stmt):
        if isinstance(a, (ast.FunctionDef, ast.AsyncFunctionDef, ast.Lambda)):
            return False
        if isinstance(a, ast.Try) and any(x is stmt for b in a.body for x in ast.walk(b)):
            for h in a.handlers:
                ts = [] if h.type is None else (h.type.elts if isinstance(h.type, ast.Tuple) else [h.type])
                if any(norm(t).split('.')[-1] in ('KeyError', 'LookupError') for t in ts):
                    last = h.body[-1] if h.body else None
                    return isinstance(last, ast.Raise) and last.exc is not None and 'IndexError' in norm(last.exc)
    return False


def rule_getitem(ctx, prog, m):
    """C07-R5: __getitem__ answers from the cache entry of the requested index, loads that index on a miss and
    reports an index that is still unknown as IndexError - decided per return / raise path."""
    gi = m.func('TrajectoryStore.__getitem__')
    key = gi.params[1]
    try:
        sym = Sym(prog, gi).run()
        loads_ = Sym(prog, gi).run(lambda n: isinstance(n, ast.Call) and isinstance(n.func, ast.Attribute)
                                   and n.func.attr == '_load_trajectory').hits
    except SymUndecided as e:
        ctx.undecided('C07-R5', gi, '__getitem__', str(e))
    rets = [r for r in sym.returns if r[2] is not None]
    ctx.floor('C07-R5', len(rets), 1, 'returns of __getitem__')
    bad = []
    for st, v, stmt in rets:
        if isinstance(v, ast.Subscript) and recv_attr(v.value, CACHE_ATTR):
            if not _is_name(v.slice, key):
                bad.append((stmt, f'returns the cache entry of `{_strip(v.slice)}`, not of the requested `{key}`'))
            elif st.fact(f'{key} in {norm(v.value)}') is not True:
                if _missing_key_is_index_error(stmt):
                    continue        # the element read is the membership test: its KeyError is turned into IndexError
                evs = [ev for ev in cache_events(prog, st) if ev[0] == 'insert']
                if evs and evs[-1][1] is not None and not _is_name(evs[-1][1], key):
                    bad.append((evs[-1][2], f'`{norm(evs[-1][2])[:60]}` puts the entry of `{_strip(evs[-1][1])}` into the '
                                            f'cache and `{_strip(v)}` is read afterwards without a new membership test: a small '
                                            f'cache has evicted the requested entry by then (KeyError for a valid index)'))
                    continue
                ctx.undecided('C07-R5', gi, _strip(v), 'cache entry returned on a path that did not establish membership')
        elif isinstance(v, ast.Call) and isinstance(v.func, ast.Attribute) and v.func.attr == 'get' \
                and recv_attr(v.func.value, CACHE_ATTR) and v.args:
            if not _is_name(v.args[0], key):
                bad.append((stmt, f'returns the cache entry of `{_strip(v.args[0])}`, not of the requested `{key}`'))
            elif st.fact(f'{norm(v)} is None') is False:
                pass
            elif st.fact(norm(v)) is True:
                bad.append((stmt, f'presence in the cache is decided by the truth value of the trajectory (`if '
                                  f'{_strip(v)}`): a trajectory without points is falsy, so a stored item is treated '
                                  f'as missing (reloaded or reported out of range)'))
            else:
                ctx.undecided('C07-R5', gi, _strip(v), 'cache .get() returned without a None test')
        else:
            ctx.undecided('C07-R5', gi, _strip(v)[:80], 'returned value is not the cache entry of the requested index')
    for h in loads_:
        a = h.ev(h.node.args[0]) if h.node.args else None
        if a is None or not _is_name(a, key):
            # harmless when the requested index is (re)loaded afterwards: decided per path below
            later = [p for p in list(rets) + [(r[0], r[1], r[2]) for r in sym.raises]
                     if any(ev[1] is h.node for ev in p[0].trace)]
            if not later or not all(any(kk == 'insert' and k is not None and _is_name(k, key)
                                        for kk, k, _ in cache_events(prog, p[0])) for p in later):
                bad.append((h.node, f'loads index `{_strip(a)}`, not the requested `{key}`'))
    ctx.ob('C07-R5', gi, 'cache consulted, loaded and returned under one key', not bad,
           f'{len(rets)} return path(s) return cache[{key}] after membership was established; {len(loads_)} load path(s) '
           f'load `{key}`' if not bad else bad[0][1], line=(bad[0][0].lineno if bad else gi.node.lineno))
    oor = [r for r in sym.raises if r[1] is not None and 'IndexError' in norm(r[1])]
    ctx.ob('C07-R5', gi, 'unknown index reported as IndexError', bool(oor),
           'raise IndexError present' if oor else 'an index beyond the end is not reported as out of range',
           nontrivial=False)
    for st, exc, stmt, _ in oor:
        # the absence that decides the refusal is the absence left by loading the requested index: whatever else is
        # put into the cache after that load can make the (bounded, least-recently-used) cache evict the entry again
        evs = cache_events(prog, st)
        ins = [i for i, (kk, k, _) in enumerate(evs) if kk == 'insert']
        if ins:
            kk, k, node = evs[ins[-1]]
            own = [i for i in ins if evs[i][1] is not None and _is_name(evs[i][1], key)]
            if k is None:
                ctx.undecided('C07-R5', gi, norm(node)[:60], 'cannot tell under which key this puts an entry into the '
                              'cache before the index is reported as out of range')
            if not _is_name(k, key):
                ctx.ob('C07-R5', gi, 'out-of-range decided on the cache as the load of the requested index left it', False,
                       (f'after `{key}` was loaded, `{norm(node)[:60]}` puts the entry of `{_strip(k)}` into the cache '
                        f'before `{key}` is looked up again: a cache that holds only a few trajectories evicts the '
                        f'requested entry to make room, and a valid index is then reported as IndexError') if own else
                       (f'the last entry put into the cache before IndexError is decided is that of `{_strip(k)}` '
                        f'(`{norm(node)[:60]}`), not of the requested `{key}`: whatever was loaded for `{key}` before can '
                        f'have been evicted by it, and a valid index is reported as out of range'), line=node.lineno)
            else:
                ctx.ob('C07-R5', gi, 'out-of-range decided on the cache as the load of the requested index left it', True,
                       f'`{norm(node)[:60]}` (key `{key}`) is the last thing put into the cache before the test',
                       line=node.lineno)
            gone = [evs[i] for i in range(ins[-1] + 1, len(evs)) if evs[i][0] == 'remove'
                    and (evs[i][1] is None or _is_name(evs[i][1], key))]
            if gone:
                ctx.ob('C07-R5', gi, 'out-of-range decided on the cache as the load of the requested index left it', False,
                       f'`{norm(gone[0][2])[:60]}` removes entries from the cache between the load of `{key}` and the '
                       f'test that reports it as out of range', line=gone[0][2].lineno)
        # the refusal must be decided by absence, not by the truth value of the trajectory
        falsy = [k for k, p, e in st.facts if not p and isinstance(e, ast.Call) and isinstance(e.func, ast.Attribute)
                 and e.func.attr == 'get' and recv_attr(e.func.value, CACHE_ATTR)]
        if falsy:
            ctx.ob('C07-R5', gi, 'out-of-range decided by absence from the cache', False,
                   f'IndexError is raised when `{_strip(falsy[0])}` is falsy: a stored trajectory without points is '
                   f'reported as out of range', line=stmt.lineno)


# ---- R3: length ---------------------------------------------------------------------------------------------------

def _mode_table(prog, m):
    """per member of the store's file-mode enum: the values of the attributes that __init__ derives from `mode`"""
    cls = m.classes.get('TrajectoryStore.FileMode')
    init = m.func('TrajectoryStore.__init__')
    if cls is None or 'mode' not in init.params:
        return None
    members = list(cls.class_assignments().keys())
    table = {}
    for mm in members:
        env = {'mode': mm, 'self.mode': mm}
        for x in members:
            for pre in ('self.FileMode.', 'FileMode.', 'TrajectoryStore.FileMode.', 'cls.FileMode.'):
                env[pre + x] = x
        for t, st, how in stores_to(init.node):
            if how in ('assign', 'ann') and isinstance(t, ast.Attribute) and isinstance(t.value, ast.Name) \
                    and t.value.id == 'self' and st in init.node.body and st.value is not None:
                try:
                    env[f'self.{t.attr}'] = eval_pred(st.value, env)
                except (ValueError, TypeError):
                    pass
        table[mm] = env
    return table


def _modes_allowed(table, facts) -> set[str]:
    """members of the mode enum under which every (decidable) fact of the path holds"""
    out = set()
    for mm, env in table.items():
        ok = True
        for k, p, e in facts:
            try:
                v = eval_pred(ast.parse(_strip(e), mode='eval').body, env)
            except (ValueError, TypeError, SyntaxError):
                continue
            if bool(v) != p:
                ok = False
                break
        if ok:
            out.add(mm)
    return out


def rule_len(ctx, prog, m, add):
    """C07-R3: what __len__ returns on each path, and - when it answers from a stored count - that the add path
    keeps that count fresh."""
    ln = m.func('TrajectoryStore.__len__')
    try:
        sym = Sym(prog, ln).run()
    except SymUndecided as e:
        ctx.undecided('C07-R3', ln, '__len__', str(e))
    rets = [r for r in sym.returns if r[2] is not None]
    n_file = n_mem = 0
    memo: dict[str, ast.stmt] = {}
    cached: dict[tuple[str, str], tuple] = {}
    for st, v, stmt in rets:
        # a `cached_property` in the returned value: one that copies a number is a stored count (below); one that
        # keeps objects (the dimension objects themselves) is its expression
        v, counts = split_cached(prog, ln, sym, v)
        for cls, meth, node, body in counts:
            cached.setdefault((cls.name, node.attr), (cls, meth, stmt, body))
        txt = _strip(v)
        dims = [x for x in ast.walk(v) if isinstance(x, ast.Attribute) and x.attr == 'traj_dim']
        if dims:
            n_file += 1
            one = [x for x in ast.walk(v) if isinstance(x, ast.Subscript) and x.value in dims
                   and isinstance(x.slice, ast.Constant)]
            agg = isinstance(v, ast.Call) and call_name(v) == 'sum' and v.args \
                and isinstance(v.args[0], (ast.GeneratorExp, ast.ListComp)) and len(v.args[0].generators) == 1 \
                and v.args[0].generators[0].iter in dims and not v.args[0].generators[0].ifs \
                and isinstance(v.args[0].elt, ast.Call) and call_name(v.args[0].elt) == 'len' \
                and _is_name(v.args[0].elt.args[0], assigned_names(v.args[0].generators[0].target)[0])
            if not one and not agg:
                ctx.undecided('C07-R3', ln, txt[:80], 'length expression is neither a sum over traj_dim nor a single element')
            ctx.ob('C07-R3', ln, f'return {txt}', bool(agg) and not one,
                   'sums the trajectory dimension of every file of the field set' if agg and not one
                   else 'length looks at one file only: wrong for merged stores', line=stmt.lineno)
        elif isinstance(v, ast.Call) and call_name(v) == 'len' and len(v.args) == 1 and recv_attr(v.args[0], CACHE_ATTR):
            n_mem += 1
        elif isinstance(v, ast.Attribute) and isinstance(v.value, ast.Name) and _base_id(v.value.id) == 'self':
            memo.setdefault(v.attr, stmt)
        elif isinstance(v, ast.Attribute) and sym.class_of(v.value) is not None \
                and _attr_annotation(sym.class_of(v.value), v.attr) is not None:
            # a field of a record of the module (the file information): a stored count kept in that object
            fcls = sym.class_of(v.value)
            drops = member_drops(prog, closure(prog, [add], stop={ln.qualname}), fcls, v.attr)
            n_file += 1
            ctx.ob('C07-R3', ln, f'stored count {fcls.name}.{v.attr} kept fresh by add', bool(drops),
                   (f'{drops[0][0].qualname} stores it on the add path' if drops else
                    f'__len__ answers from the field `{fcls.name}.{v.attr}`, a number stored in the file record, and nothing '
                    f'on the add path (add → _write_trajectory → _write_data) updates it: len(store) stays at the value '
                    f'stored when the record was made, whatever is added afterwards'), line=stmt.lineno)
        else:
            ctx.undecided('C07-R3', ln, txt[:80], 'returned length is neither the file dimension, the cache size nor a stored count')
    for (cname, attr), (cls, meth, stmt, body) in cached.items():
        drops = member_drops(prog, closure(prog, [add], stop={ln.qualname}), cls, attr)
        ctx.ob('C07-R3', ln, f'stored count {cname}.{attr} kept fresh by add', bool(drops),
               (f'{drops[0][0].qualname} clears the cached value on the add path' if drops else
                f'__len__ answers from `{cname}.{attr}`, a cached_property: `{_strip(body)[:70]}` is evaluated at the first '
                f'read and the number is stored in the object; nothing on the add path (add → _write_trajectory → '
                f'_write_data) clears it, although the file grows with every addition: once read, len(store) stays at '
                f'the old value after further additions, iteration stops early and a range check against it refuses '
                f'the new indices'), line=meth.node.lineno)
    if not n_file and not memo:
        ctx.undecided('C07-R3', ln, 'file-backed length', 'no return that measures the files')
    ctx.ob('C07-R3', ln, 'in-memory length is the cache size', bool(n_mem),
           'len(self._trajectories) when not linked' if n_mem else 'no in-memory length', nontrivial=False)
    if not memo:
        return
    # a stored count: freshness (cf. R1).  Every successful add changes the length, so the add path must update or
    # clear the stored count - unless the count is only ever stored in sessions that cannot add.
    add_path = closure(prog, [add], stop={ln.qualname})
    table = _mode_table(prog, m)
    for attr, stmt in memo.items():
        fresh = [(fn, s) for fn in add_path if fn != ln for t, s, how in stores_to(fn.node)
                 if isinstance(t, ast.Attribute) and t.attr == attr and not _in_reraising_handler(s)]
        setters = []
        for fn in m.functions.values():
            if fn in add_path and fn != ln:
                continue
            for t, s, how in stores_to(fn.node):
                if isinstance(t, ast.Attribute) and t.attr == attr and isinstance(t.value, ast.Name) \
                        and not (isinstance(getattr(s, 'value', None), ast.Constant) and s.value.value is None):
                    setters.append((fn, s))
        if fresh:
            ctx.ob('C07-R3', ln, f'stored count self.{attr} kept fresh by add', True,
                   f'{fresh[0][0].qualname} stores self.{attr} on the add path', line=stmt.lineno)
            continue
        if not setters:
            ctx.undecided('C07-R3', ln, f'self.{attr}', 'length answered from an attribute that nothing stores a count into')
        writable = None
        if table is not None:
            try:
                refusing = [r for r in Sym(prog, add).run().raises if r[3].fi == add]
            except SymUndecided:
                refusing = []
            writable = set(table)
            for st, exc, s, _ in refusing:
                if st.facts and all(_decidable(table, f) for f in st.facts):
                    writable -= _modes_allowed(table, st.facts)
        stale_modes: set[str] | None = set()
        for fn, s in setters:
            allowed = None
            if table is not None:
                try:
                    hits = Sym(prog, fn).run(lambda n, s=s: n is s).hits
                except SymUndecided:
                    hits = []
                if hits:
                    allowed = set()
                    for h in hits:
                        allowed |= _modes_allowed(table, h.state.facts)
            if allowed is None or writable is None:
                stale_modes = None
                break
            stale_modes |= allowed & writable
        if stale_modes is not None and not stale_modes:
            ctx.ob('C07-R3', ln, f'stored count self.{attr} only in sessions that cannot add', True,
                   'the count is stored only under modes in which add() refuses', line=stmt.lineno)
            continue
        where = ', '.join(sorted({fn.qualname for fn, _ in setters}))
        ctx.ob('C07-R3', ln, f'stored count self.{attr} kept fresh by add', False,
               f'__len__ answers from the stored count self.{attr} (set in {where}'
               + (f'; possible in mode(s) {", ".join(sorted(stale_modes))} in which add() is allowed' if stale_modes else '')
               + ') and nothing on the add path (add → _write_trajectory → _write_data) updates or clears it: once the '
               'count was stored, len(store) stays at the old value after further additions and iteration stops early',
               line=setters[0][1].lineno)


def split_cached(prog, fi, sym, v: ast.expr):
    """(v', counts): the `cached_property` members read in the symbolic value v.  A member that copies a *number*
    (annotated int, or computed by len / sum / count) is a stored count, listed as (class, method, node, its
    expression over the same object).  In v' every such member is replaced by its expression: for one that keeps
    objects that is what it means (the same objects are read through it every time), for a stored count it is what
    was copied when it was first read."""
    counts = []

    class C(ast.NodeTransformer):
        def visit_Attribute(self, n):
            self.generic_visit(n)
            cm = cached_member(prog, fi, n) if isinstance(n.ctx, ast.Load) else None
            if cm is None:
                return n
            cls, meth = cm
            pv = property_value(cls, n.attr)
            body = None
            if pv is not None:
                obj, r = n.value, pv[1]

                class S(ast.NodeTransformer):
                    def visit_Name(self, x):
                        return copy.deepcopy(obj) if x.id == r else x
                body = sym.open_members(S().visit(copy.deepcopy(pv[0])))
            ann = norm(meth.node.returns) if meth.node.returns is not None else ''
            number = ann in ('int', "'int'") or body is None or any(
                isinstance(x, ast.Call) and (call_name(x) in ('len', 'sum', 'int') or
                                             (isinstance(x.func, ast.Attribute) and x.func.attr in ('count', '__len__')))
                or (isinstance(x, ast.Attribute) and x.attr in ('size', 'shape')) for x in ast.walk(body))
            if number:
                counts.append((cls, meth, n, body if body is not None else n))
            return body if body is not None else n
    return C().visit(copy.deepcopy(v)), counts


def member_drops(prog, fns, cls, attr: str):
    """[(function, node)] where a function of fns (or a method of cls that one of them calls by name) discards or
    overwrites the instance attribute `attr`: `del x.attr`, `x.attr = …`, `delattr(x, 'attr')`,
    `x.__dict__.pop('attr', …)` / `del x.__dict__['attr']` / `x.__dict__.clear()`"""
    fns = list(fns)
    called = {c.func.attr for fn in fns for c in calls_in(fn.node) if isinstance(c.func, ast.Attribute)}
    for fn in fns[0].module.functions.values() if fns else []:
        if fn.cls is cls and fn.name in called and fn not in fns:
            fns.append(fn)

    def is_dict(e):
        return isinstance(e, ast.Attribute) and e.attr == '__dict__'

    def key_is(e):
        return isinstance(e, ast.Constant) and e.value == attr
    out = []
    for fn in fns:
        for n in walk_no_nested(fn.node):
            if isinstance(n, ast.Attribute) and n.attr == attr and isinstance(n.ctx, (ast.Store, ast.Del)):
                out.append((fn, n))
            elif isinstance(n, ast.Subscript) and is_dict(n.value) and key_is(n.slice) \
                    and isinstance(n.ctx, (ast.Store, ast.Del)):
                out.append((fn, n))
            elif isinstance(n, ast.Call):
                if call_name(n) in ('delattr', 'setattr') and len(n.args) >= 2 and key_is(n.args[1]):
                    out.append((fn, n))
                elif isinstance(n.func, ast.Attribute) and is_dict(n.func.value) and (
                        n.func.attr == 'clear' or (n.func.attr == 'pop' and n.args and key_is(n.args[0]))):
                    out.append((fn, n))
    return out


# ---- R8: no half-written addition ----------------------------------------------------------------------------------

def _none_tests(e: ast.AST):
    """the operands X of every `X is None` / `X == None` (either polarity, either side) inside e"""
    out = []
    for x in ast.walk(e):
        if isinstance(x, ast.Compare) and len(x.ops) == 1 and isinstance(x.ops[0], (ast.Is, ast.IsNot, ast.Eq, ast.NotEq)):
            a, b = x.left, x.comparators[0]
            if isinstance(b, ast.Constant) and b.value is None:
                out.append(a)
            elif isinstance(a, ast.Constant) and a.value is None:
                out.append(b)
    return out


def _rooted(e: ast.AST, obj: str) -> bool:
    r = chain_root(e)
    return r is not None and _base_id(r.id) == obj


def _reads_object(e: ast.AST, obj: str) -> bool:
    """e is a value taken from the object `obj` by attribute, element, getattr() or a mapping read on its state"""
    if isinstance(e, ast.Call):
        if call_name(e) == 'getattr' and e.args:
            return _rooted(e.args[0], obj)
        if isinstance(e.func, ast.Attribute) and e.func.attr in ('get', '__getitem__', '__getattribute__'):
            return _rooted(e.func.value, obj)
        return False
    return isinstance(e, (ast.Attribute, ast.Subscript)) and _rooted(e, obj)


def _reads_field_by_name(e: ast.AST, obj: str) -> bool:
    """e is the value of a field of `obj` selected by a *variable* name - `getattr(obj, n[, d])`, `obj.<state>.get(n)`,
    `obj.<state>[n]`, `obj[n]` -: the value of whichever field a walk over the field definitions is looking at (a
    fixed attribute, `obj.flight_id`, is one particular field)"""
    def var(k):
        return not isinstance(k, (ast.Constant, ast.Slice))
    if isinstance(e, ast.Call):
        if call_name(e) == 'getattr' and len(e.args) >= 2:
            return _rooted(e.args[0], obj) and var(e.args[1])
        if isinstance(e.func, ast.Attribute) and e.func.attr in ('get', '__getitem__', '__getattribute__') and e.args:
            return _rooted(e.func.value, obj) and var(e.args[0])
        return False
    return isinstance(e, ast.Subscript) and _rooted(e.value, obj) and var(e.slice)


def write_path_value_refusals(prog, m):
    """[(function, raise)] in the closure of the write of one trajectory that refuse a *missing required value*: a raise
    control-dependent on a test of `<field>.required` and on a None test"""
    wt = m.functions.get('TrajectoryStore._write_trajectory')
    out = []
    for fn in (closure(prog, [wt]) if wt is not None else []):
        for n in walk_no_nested(fn.node):
            if isinstance(n, ast.Raise):
                gs = [x for x, _, _ in guards_of(n)]
                if any(isinstance(y, ast.Attribute) and y.attr == 'required' for x in gs for y in ast.walk(x)) \
                        and any(_none_tests(x) for x in gs):
                    out.append((fn, n))
    return out


def rule_prevalidation(ctx, prog, m, add):
    """C07-R8: the write path refuses a trajectory with a missing required value *after* the variables before that
    field have been written at the new index - the trajectory dimension of the file has grown, the counter is put
    back: the file holds one trajectory more than were added.  So add() must have refused that trajectory before it
    changes anything, by the same test: required, and the value the write path will read is None."""
    late = write_path_value_refusals(prog, m)
    if not late:
        ctx.note('C07-R8: the write path refuses no missing required value (nothing to decide before the write)')
        return
    if len(add.params) < 2:
        ctx.undecided('C07-R8', add, 'add(trajectory)', 'cannot tell the parameter that is the trajectory being added')
    traj = add.params[1]
    wt = m.func('TrajectoryStore._write_trajectory')
    wpath = {f.qualname for f in closure(prog, [wt])}
    # everything add calls after its first change is opaque here: the question is what happens before
    first = next((i for i, b in enumerate(add.node.body)
                  if any(_counter_store(x) or _is_cache_insert(x) for x in ast.walk(b))), len(add.node.body))
    before = [c for b in add.node.body[:first] for c in calls_in(b)]
    pre_fns = closure(prog, [f for f in (resolve_call(prog, add, c) for c in before) if f is not None and f != add])
    try:
        sym = Sym(prog, add)
        sym.enter_methods = True
        sym.opaque |= {f.name for f in closure(prog, [add]) if f not in pre_fns and f != add}
        sym.run()
    except SymUndecided as e:
        ctx.undecided('C07-R8', add, 'paths of add', str(e))
    judged = []
    for st, exc, stmt, sub in sym.raises:
        if f'{sym.recv}.{COUNTER}' in st.env or any(k in ('store', 'del') for k, *_ in st.trace):
            continue        # not before the first change
        conds = [e for _, _, e in st.facts
                 if any(isinstance(y, ast.Attribute) and y.attr == 'required' for y in ast.walk(e))]
        if conds:
            judged.append((st, stmt, sub, conds))
    fn0, r0 = late[0]
    if not judged:
        pre_nodes = [(add, b) for b in add.node.body[:first]] + [(f, f.node) for f in pre_fns if f.qualname not in wpath]
        elsewhere = [f for f, nd in pre_nodes
                     if any(isinstance(y, ast.Attribute) and y.attr == 'required' for y in walk_no_nested(nd))]
        if elsewhere:
            ctx.undecided('C07-R8', add, f'{elsewhere[0].qualname}',
                          'reads `.required` on the way to the write, but no refusal that depends on it could be followed')
        ctx.ob('C07-R8', add, 'a missing required value is refused before the store is changed', False,
               f'{fn0.qualname} (line {r0.lineno}) refuses a missing required value only while the trajectory is being '
               f'written: the variables before that field are already stored at the new index, so the trajectory dimension '
               f'has grown although add() fails and puts the counter back - len(store) and iteration count one more than '
               f'the successful additions; nothing in add() refuses such a trajectory before the first change',
               line=add.node.lineno)
        return
    own = {t.attr for t, _, _ in stores_to(add.node) if isinstance(t, ast.Attribute) and _is_name(t.value, add.params[0])} \
        | {CACHE_ATTR}
    for st, stmt, sub, conds in judged:
        facts = [e for _, _, e in st.facts]
        # the judgement is about the trajectory alone: made only under a condition on the store's state, it is skipped
        # for the additions made while that condition is false
        if sub.recv is not None:
            for gx, pol, _ in guards_of(stmt):
                attrs = {x.attr for x in ast.walk(gx) if isinstance(x, ast.Attribute) and _is_name(x.value, sub.recv)}
                if attrs & own:
                    ctx.ob('C07-R8', sub.fi, 'a missing required value is refused whatever the state of the store', False,
                           f'the refusal is decided only under `{"" if pol else "not "}{norm(gx)[:60]}`, a condition on state that '
                           f'add() itself changes ({", ".join(sorted(attrs & own))}): the additions made while it does not hold '
                           f'are not judged, an incomplete trajectory among them is half-written by {fn0.qualname} '
                           f'(line {r0.lineno}) and the file then holds one trajectory more than were added', line=stmt.lineno)
                elif attrs:
                    ctx.undecided('C07-R8', sub.fi, norm(gx)[:80],
                                  'the required-value refusal is conditional on state of the store')
        tested = [x for e in facts for x in _none_tests(e) if _reads_field_by_name(x, traj)]
        ok = bool(tested)
        if not ok:
            # what is tested instead about the trajectory
            other = [x for e in conds + facts for x in ast.walk(e)
                     if isinstance(x, ast.Compare) and any(isinstance(o, (ast.In, ast.NotIn)) for o in x.ops)
                     and any(_reads_object(c, traj) or _is_name(c, traj) for c in x.comparators)]
            truthy = [e for e in facts if not _none_tests(e) and _reads_field_by_name(e, traj)]
            if not other and truthy:
                ctx.undecided('C07-R8', sub.fi, _strip(truthy[0])[:80],
                              'the required-value refusal tests the truth value of the field, not `is None`')
            what = (f'`{_strip(other[0])[:80]}` - whether the name is a key of the trajectory\'s data, not whether its '
                    f'value is None (a field that was never set is present with the value None)') if other else \
                (f'`{_strip(conds[0])[:90]}`, which does not compare the value of the field with None')
        ctx.ob('C07-R8', sub.fi, 'a missing required value is refused before the store is changed', ok,
               (f'refused under `{_strip(tested[0])[:60]} is None` for a required field, before the counter, the cache '
                f'or a file is touched') if ok else
               (f'the refusal of a trajectory with a missing required value tests {what}: such a trajectory passes, and '
                f'{fn0.qualname} (line {r0.lineno}) raises on `None` only after the variables before that field were '
                f'written at the new index - the trajectory dimension has grown although add() failed and put the '
                f'counter back, so len(store) and iteration count one more than the successful additions'),
               line=stmt.lineno)
    ctx.floor('C07-R8', len(judged), 1, 'refusals of a missing required value before the first change')


def _decidable(table, fact) -> bool:
    env = next(iter(table.values()))
    try:
        eval_pred(ast.parse(_strip(fact[2]), mode='eval').body, env)
        return True
    except (ValueError, TypeError, SyntaxError):
        return False


# ---- R6: iteration -----------------------------------------------------------------------------------------------

def _index_walk(e: ast.expr, recv: str) -> bool | None:
    """is e a comprehension / generator that yields recv[i] for i in range(len(recv))?  None: not that form"""
    def over_indices(it):
        return isinstance(it, ast.Call) and call_name(it) == 'range' and len(it.args) == 1 \
            and isinstance(it.args[0], ast.Call) and call_name(it.args[0]) == 'len' \
            and len(it.args[0].args) == 1 and _is_name(it.args[0].args[0], recv)
    if isinstance(e, ast.Call) and call_name(e) == 'map' and len(e.args) == 2 and isinstance(e.args[0], ast.Attribute) \
            and e.args[0].attr == '__getitem__' and _is_name(e.args[0].value, recv) and over_indices(e.args[1]):
        return True
    if not isinstance(e, (ast.GeneratorExp, ast.ListComp)) or len(e.generators) != 1:
        return None
    g = e.generators[0]
    if g.ifs or not isinstance(g.target, ast.Name):
        return None
    it = g.iter
    rng = isinstance(it, ast.Call) and call_name(it) == 'range' and len(it.args) == 1 \
        and isinstance(it.args[0], ast.Call) and call_name(it.args[0]) == 'len' \
        and len(it.args[0].args) == 1 and _is_name(it.args[0].args[0], recv)
    elt = isinstance(e.elt, ast.Subscript) and _is_name(e.elt.value, recv) and _is_name(e.elt.slice, g.target.id)
    return True if rng and elt else None


def _cache_source(e: ast.expr) -> ast.expr | None:
    """the cache mapping, if the elements e iterates over are taken from it in the mapping's own order"""
    while True:
        if recv_attr(e, CACHE_ATTR):
            return e
        if isinstance(e, ast.Call):
            cn = call_name(e)
            if cn in ('iter', 'list', 'tuple', 'enumerate', 'reversed') and e.args:
                e = e.args[0]
                continue
            if isinstance(e.func, ast.Attribute) and e.func.attr in ('values', 'items', 'keys', '__iter__', 'copy'):
                e = e.func.value
                continue
            if cn in ('map', 'filter', 'zip', 'itertools.chain') and e.args:
                e = e.args[-1]
                continue
            return None
        if isinstance(e, (ast.GeneratorExp, ast.ListComp)) and e.generators:
            e = e.generators[0].iter
            continue
        return None


CACHE_ORDER_WHY = ('iteration hands out the cache mapping: its order is the order in which the trajectories were put into '
                   'the cache (read order after a reopen, with every access moving nothing back), and it holds only the '
                   'resident ones - not store[0], store[1], … in index order')


def rule_iter(ctx, prog, m):
    """C07-R6: iteration yields store[0], store[1], … - every iterator __iter__ can return is driven by an index that
    starts at 0, is read through store[index], advances by one and stops at len(store)."""
    it0 = m.func('TrajectoryStore.__iter__')
    recv = it0.params[0]
    if any(isinstance(x, (ast.Yield, ast.YieldFrom)) for x in walk_no_nested(it0.node)):
        return _generator_iter(ctx, it0, recv)
    try:
        sym = Sym(prog, it0).run()
    except SymUndecided as e:
        ctx.undecided('C07-R6', it0, '__iter__', str(e))
    rets = [r for r in sym.returns if r[2] is not None]
    ctx.floor('C07-R6', len(rets), 1, 'returns of __iter__')
    seen = set()
    for st, v, stmt in rets:
        if _is_name(v, recv):
            ctx.ob('C07-R6', it0, '__iter__ returns a fresh iterator', False,
                   'the store is its own iterator: the position is kept on the store, so two overlapping iterations '
                   '(nested loops, zip(store, store), a partly consumed iterator) share and reset one cursor and no longer '
                   'yield the trajectories in insertion order', line=stmt.lineno)
            continue
        src = _cache_source(v)
        if src is not None:
            ctx.ob('C07-R6', it0, f'__iter__ returns {_strip(v)}', False, CACHE_ORDER_WHY, line=stmt.lineno)
            continue
        inner = v.args[0] if isinstance(v, ast.Call) and call_name(v) == 'iter' and len(v.args) == 1 else v
        if _index_walk(inner, recv):
            ctx.ob('C07-R6', it0, f'__iter__ returns {_strip(v)[:60]}', True, 'store[i] for i in range(len(store))',
                   line=stmt.lineno)
            continue
        itc = resolve_class_call(prog, it0, v) if isinstance(v, ast.Call) else None
        if itc is None:
            ctx.undecided('C07-R6', it0, _strip(v)[:80], 'iterator class not found')
        pos = [i for i, a in enumerate(v.args) if _is_name(a, recv)]
        kws = [k.arg for k in v.keywords if _is_name(k.value, recv)]
        if len(pos) + len(kws) != 1:
            ctx.undecided('C07-R6', it0, _strip(v)[:80], 'the iterator is not constructed over this store')
        ctx.ob('C07-R6', it0, '__iter__ hands out a fresh iterator over this store', True, _strip(v), nontrivial=False,
               line=stmt.lineno)
        if itc.name not in seen:
            seen.add(itc.name)
            _iterator_class(ctx, prog, m, itc, pos[0] if pos else kws[0])


def _generator_iter(ctx, it0, recv):
    ys = [x for x in walk_no_nested(it0.node) if isinstance(x, (ast.Yield, ast.YieldFrom))]
    for y in ys:
        if isinstance(y, ast.YieldFrom):
            src = _cache_source(y.value)
            if src is not None:
                ctx.ob('C07-R6', it0, f'yield from {norm(y.value)}', False, CACHE_ORDER_WHY, line=y.lineno)
                continue
            if _index_walk(y.value, recv):
                ctx.ob('C07-R6', it0, f'yield from {norm(y.value)[:60]}', True, 'store[i] for i in range(len(store))',
                       line=y.lineno)
                continue
            ctx.undecided('C07-R6', it0, norm(y.value)[:80], 'generator form not recognised')
        loop = next((a for a in ancestors(y) if isinstance(a, (ast.For, ast.While))), None)
        if isinstance(loop, ast.For):
            src = _cache_source(loop.iter)
            if src is not None:
                ctx.ob('C07-R6', it0, f'for … in {norm(loop.iter)}: yield', False, CACHE_ORDER_WHY, line=loop.lineno)
                continue
            probe = ast.GeneratorExp(elt=y.value, generators=[ast.comprehension(target=loop.target, iter=loop.iter,
                                                                               ifs=[], is_async=0)])
            if y.value is not None and _index_walk(probe, recv) and not guards_of(stmt_of(y), stop=loop):
                ctx.ob('C07-R6', it0, f'for {norm(loop.target)} in {norm(loop.iter)}: yield {norm(y.value)}', True,
                       'store[i] for i in range(len(store))', line=loop.lineno)
                continue
        ctx.undecided('C07-R6', it0, norm(y)[:80], 'generator form not recognised')


def _stops_on_index_error(nx) -> bool:
    """`try: item = store[cursor] … except IndexError: raise StopIteration`: the end is the store's own IndexError"""
    for t in walk_no_nested(nx.node):
        if isinstance(t, ast.Try):
            for h in t.handlers:
                if h.type is not None and 'IndexError' in norm(h.type) and any(
                        isinstance(x, ast.Raise) and x.exc is not None and 'StopIteration' in norm(x.exc) for x in h.body):
                    return True
    return False


def _iterator_class(ctx, prog, m, itc, store_arg):
    """the cursor protocol of a separate iterator class, decided per path of __init__ and __next__"""
    nx, ini = itc.methods.get('__next__'), itc.methods.get('__init__')
    where = (m.relpath, itc.name)
    if nx is None or ini is None:
        ctx.undecided('C07-R6', where, '__next__', 'iterator methods not found')
    r = ini.params[0]
    sparam = store_arg if isinstance(store_arg, str) else (ini.params[1 + store_arg] if len(ini.params) > 1 + store_arg else None)
    try:
        s0 = Sym(prog, ini).run()
        s1 = Sym(prog, nx).run()
    except SymUndecided as e:
        ctx.undecided('C07-R6', where, '__next__', str(e))
    fields: dict[str, set[str]] = {}
    for st, v, stmt in s0.returns:
        for k, val in st.env.items():
            if k.startswith(r + '.'):
                fields.setdefault(k[len(r) + 1:], set()).add(norm(val))
    store_f = [a for a, vs in fields.items() if vs == {sparam}]
    if len(store_f) != 1:
        ctx.undecided('C07-R6', where, '__init__', 'cannot tell which field holds the store')
    S = ast.Attribute(value=ast.Name(id=nx.params[0], ctx=ast.Load()), attr=store_f[0], ctx=ast.Load())
    rets = [x for x in s1.returns if x[2] is not None]
    if not rets:
        ctx.undecided('C07-R6', nx, '__next__', 'no return')
    problems, undec = [], []
    cursors = set()
    for st, v, stmt in rets:
        if isinstance(v, ast.Call) and isinstance(v.func, ast.Attribute) and v.func.attr == '__getitem__' and len(v.args) == 1:
            v = ast.Subscript(value=v.func.value, slice=v.args[0], ctx=ast.Load())
        if not (isinstance(v, ast.Subscript) and norm(v.value) == norm(S)):
            undec.append(f'`{_strip(v)[:60]}` is not an element of the store read by index')
            continue
        cur = [x for x in ast.walk(v.slice) if isinstance(x, ast.Attribute) and isinstance(x.value, ast.Name)
               and x.value.id == nx.params[0]]
        if len({norm(c) for c in cur}) != 1:
            undec.append(f'cannot tell the cursor in `{_strip(v)}`')
            continue
        C = cur[0]
        cursors.add(C.attr)
        d = _diff(v.slice, C)
        if d is None:
            undec.append(f'index `{_strip(v.slice)}` is not the cursor plus a constant')
        elif d != 0:
            problems.append((stmt, f'yields store[cursor{d:+}]: the item at the cursor is skipped / repeated'))
        new = st.env.get(f'{nx.params[0]}.{C.attr}')
        if new is None:
            problems.append((stmt, 'the cursor is not advanced on the path that yields an item'))
        else:
            d = _diff(new, C)
            if d is None:
                undec.append(f'cursor becomes `{_strip(new)}`')
            elif d != 1:
                problems.append((stmt, f'the cursor advances by {d} per item, not by one'))
        bound = f'{norm(C)} < len({norm(S)})'
        # (a cursor that starts at 0 and advances by one never passes len: `!= len` bounds it as well)
        if st.fact(bound) is not True and not st.holds(f'{norm(C)} == len({norm(S)})', False) \
                and not _stops_on_index_error(nx):
            if st.fact(f'len({norm(S)}) < {norm(C)}') is False:
                problems.append((stmt, 'an item is read while cursor <= len(store): one read past the end'))
            else:
                undec.append(f'no `cursor < len(store)` established before `{_strip(v)}`')
    stops = [x for x in s1.raises if x[1] is not None and 'StopIteration' in norm(x[1])]
    if not stops:
        undec.append('no path raises StopIteration')
    for st, exc, stmt, _ in stops:
        if any(isinstance(a, ast.ExceptHandler) and a.type is not None and 'IndexError' in norm(a.type)
               for a in ancestors(stmt)):
            continue        # the store itself reported the cursor as out of range
        for c in cursors:
            if st.fact(f'{nx.params[0]}.{c} < len({norm(S)})') is not False \
                    and not st.holds(f'{nx.params[0]}.{c} == len({norm(S)})', True):
                undec.append('StopIteration raised on a path that did not establish cursor >= len(store)')
    for c in cursors:
        start = fields.get(c, set())
        if start != {'0'}:
            if len(start) == 1 and all(_nf(ast.parse(x, mode='eval').body) is not None
                                       and _nf(ast.parse(x, mode='eval').body).is_const() for x in start):
                problems.append((ini.node, f'the cursor starts at {next(iter(start))}, not at 0'))
            else:
                undec.append(f'cursor start {sorted(start)}')
    if not problems and undec:
        ctx.undecided('C07-R6', nx, '__next__', undec[0])
    ok = not problems
    ctx.ob('C07-R6', nx, 'iteration yields store[0], store[1], … while index < len(store)', ok,
           'starts at 0, reads store[index], then advances by one, stops at len' if ok else
           'iteration does not walk the indices 0..len-1 in order: ' + problems[0][1],
           line=(problems[0][0].lineno if problems else nx.node.lineno))


def rule_save(ctx, prog, m):
    """C07-R6 (save): the number of trajectories to persist is the length measured *before* the files are created
    (afterwards __len__ measures the new, empty files), and the write loop writes index i at position i for
    i = 0 .. n-1."""
    sv = m.func('TrajectoryStore.save')
    recv = sv.params[0]
    wl = [n for n in walk_no_nested(sv.node) if isinstance(n, (ast.For, ast.AsyncFor))
          and any(call_name(c).endswith('._write_trajectory') for c in calls_in(n))]
    if len(wl) != 1:
        ctx.undecided('C07-R6', sv, 'write loop', f'{len(wl)} loops that write trajectories')
    lp = wl[0]
    it = lp.iter
    rng = isinstance(it, ast.Call) and call_name(it) == 'range' and not it.keywords and (
        len(it.args) == 1 or (len(it.args) == 2 and isinstance(it.args[0], ast.Constant) and it.args[0].value == 0))
    writes = [c for c in calls_in(lp) if call_name(c).endswith('._write_trajectory')]

    def own_args(c):
        """the write is handed the loop index - and, when the trajectory is passed along, the cache entry (or store
        item) of that same index, directly or through a local bound once to it"""
        vals = list(c.args) + [k.value for k in c.keywords]
        if any(isinstance(a, ast.Starred) for a in c.args) or any(k.arg is None for k in c.keywords):
            return False
        n_idx = 0
        for a in vals:
            if isinstance(a, ast.Name) and a.id != lp.target.id:
                a = single_def_value(sv.node, a.id) or a
            if _is_name(a, lp.target.id):
                n_idx += 1
            elif isinstance(a, ast.Subscript) and _is_name(a.slice, lp.target.id) \
                    and (recv_attr(a.value, CACHE_ATTR, recv) or _is_name(a.value, recv)):
                pass
            else:
                return False
        return n_idx == 1
    own = isinstance(lp.target, ast.Name) and all(own_args(c) for c in writes) \
        and all(stmt_of(c) in lp.body for c in writes)
    if not rng:
        ctx.undecided('C07-R6', sv, norm(it)[:60], 'the write loop does not run over range(n)')
    ctx.ob('C07-R6', sv, 'save writes indices 0 .. n-1, each at its own index', own,
           f'for {norm(lp.target)} in {norm(it)}: _write_trajectory({norm(lp.target)})' if own else
           'save does not write every cached trajectory at its own index', line=lp.lineno)
    n_expr = it.args[-1]
    g2 = CFG(sv.node)
    normal = lambda a, b, lab: lab != 'e'      # noqa: E731
    dom2 = g2.dominators(edge_ok=normal)
    cr = [n for n in g2.nodes if n.stmt is not None and n.kind == 'stmt'
          and any(call_name(c) == f'{recv}._create' for c in calls_in(n.stmt))]
    if not cr:
        ctx.undecided('C07-R6', sv, 'save', 'no call that creates the files')

    def is_len_self(e):
        return isinstance(e, ast.Call) and ((call_name(e) == 'len' and len(e.args) == 1 and _is_name(e.args[0], recv))
                                            or call_name(e) == f'{recv}.__len__')
    if is_len_self(n_expr):
        ok = False      # evaluated when the loop starts: after the files were created
    elif isinstance(n_expr, ast.Name):
        d = single_def_value(sv.node, n_expr.id)
        if d is None or not is_len_self(d):
            ctx.undecided('C07-R6', sv, norm(n_expr), 'the number of trajectories to save is not a single `len(self)`')
        dn = g2.nodes_of(stmt_of(d))
        ok = bool(dn) and all(dn[0] in dom2.get(c.id, set()) for c in cr)
    else:
        ctx.undecided('C07-R6', sv, norm(n_expr)[:60], 'the number of trajectories to save is not recognised')
    ctx.ob('C07-R6', sv, 'save counts the in-memory trajectories before the files exist', ok,
           'len(self) taken before _create() switches the length source to the (empty) file' if ok else
           'save measures the store after linking it to the new, empty files: nothing (or the wrong number) is written')


FLAG = 'exception_on_eviction'


def property_value(cls, attr: str):
    """(return expression, receiver name) of `cls.<attr>` when that is a @property (found through the MRO) whose body is
    a single `return <expression>` - i.e. a name for a condition; None otherwise"""
    fi = find_member(cls, attr)
    if fi is None or not any(d.split('.')[-1] in ('property', 'cached_property') for d in fi.decorators()):
        return None
    body = [b for b in fi.node.body if not (isinstance(b, ast.Expr) and isinstance(b.value, ast.Constant)
                                           and isinstance(b.value.value, str))]
    if len(body) != 1 or not isinstance(body[0], ast.Return) or body[0].value is None or not fi.params:
        return None
    return body[0].value, fi.params[0]


def expand_properties(cls, e: ast.AST, recv: str, depth: int = 3) -> ast.AST:
    """e with every read `<recv>.<p>` of a single-expression property p of cls replaced by the property's expression
    over the same receiver (any heap epoch of the receiver name is kept): `self.in_memory` is `self.base_file is None`
    when that is all the property returns"""
    if cls is None or depth <= 0:
        return e

    class T(ast.NodeTransformer):
        def visit_Attribute(self, n):
            self.generic_visit(n)
            if isinstance(n.ctx, ast.Load) and isinstance(n.value, ast.Name) and _base_id(n.value.id) == recv:
                pv = property_value(cls, n.attr)
                if pv is not None:
                    body, r = copy.deepcopy(pv[0]), pv[1]
                    for x in ast.walk(body):
                        if isinstance(x, ast.Name) and x.id == r:
                            x.id = n.value.id
                    return expand_properties(cls, body, recv, depth - 1)
            return n
    return T().visit(copy.deepcopy(e))


def fact_through_properties(cls, st, text: str, recv: str):
    """like st.fact(text), but a branch condition spelt with a property of the class counts as the condition the
    property returns"""
    p = st.fact(text)
    if p is not None:
        return p
    for k, pol, e in st.facts:
        k2, pol2, _ = canon_fact(expand_properties(cls, e, recv), pol)
        if k2 == text:
            return pol2
    return None


def rule_eviction(ctx, prog, m):
    """C07-R4, decided per site: the cache refuses before it evicts; the refusal flag is switched on exactly for a
    store without a base file (whether by a guarded store, by storing the condition itself or through the cache's
    constructor / a factory of the cache that hands the value on) and switched off only by `save`, after every
    trajectory was written."""
    cache = m.cls('TrajectoryCache')
    store_cls = m.cls('TrajectoryStore')
    pop, cinit = cache.methods.get('popitem'), cache.methods.get('__init__')
    if pop is None:
        ctx.undecided('C07-R4', (m.relpath, 'TrajectoryCache'), 'popitem', 'method not found')
    r = pop.params[0]

    def is_evict(n):
        return isinstance(n, ast.Call) and isinstance(n.func, ast.Attribute) and n.func.attr == 'popitem'
    try:
        ps = Sym(prog, pop).run(is_evict)
        whole = Sym(prog, pop).run()
    except SymUndecided as e:
        ctx.undecided('C07-R4', pop, 'popitem', str(e))
    ctx.floor('C07-R4', len(ps.hits), 1, 'evictions (calls of the base class popitem)')
    flag_txt = canon_fact(ast.parse(f'{r}.{FLAG}', mode='eval').body, True)[0]

    def flag_on(st):
        return fact_through_properties(cache, st, flag_txt, r)
    okp = all(flag_on(h.state) is False for h in ps.hits) \
        and any(flag_on(st) is True for st, exc, stmt, _ in ps.raises)
    why_bad = ('the cache can evict from an in-memory store (the trajectory would be lost): an entry is removed on a path '
               'that did not test the refusal flag first')
    line = None
    if not okp:
        # the refusal itself comes too late: a path that raises under the set flag has already called the base-class
        # popitem(), so the least-recently-used entry is gone when the addition is refused
        late = [(st, stmt) for st, exc, stmt, _ in whole.raises if flag_on(st) is True
                and any(kind == 'call' and is_evict(node) for kind, node, e, fi in st.trace)]
        if late:
            ev = next(node for kind, node, e, fi in late[0][0].trace if kind == 'call' and is_evict(node))
            line = ev.lineno
            why_bad = (f'`{norm(ev)}` (line {ev.lineno}) removes the least-recently-used entry BEFORE `{r}.{FLAG}` is tested '
                       f'and the refusal is raised (line {late[0][1].lineno}): when an in-memory store refuses an addition, '
                       f'an earlier, successfully added trajectory has already been dropped from the cache - its only '
                       f'storage - so len(store) falls below the number of successful additions and that index raises '
                       f'IndexError')
    ctx.ob('C07-R4', pop, 'refusal precedes the eviction', okp,
           'every path to the base-class popitem() has seen the flag unset; the flag set raises' if okp else why_bad,
           line=line)

    # ---- where the flag gets its value ---------------------------------------------------------------------------
    sinit = m.func('TrajectoryStore.__init__')
    # carriers: (function, parameter) whose value ends up in the flag - the cache constructor's parameter that is
    # stored into the flag, and parameters of the cache's own factories that hand it on to a carrier
    carriers: dict[tuple[str, str], tuple[object, str]] = {}
    if cinit is not None:
        for t, st, how in stores_to(cinit.node):
            if isinstance(t, ast.Attribute) and t.attr == FLAG and how in ('assign', 'ann') \
                    and isinstance(st.value, ast.Name) and st.value.id in cinit.params[1:]:
                carriers[(cinit.qualname, st.value.id)] = (cinit, st.value.id)

    def carrier_args(fn, c):
        """[(carrier function, parameter, argument expression)] for a call that constructs the cache / calls a factory"""
        out = []
        callee = None
        k = resolve_class_call(prog, fn, c)
        if k is not None and k.name == cache.name:
            callee = cinit
        elif isinstance(c.func, ast.Name) and fn.cls is cache and fn.params and c.func.id == fn.params[0] \
                and any(d.split('.')[-1] == 'classmethod' for d in fn.decorators()):
            callee = cinit          # `cls(...)` inside a factory of the cache
        else:
            try:
                callee = resolve_call(prog, fn, c)
            except Exception:
                callee = None
        if callee is None:
            return out
        if callee is cinit and kwarg(c, FLAG) is not None and (cinit.qualname, FLAG) not in carriers:
            out.append((callee, FLAG, kwarg(c, FLAG)))      # **kwargs constructor that is given the flag by name
        a = callee.node.args
        pos = [x.arg for x in a.posonlyargs + a.args]
        if callee.cls is not None and not any(d.split('.')[-1] == 'staticmethod' for d in callee.decorators()):
            pos = pos[1:]
        for (q, par), (cf, _) in list(carriers.items()):
            if cf != callee:
                continue
            v = arg_or_kw(c, pos.index(par), par) if par in pos else kwarg(c, par)
            if v is not None:
                out.append((callee, par, v))
        return out

    changed = True
    while changed:
        changed = False
        for fn in m.functions.values():
            if fn.cls is not cache or fn == cinit:
                continue
            for c in calls_in(fn.node):
                for callee, par, v in carrier_args(fn, c):
                    if isinstance(v, ast.Name) and v.id in fn.params and single_def_value(fn.node, v.id) is None \
                            and (fn.qualname, v.id) not in carriers:
                        carriers[(fn.qualname, v.id)] = (fn, v.id)
                        changed = True

    sites = []      # (function, node to stop at, value expression, how)
    for fn in m.functions.values():
        for t, st, how in stores_to(fn.node):
            if isinstance(t, ast.Attribute) and t.attr == FLAG and how in ('assign', 'ann', 'aug'):
                sites.append((fn, st, st.value, 'store'))
        for c in calls_in(fn.node):
            for callee, par, v in carrier_args(fn, c):
                # (a factory's own parameter handed on is judged by its default here and by its value where the
                # factory is called)
                sites.append((fn, c, v, 'constructor'))
    # (at least the default in the cache's constructor and the clearing in save(); that something arms the flag for a
    # store without a base file is its own obligation below)
    ctx.floor('C07-R4', len(sites), 2, 'stores of exception_on_eviction')
    armed = False
    for fn, node, val, how in sites:
        try:
            hits = Sym(prog, fn).run(lambda n, node=node: n is node).hits
        except SymUndecided as e:
            ctx.undecided('C07-R4', fn, norm(node)[:60], str(e))
        if not hits:
            ctx.undecided('C07-R4', fn, norm(node)[:60], 'site not reached by the path enumeration')
        what = f'{norm(node)[:70]}' if how == 'store' else f'{call_name(node)}(…, {FLAG} := {norm(val)[:40]})'
        verdicts = []
        for h in hits:
            v = h.ev(val)
            recv = fn.params[0] if fn.params else None
            no_base = canon_fact(h.ev(ast.parse(f'{recv}.base_file is None', mode='eval').body), True) if recv else None
            # True: this path has no base file (a condition spelt through a property of the store counts as what the
            # property returns)
            in_memory = fact_through_properties(store_cls if fn.cls is store_cls else fn.cls, h.state, no_base[0], recv) \
                if no_base else None
            if fn.cls is cache and isinstance(v, ast.Name) and (fn.qualname, v.id) in carriers:
                # default / constructor parameter (of the cache or of a factory that hands it on)
                d = _param_default(fn, v.id)
                ok = isinstance(d, ast.Constant) and d.value is False
                why = f'constructor parameter `{v.id}` (default False)' if ok else \
                    f'constructor parameter `{v.id}` does not default to False'
            elif fn.cls is cache and fn.name == '__init__':
                if isinstance(v, ast.Constant) and v.value is False:
                    ok, why = True, 'default'
                else:
                    ctx.undecided('C07-R4', fn, what, 'initial value of the flag not recognised')
            elif isinstance(v, ast.Constant) and v.value is True:
                ok = fn == sinit and in_memory is True
                armed = armed or ok
                why = 'set exactly when the store has no base file' if ok else \
                    'flag set under a different condition than "no base file"'
            elif isinstance(v, ast.Constant) and v.value is False:
                if fn == sinit and in_memory is False:
                    ok, why = True, 'a store with a base file may evict'
                elif fn.qualname == 'TrajectoryStore.save':
                    g = CFG(fn.node)
                    mine = g.nodes_of(stmt_of(node))
                    writes = [n.id for n in g.nodes if n.stmt is not None and n.kind == 'stmt'
                              and any(call_name(c).endswith('_write_trajectory') for c in calls_in(n.stmt))]
                    normal = lambda a, b, lab: lab != 'e'      # noqa: E731
                    ok = bool(mine) and bool(writes) and not any(g.reaches(x, w, edge_ok=normal) for x in mine for w in writes)
                    why = 'cleared after every trajectory was written' if ok else \
                        'evictions are allowed before the trajectories were written to the new file'
                else:
                    ok, why = False, 'eviction refusal cleared outside save()'
            else:
                k = canon_fact(expand_properties(fn.cls, v, recv) if recv else v, True)
                if no_base is not None and k[0] == no_base[0] and fn == sinit:
                    ok = k[1] == no_base[1]
                    armed = armed or ok
                    why = 'the flag is the condition "no base file" itself' if ok else \
                        'the flag is set exactly when the store *has* a base file'
                else:
                    ctx.undecided('C07-R4', fn, what, f'flag value `{_strip(v)[:60]}` not recognised')
            verdicts.append((ok, why))
        ok, why = next((v for v in verdicts if not v[0]), verdicts[0])
        ctx.ob('C07-R4', fn, what, ok, why, line=node.lineno)
    dropped = []
    if not armed and cinit is not None:
        used = {x.id for x in walk_no_nested(cinit.node) if isinstance(x, ast.Name) and isinstance(x.ctx, ast.Load)}
        dropped = [p_ for p_ in cinit.params[1:] if p_ not in used and not p_.startswith('_')
                   and p_ not in {a.arg for a in (cinit.node.args.vararg, cinit.node.args.kwarg) if a is not None}]
    ctx.ob('C07-R4', sinit, 'an in-memory store refuses evictions', armed,
           'the constructor switches the refusal on when there is no base file' if armed else
           'nothing switches the eviction refusal on for a store without a base file'
           + (f' (the cache constructor ignores its parameter `{dropped[0]}`: it is never stored into {FLAG})' if dropped else ''),
           nontrivial=False)


def _param_default(fn, name: str):
    a = fn.node.args
    pos = a.posonlyargs + a.args
    for p, d in zip(reversed(pos), reversed(a.defaults)):
        if p.arg == name:
            return d
    for p, d in zip(a.kwonlyargs, a.kw_defaults):
        if p.arg == name:
            return d
    return None


# ---- R7: typestate of the file link ---------------------------------------------------------------------------------
#
# A store made by the constructor in CREATE mode has no file attached: either for good (no base file: *in memory*,
# until save()) or until the first successful addition creates the files (base file given: *creation pending*).  The
# two states are not assumed but computed: the constructor's stores (`self.x = <expr>` at the top level of __init__
# and of the private helpers it calls unconditionally) are evaluated under `mode = CREATE, base_file = None` and
# `mode = CREATE, base_file = <a path>`.  Each list operation is then walked on its CFG in each state: a branch whose
# test has a definite value in the state (attributes as the constructor left them - properties that only name a
# condition are opened -, locals that can only hold one constant on the feasible nodes) is followed on that side
# only, a loop over an empty container is not entered, an edge that attaches files leaves the state.  What must not
# be reachable: `self._nc[<fixed key>]`, `self.index_group.<attr>` and an `assert` that is false in the state.

LINK_ATTRS = ('base_file', '_nc_files', '_nc', 'index_group', '_file_creation_pending')
_UNKNOWN = type('Unknown', (), {'__repr__': lambda self: '?'})()


class _SomeObject:
    """a value that is certainly not None (a path that was given); nothing else is known about it"""
    def __repr__(self):
        return '<given>'


class _Namespace(dict):
    """an object whose attributes are known (the file-mode enum: member name -> member)"""


def _value(e: ast.AST, env: dict, cls=None, recv: str = 'self'):
    """value of e over an explicit environment {dotted name: value}; _UNKNOWN when it cannot be told.  Nothing from
    the repository is run: constants, names, len / bool / list / iteration views of known containers, comparisons,
    and / or / not (three-valued), conditional expressions."""
    if isinstance(e, ast.Constant):
        return e.value
    if isinstance(e, (ast.Name, ast.Attribute)):
        k = norm(e)
        if k in env:
            return env[k]
        if isinstance(e, ast.Attribute) and isinstance(e.value, ast.Name) and e.value.id == recv and cls is not None:
            pv = property_value(cls, e.attr)
            if pv is not None:
                return _value(expand_properties(cls, e, recv), env, None, recv) \
                    if not any(norm(x) == k for x in ast.walk(pv[0])) else _UNKNOWN
        if isinstance(e, ast.Attribute):
            base = _value(e.value, env, cls, recv)
            if isinstance(base, _Namespace) and e.attr in base:
                return base[e.attr]
        return _UNKNOWN
    if isinstance(e, (ast.Tuple, ast.List, ast.Set)):
        vs = [_value(x, env, cls, recv) for x in e.elts]
        return _UNKNOWN if any(v is _UNKNOWN or isinstance(v, _SomeObject) for v in vs) \
            or any(isinstance(x, ast.Starred) for x in e.elts) else tuple(vs)
    if isinstance(e, ast.Dict) and not e.keys:
        return {}
    if isinstance(e, ast.UnaryOp) and isinstance(e.op, ast.Not):
        t = _truth(e.operand, env, cls, recv)
        return _UNKNOWN if t is None else not t
    if isinstance(e, ast.BoolOp):
        t = _truth(e, env, cls, recv)
        return _UNKNOWN if t is None else t          # only used as a truth value
    if isinstance(e, ast.IfExp):
        t = _truth(e.test, env, cls, recv)
        return _UNKNOWN if t is None else _value(e.body if t else e.orelse, env, cls, recv)
    if isinstance(e, ast.Call) and not e.keywords:
        cn = call_name(e)
        if cn in ('list', 'dict', 'set', 'tuple') and not e.args:
            return {} if cn == 'dict' else ()
        if len(e.args) == 1 and cn in ('len', 'bool', 'list', 'tuple', 'sorted', 'iter', 'enumerate', 'reversed', 'set'):
            v = _value(e.args[0], env, cls, recv)
            if isinstance(v, (tuple, list, dict, set, frozenset, str)):
                return len(v) if cn == 'len' else bool(v) if cn == 'bool' else tuple(v)
            return _UNKNOWN
        if isinstance(e.func, ast.Attribute) and e.func.attr in ('keys', 'values', 'items', 'copy') and not e.args:
            v = _value(e.func.value, env, cls, recv)
            if isinstance(v, (dict, tuple, list)) and not v:
                return ()
        return _UNKNOWN
    if isinstance(e, ast.Compare) and len(e.ops) == 1:
        a, b, op = _value(e.left, env, cls, recv), _value(e.comparators[0], env, cls, recv), e.ops[0]
        if isinstance(op, (ast.In, ast.NotIn)):
            if isinstance(b, (tuple, list, dict, set, frozenset)) and not b:
                return isinstance(op, ast.NotIn)
            if a is _UNKNOWN or b is _UNKNOWN or isinstance(a, _SomeObject) or not isinstance(b, (tuple, list, dict, set)):
                return _UNKNOWN
            return (a in b) == isinstance(op, ast.In)
        if a is _UNKNOWN or b is _UNKNOWN:
            return _UNKNOWN
        if isinstance(op, (ast.Is, ast.IsNot, ast.Eq, ast.NotEq)):
            if isinstance(a, _SomeObject) or isinstance(b, _SomeObject):
                other = b if isinstance(a, _SomeObject) else a
                if other is None:
                    return isinstance(op, (ast.IsNot, ast.NotEq))
                return _UNKNOWN
            same = (a is b or (a == b and type(a) is type(b))) if isinstance(op, (ast.Is, ast.IsNot)) else a == b
            return same == isinstance(op, (ast.Is, ast.Eq))
        try:
            return {ast.Lt: a < b, ast.LtE: a <= b, ast.Gt: a > b, ast.GtE: a >= b}[type(op)]
        except (TypeError, KeyError):
            return _UNKNOWN
    return _UNKNOWN


def _truth(e: ast.AST, env: dict, cls=None, recv: str = 'self'):
    """True / False / None (unknown) for the truth value of e"""
    if isinstance(e, ast.BoolOp):
        ts = [_truth(v, env, cls, recv) for v in e.values]
        if isinstance(e.op, ast.And):
            return False if any(t is False for t in ts) else (True if all(t is True for t in ts) else None)
        return True if any(t is True for t in ts) else (False if all(t is False for t in ts) else None)
    if isinstance(e, ast.UnaryOp) and isinstance(e.op, ast.Not):
        t = _truth(e.operand, env, cls, recv)
        return None if t is None else not t
    v = _value(e, env, cls, recv)
    if v is _UNKNOWN or isinstance(v, _SomeObject):
        return None
    try:
        return bool(v)
    except Exception:
        return None


def link_states(ctx, prog, m, rule):
    """{state name: (description, {`self.<attr>`: value})} of a store the constructor left without a file, computed
    from the constructor's own stores"""
    cls = m.cls('TrajectoryStore')
    init = cls.methods.get('__init__')
    mode_cls = m.classes.get('TrajectoryStore.FileMode')
    if init is None or mode_cls is None or 'mode' not in init.params or 'base_file' not in init.params:
        ctx.undecided(rule, (m.relpath, 'TrajectoryStore'), '__init__', 'constructor with mode / base_file not found')
    members = list(mode_cls.class_assignments().keys())
    if 'CREATE' not in members:
        ctx.undecided(rule, init, 'FileMode', 'no CREATE member in the file-mode enum')
    r = init.params[0]
    out = {}
    for sname, what, base in (('in memory', 'a store created in memory (no base file)', None),
                              ('creation pending', 'a store created with a base file, before its first successful addition '
                               '(the NetCDF files are only created then: nothing is attached yet)', _SomeObject())):
        env: dict = {'mode': 'CREATE', 'base_file': base}
        for pre in (f'{r}.FileMode', 'FileMode', f'{cls.name}.FileMode', 'cls.FileMode'):
            env[pre] = _Namespace({x: x for x in members})

        def run(fn, env, depth=0):
            rr = fn.params[0] if fn.params else r

            def bind(t, value, v):
                if isinstance(t, ast.Attribute) and isinstance(t.value, ast.Name) and t.value.id == rr:
                    env[f'{rr}.{t.attr}'] = v
                elif isinstance(t, ast.Name):
                    env[t.id] = v
                elif isinstance(t, (ast.Tuple, ast.List)) and isinstance(value, (ast.Tuple, ast.List)) \
                        and len(t.elts) == len(value.elts) and not any(isinstance(x, ast.Starred) for x in t.elts + value.elts):
                    for x, y in zip(t.elts, value.elts):
                        bind(x, y, _value(y, env, cls, rr))
                else:
                    havoc(t)

            def havoc(node):
                """whatever `node` stores is not known afterwards"""
                for x in ast.walk(node):
                    if isinstance(x, ast.Attribute) and isinstance(x.ctx, (ast.Store, ast.Del)) \
                            and isinstance(x.value, ast.Name) and x.value.id == rr:
                        env[f'{rr}.{x.attr}'] = _UNKNOWN
                    elif isinstance(x, ast.Name) and isinstance(x.ctx, (ast.Store, ast.Del)):
                        env[x.id] = _UNKNOWN

            def block(stmts) -> bool:
                """False when the block ends the function (return / raise)"""
                for st in stmts:
                    if isinstance(st, (ast.Assign, ast.AnnAssign)):
                        if st.value is None:
                            continue
                        v = _value(st.value, env, cls, rr)
                        for t in (st.targets if isinstance(st, ast.Assign) else [st.target]):
                            bind(t, st.value, v)
                    elif isinstance(st, ast.Expr) and isinstance(st.value, ast.Call):
                        call(st.value)
                    elif isinstance(st, ast.If):
                        tt = _truth(st.test, env, cls, rr)
                        if tt is None:
                            havoc(st)
                            if any(isinstance(x, ast.Return) for x in walk_no_nested(st)):
                                # the function may end here: what the rest stores may or may not have happened
                                before = dict(env)
                                block(stmts[stmts.index(st) + 1:])
                                for k in set(env) | set(before):
                                    a_, b_ = env.get(k, _UNKNOWN), before.get(k, _UNKNOWN)
                                    if not (a_ is b_ or (type(a_) is type(b_) and not isinstance(a_, _SomeObject) and a_ == b_)):
                                        env[k] = _UNKNOWN
                                return True
                        elif not block(st.body if tt else st.orelse):
                            return False
                    elif isinstance(st, ast.Try):
                        # (the constructor completing is what defines the state: no exception)
                        if not (block(st.body) and block(st.orelse) and block(st.finalbody)):
                            return False
                    elif isinstance(st, (ast.With, ast.AsyncWith)):
                        for it in st.items:
                            if it.optional_vars is not None:
                                havoc(it.optional_vars)
                        if not block(st.body):
                            return False
                    elif isinstance(st, (ast.Return, ast.Raise)):
                        return False
                    else:
                        havoc(st)
                return True

            def call(c):
                if depth >= 2:
                    return
                try:
                    callee = resolve_call(prog, fn, c)
                except Exception:
                    callee = None
                if callee is None or callee.cls is not cls or not isinstance(c.func, ast.Attribute) \
                        or not (isinstance(c.func.value, ast.Name) and c.func.value.id == rr) or not callee.params \
                        or any(isinstance(a, ast.Starred) for a in c.args) or not all(k.arg for k in c.keywords):
                    return
                pn = callee.params[1:]
                r2 = callee.params[0]
                sub = {(r2 + k[len(rr):] if k.startswith(rr + '.') else k): v for k, v in env.items() if '.' in k}
                for i, a in enumerate(c.args):
                    if i < len(pn):
                        sub[pn[i]] = _value(a, env, cls, rr)
                for k in c.keywords:
                    sub[k.arg] = _value(k.value, env, cls, rr)
                run(callee, sub, depth + 1)
                for k, v in sub.items():
                    if k.startswith(r2 + '.'):
                        env[rr + k[len(r2):]] = v
            block(fn.node.body)
        run(init, env)
        facts = {f'self.{a}': env.get(f'{r}.{a}', _UNKNOWN) for a in LINK_ATTRS + ('indexable',)}
        missing = [a for a in LINK_ATTRS if facts[f'self.{a}'] is _UNKNOWN]
        if missing:
            ctx.undecided(rule, init, ', '.join(missing), f'cannot tell what the constructor leaves in these attributes for {what}')
        out[sname] = (what, facts)
    return out


def rule_link_state(ctx, prog, m, rule='C07-R7', entries=None):
    """Typestate of the file link (see the comment above): no operation that can be invoked on a store without an
    attached file reaches a dereference of file-only state, or an assertion that is false in that state."""
    cls = m.cls('TrajectoryStore')
    meths = dict(cls.methods)
    states = link_states(ctx, prog, m, rule)

    def is_static(fi):
        return any(norm(d) in ('staticmethod', 'classmethod') for d in fi.node.decorator_list)

    def touches(x, attr):
        """x stores / mutates self.<attr> (returns the stored value expression, or True for a mutation)"""
        if isinstance(x, (ast.Assign, ast.AnnAssign, ast.AugAssign)):
            for t in (x.targets if isinstance(x, ast.Assign) else [x.target]):
                for y in ([t] if not isinstance(t, (ast.Tuple, ast.List)) else t.elts):
                    if norm(y) == f'self.{attr}':
                        return x.value if isinstance(x, (ast.Assign, ast.AnnAssign)) and y is t and x.value is not None else True
                    if isinstance(y, ast.Subscript) and norm(y.value) == f'self.{attr}':
                        return True
        if isinstance(x, ast.Call) and isinstance(x.func, ast.Attribute) and norm(x.func.value) == f'self.{attr}' \
                and x.func.attr in ('append', 'extend', 'insert', 'update', 'setdefault', '__setitem__', 'add'):
            return True
        if isinstance(x, ast.Delete) and any(norm(t) == f'self.{attr}' for t in x.targets):
            return True
        return None

    # methods that attach files (store into self._nc / grow self._nc_files), transitively over self-calls
    attach = set()
    changed = True
    while changed:
        changed = False
        for name, fi in meths.items():
            if name in attach:
                continue
            for x in walk_no_nested(fi.node):
                if (isinstance(x, ast.Subscript) and isinstance(x.ctx, ast.Store) and norm(x.value) == 'self._nc') \
                        or (isinstance(x, ast.Call) and call_name(x) in ('self._nc_files.append', 'self._nc_files.extend',
                                                                        'self._nc.update', 'self._nc.setdefault',
                                                                        'self._nc_files.insert')) \
                        or (isinstance(x, ast.Call) and call_name(x).startswith('self.') and call_name(x)[5:] in attach):
                    attach.add(name)
                    changed = True
                    break

    def attaches(s_) -> bool:
        for c in calls_in(s_):
            cn = call_name(c)
            if cn.startswith('self.') and cn[5:] in attach:
                return True
            if cn in ('self._nc_files.append', 'self._nc_files.extend', 'self._nc.update', 'self._nc.setdefault',
                      'self._nc_files.insert'):
                return True
        for x in ast.walk(s_):
            if isinstance(x, ast.Subscript) and isinstance(x.ctx, ast.Store) and norm(x.value) == 'self._nc':
                return True
        return isinstance(s_, ast.Assign) and any(norm(t) == 'self.index_group' for t in s_.targets) \
            and not (isinstance(s_.value, ast.Constant) and s_.value.value is None)

    # ---- the state's facts hold whenever an operation starts ----------------------------------------------------------
    # an attribute of the model that an operation can change without attaching files (another value than the one the
    # constructor left) is not a fact of the state: it is unknown from then on
    init_only = {f.name for f in closure(prog, [meths['__init__']]) if f.cls is cls and f.name.startswith('_')} \
        if '__init__' in meths else set()
    for name, fi in meths.items():
        if name in attach or name in init_only:
            continue
        for x in walk_no_nested(fi.node):
            if not isinstance(x, (ast.stmt, ast.Call)):
                continue
            for a in LINK_ATTRS:
                v = touches(x, a)
                if v is None:
                    continue
                for sname, (what, facts) in states.items():
                    cur = facts[f'self.{a}']
                    if not (isinstance(v, ast.Constant) and not isinstance(cur, _SomeObject) and cur is not _UNKNOWN
                            and v.value is cur):
                        facts[f'self.{a}'] = _UNKNOWN
                        ctx.stats.setdefault(f'{rule}.unstable', []).append(f'{name}: {norm(x)[:50]}')

    # ---- `indexable` is still None while file creation is pending ----------------------------------------------------
    # it is decided by the first successful addition, which also creates the files: every store of another value than
    # None lies on paths that leave the state before the method returns, or is undone by a handler that puts a saved
    # copy back before the exception leaves.  Shown per store; when it cannot be shown the attribute is unknown.
    def indexable_invariant(facts) -> bool:
        if facts.get('self.indexable', _UNKNOWN) is not None:
            return False
        env = {k: v for k, v in facts.items() if k != 'self.indexable'}
        for name, fi in meths.items():
            if name == '__init__':
                continue
            sts = [x for x in walk_no_nested(fi.node) if isinstance(x, ast.stmt) and touches(x, 'indexable') is not None]
            sts = [x for x in sts if not (isinstance(touches(x, 'indexable'), ast.Constant) and touches(x, 'indexable').value is None)]
            if not sts:
                continue
            g = CFG(fi.node)

            def restores(s_):
                v = touches(s_, 'indexable') if isinstance(s_, ast.stmt) else None
                if isinstance(v, ast.Name):
                    d = single_def_value(fi.node, v.id)
                    return d is not None and norm(d) == 'self.indexable'
                return False

            def ok_edge(a, b, lab):
                n = g.nodes[a]
                if n.kind == 'test' and lab in ('t', 'f'):
                    t = _truth(n.stmt.test, env, cls)
                    if t is not None and t != (lab == 't'):
                        return False
                if n.kind == 'stmt' and n.stmt is not None and lab != 'e' and (attaches(n.stmt) or restores(n.stmt)):
                    return False
                if lab == 'e' and n.kind == 'stmt' and n.stmt is not None and not isinstance(n.stmt, ast.Raise) \
                        and _in_reraising_handler(n.stmt):
                    return False        # a clean-up statement that fails itself is not this rule's concern
                return True
            live = g._reach(edge_ok=ok_edge)
            for s_ in sts:
                if restores(s_):
                    continue
                for nid in g.nodes_of(s_):
                    # (an exception raised by the store itself means it did not happen)
                    after = [b for b, lab in g.succ[nid] if lab != 'e' and ok_edge(nid, b, lab)]
                    if nid in live and any(b == x or g.reaches(b, x, edge_ok=ok_edge) for b in after
                                           for x in (g.exit, g.raise_exit)):
                        # recorded in the evidence: why `indexable` is not taken as None while creation is pending
                        ctx.stats[f'{rule}.indexable_not_invariant'] = f'{name}: `{norm(s_)[:60]}` (line {s_.lineno}) can ' \
                            'leave the method with the store still without a file'
                        return False
        return True

    def analyse(fi, sname, killed: frozenset):
        what, facts = states[sname]
        g = CFG(fi.node)
        params = set(fi.params)

        _stored: dict[int, set] = {}

        def stored_attrs(n):
            if n.id not in _stored:
                _stored[n.id] = _stored_attrs(n)
            return _stored[n.id]

        def _stored_attrs(n):
            out = set()
            if n.kind != 'stmt' or n.stmt is None:
                return out
            for a in facts:
                attr = a[5:]
                for x in [n.stmt] + calls_in(n.stmt):
                    v = touches(x, attr)
                    if v is None:
                        continue
                    same = v is not True and isinstance(v, ast.Constant) and facts[a] is not _UNKNOWN \
                        and not isinstance(facts[a], _SomeObject) and v.value is facts[a]
                    if not same:
                        out.add(a)
                if any(isinstance(c.func, ast.Attribute) and norm(c.func.value) == a and c.func.attr in ('clear',)
                       for c in calls_in(n.stmt)) and not (isinstance(facts[a], (dict, tuple, list)) and not facts[a]):
                    out.add(a)
            return out
        kin, _ = g.forward(frozenset(killed), lambda n, st: st | frozenset(stored_attrs(n)), lambda a, b: a | b)

        consts: dict[str, object] = {}
        certain: set[int] = set()       # nodes whose statement dereferences file-only state that is known to be absent

        def env_at(nid):
            k = kin.get(nid, frozenset(killed))
            env = {a: v for a, v in facts.items() if a not in k and v is not _UNKNOWN}
            env.update(consts)
            return env

        _edges: dict[tuple, bool] = {}

        def ok_edge(a, b, lab):
            k = (a, b, lab, len(certain), repr(sorted(consts.items())) if consts else '')
            if k not in _edges:
                _edges[k] = _ok_edge(a, b, lab)
            return _edges[k]

        def _ok_edge(a, b, lab):
            n = g.nodes[a]
            s_ = n.stmt
            if s_ is None:
                return True
            env = env_at(a)
            if n.kind == 'test' and lab in ('t', 'f'):
                t = _truth(s_.test, env, cls)
                if t is not None and t != (lab == 't'):
                    return False
            if n.kind == 'iter' and lab == 't':
                v = _value(s_.iter, env, cls)
                if isinstance(v, (tuple, list, dict, set)) and not v:
                    return False
            if n.kind == 'stmt' and lab != 'e':
                if attaches(s_):
                    return False
                if isinstance(s_, ast.Assert) and _truth(s_.test, env, cls) is False:
                    return False
                if a in certain:
                    return False        # the statement fails for certain in this state: nothing after it runs
            return True

        def defs_in(live):
            """{local: set of constant values | {_UNKNOWN}} over the statements of the feasible nodes"""
            out: dict[str, list] = {}

            def put(name, v):
                out.setdefault(name, []).append(v)
            for nid in live:
                n = g.nodes[nid]
                s_ = n.stmt
                if s_ is None or n.kind in ('finally', 'dispatch', 'join'):
                    continue
                if n.kind == 'stmt':
                    if isinstance(s_, (ast.Assign, ast.AnnAssign)) and s_.value is not None:
                        ts = s_.targets if isinstance(s_, ast.Assign) else [s_.target]
                        for t in ts:
                            if isinstance(t, ast.Name):
                                # a constant, or a value the state determines (`linked = self.nc_linked`): the local
                                # keeps what it was given
                                k = kin.get(nid, frozenset(killed))
                                put(t.id, s_.value.value if isinstance(s_.value, ast.Constant) else
                                    _value(s_.value, {a: v for a, v in facts.items() if a not in k and v is not _UNKNOWN}, cls))
                            else:
                                for nme in assigned_names(t):
                                    put(nme, _UNKNOWN)
                    else:
                        for x in walk_no_nested(s_):
                            if isinstance(x, ast.Name) and isinstance(x.ctx, (ast.Store, ast.Del)):
                                put(x.id, _UNKNOWN)
                    for x in walk_no_nested(s_):
                        if isinstance(x, ast.NamedExpr):
                            put(x.target.id, _UNKNOWN)
                elif n.kind == 'iter':
                    if any(ok_edge(nid, b, lab) for b, lab in g.succ[nid] if lab == 't'):
                        for nme in assigned_names(s_.target):
                            put(nme, _UNKNOWN)
                elif n.kind == 'with':
                    for it in s_.items:
                        if it.optional_vars is not None:
                            for nme in assigned_names(it.optional_vars):
                                put(nme, _UNKNOWN)
                elif n.kind == 'except':
                    if getattr(s_, 'name', None):
                        put(s_.name, _UNKNOWN)
                else:
                    for x in ast.walk(s_) if n.kind in ('match', 'case') else []:
                        for f in ('name', 'rest'):
                            if isinstance(getattr(x, f, None), str):
                                put(getattr(x, f), _UNKNOWN)
                    for h in ([s_.test] if n.kind == 'test' else []):
                        for x in walk_no_nested(h):
                            if isinstance(x, ast.NamedExpr):
                                put(x.target.id, _UNKNOWN)
            return out

        # feasible nodes and single-constant locals, to a fixed point (each round can only shrink the feasible set)
        live = g._reach(edge_ok=ok_edge)
        for _ in range(6):
            new = {}
            for name, vs in defs_in(live).items():
                if name in params or any(v is _UNKNOWN for v in vs):
                    continue
                if isinstance(vs[0], _SomeObject):
                    continue
                if all(v is vs[0] or (type(v) is type(vs[0]) and v == vs[0]) for v in vs):
                    new[name] = vs[0]
            if new == consts:
                break
            consts.clear()
            consts.update(new)
            live = g._reach(edge_ok=ok_edge)

        loopvars = set()
        keyed = {t.id for t, st, how in stores_to(fi.node) if isinstance(t, ast.Name) and getattr(st, 'value', None) is not None
                 and any(norm(x) in ('self._nc', 'self._nc_files') for x in ast.walk(st.value))}
        for x in walk_no_nested(fi.node):
            if isinstance(x, (ast.For, ast.comprehension)) and (any(norm(y) in ('self._nc', 'self._nc_files') for y in ast.walk(x.iter))
                                                                or (isinstance(x.iter, ast.Name) and x.iter.id in keyed)):
                loopvars |= {y.id for y in ast.walk(x.target) if isinstance(y, ast.Name)}

        crashes, calls = [], []

        def scan(x, env, nid):
            """dereferences and self-calls in the parts of x that are evaluated in this state"""
            if isinstance(x, (ast.FunctionDef, ast.AsyncFunctionDef, ast.Lambda, ast.ClassDef)):
                return
            if isinstance(x, ast.IfExp):
                t = _truth(x.test, env, cls)
                scan(x.test, env, nid)
                for pol, br in ((True, x.body), (False, x.orelse)):
                    if t is None or t == pol:
                        scan(br, env, nid)
                return
            if isinstance(x, ast.BoolOp):
                for v in x.values:
                    scan(v, env, nid)
                    t = _truth(v, env, cls)
                    if t is not None and t == isinstance(x.op, ast.Or):
                        break           # short circuit: the rest is not evaluated
                return
            if isinstance(x, (ast.ListComp, ast.SetComp, ast.GeneratorExp, ast.DictComp)):
                scan(x.generators[0].iter, env, nid)
                v = _value(x.generators[0].iter, env, cls)
                if isinstance(v, (tuple, list, dict, set)) and not v:
                    return
                for i, gen in enumerate(x.generators):
                    if i:
                        scan(gen.iter, env, nid)
                    for c in gen.ifs:
                        scan(c, env, nid)
                for y in ([x.key, x.value] if isinstance(x, ast.DictComp) else [x.elt]):
                    scan(y, env, nid)
                return
            if isinstance(x, ast.Subscript) and isinstance(x.ctx, ast.Load) and norm(x.value) == 'self._nc' \
                    and not (isinstance(x.slice, ast.Name) and x.slice.id in loopvars):
                crashes.append((x, nid, f'self._nc[{norm(x.slice)}]', 'self._nc is empty there (KeyError)'))
                if env.get('self._nc', _UNKNOWN) == {} and g.nodes[nid].kind == 'stmt':
                    certain.add(nid)
            if isinstance(x, ast.Attribute) and isinstance(x.ctx, ast.Load) and norm(x.value) == 'self.index_group':
                crashes.append((x, nid, f'self.index_group.{x.attr}', 'self.index_group is None there'))
                if 'self.index_group' in env and env['self.index_group'] is None and g.nodes[nid].kind == 'stmt':
                    certain.add(nid)
            if isinstance(x, ast.Call) and call_name(x).startswith('self.') and call_name(x)[5:] in meths \
                    and call_name(x).count('.') == 1:
                calls.append((x, nid, call_name(x)[5:]))
            for c in ast.iter_child_nodes(x):
                scan(c, env, nid)

        def scan_live(live):
            for nid in sorted(live):
                n = g.nodes[nid]
                if n.stmt is None or n.kind in ('finally', 'dispatch', 'join', 'except'):
                    continue
                env = env_at(nid)
                heads = {'stmt': [n.stmt], 'test': [getattr(n.stmt, 'test', None)], 'iter': [getattr(n.stmt, 'iter', None)],
                         'with': [i.context_expr for i in getattr(n.stmt, 'items', [])],
                         'match': [getattr(n.stmt, 'subject', None)]}.get(n.kind, [])
                for h in heads:
                    if h is None:
                        continue
                    if isinstance(h, ast.Assert):
                        if _truth(h.test, env, cls) is False:
                            why = [f'{k} is {v!r}' for k, v in consts.items() if any(_is_name(y, k) for y in ast.walk(h.test))]
                            crashes.append((h, nid, f'assert {norm(h.test)}',
                                            'the assertion is false there'
                                            + (f' ({", ".join(why)}: the loops over the attached files that would set it do '
                                               f'not run)' if why else '') + ': AssertionError'))
                        scan(h.test, env, nid)
                        continue
                    scan(h, env, nid)

        # a statement that fails for certain ends its path: to a fixed point (each round can only shrink the feasible set)
        for _ in range(8):
            before = set(certain)
            live = g._reach(edge_ok=ok_edge)
            del crashes[:], calls[:]
            scan_live(live)
            if certain == before:
                break

        def passed(node_id):
            """the tests that every feasible path to the node has passed and that have a definite value in this state
            (why such a store gets there)"""
            out = []
            dom = doms()
            for d in sorted(dom.get(node_id, ()), key=lambda i: g.nodes[i].line):
                n = g.nodes[d]
                if n.kind == 'test' and d != node_id:
                    t = _truth(n.stmt.test, env_at(d), cls)
                    if t is not None:
                        out.append((norm(n.stmt.test) if t else f'not ({norm(n.stmt.test)})', n.line))
            return out
        _dom = []

        def doms():
            if not _dom:
                _dom.append(g.dominators(edge_ok=ok_edge))
            return _dom[0]
        return crashes, calls, {nid: kin.get(nid, frozenset(killed)) for nid in live}, passed

    if entries is None:
        entries = [k for k, v in meths.items() if not is_static(v) and (not k.startswith('_') or (k.startswith('__') and k != '__init__'))]
    n_bad, examined = 0, set()
    for sname in states:
        what, facts = states[sname]
        if sname == 'creation pending' and not indexable_invariant(facts):
            facts['self.indexable'] = _UNKNOWN
        if sname != 'creation pending':
            facts['self.indexable'] = _UNKNOWN          # decided by the first addition; the state lasts beyond it
        summ = {}
        exposed: dict[tuple, list] = {}
        work = []
        for e in sorted(entries):
            if e in meths:
                exposed[(e, frozenset())] = [(e, None, [])]
                work.append((e, frozenset()))
        reported = set()
        while work:
            key = work.pop(0)
            f, killed = key
            if key not in summ:
                summ[key] = analyse(meths[f], sname, killed)
            examined.add(f)
            crashes, calls, kills, passed = summ[key]
            for c, nid, callee in calls:
                k2 = (callee, frozenset(kills.get(nid, killed)))
                if k2 not in exposed and not is_static(meths[callee]):
                    exposed[k2] = exposed[key] + [(callee, c.lineno, passed(nid))]
                    work.append(k2)
            for x, nid, txt, why in crashes:
                if (f, id(x)) in reported:
                    continue
                reported.add((f, id(x)))
                n_bad += 1
                hops = exposed[key]
                names = [h[0] for h in hops]
                # the construct to report: where a test let this state through (the guard that is wrong for it), else
                # the statement that fails
                let = [(hops[i - 1][0], ln, gs) for i, (nm, ln, gs) in enumerate(hops) if i and gs]
                own = passed(nid)
                if own:
                    let.append((f, x.lineno, own))
                where, line = (meths[let[-1][0]], let[-1][1]) if let else (meths[f], x.lineno)
                through = '; '.join(f'in {fn} the test `{t}` (line {tl}) lets such a store through' for fn, ln, gs in let
                                    for t, tl in gs)
                tail = ('an index beyond the end is not reported as out of range (IndexError) but crashes' if names[0] == '__getitem__'
                        else 'the operation fails on a store that has no file yet')
                ctx.ob(rule, where, f'{txt} reachable without an attached file (via {" → ".join(names)}; {sname})', False,
                       f'on {what} `{names[0]}` reaches `{txt}` (line {x.lineno} of {f}) with no test that files are attached: '
                       f'{why}' + (f'; {through}' if through else '') + f' — {tail}', line=line, path=names)
    ctx.ob(rule, (m.relpath, 'TrajectoryStore'), f'{len(examined)} methods reachable from {len(entries)} entry points in '
           f'{len(states)} states without a file; {n_bad} unprotected dereference(s) of file-only state', n_bad == 0,
           'every dereference of self._nc[…] / self.index_group and every assertion about loaded data is behind a test that '
           'files are attached' if n_bad == 0 else 'see above', nontrivial=False)
    ctx.floor(rule, len(examined), 10, 'methods examined for the file-link typestate')
    ctx.stats[f'{rule}.attaching_methods'] = sorted(attach)
    ctx.stats[f'{rule}.states'] = {k: {a: repr(v) for a, v in f.items()} for k, (w, f) in states.items()}


# ======================================================================================================
# Symbolic path enumeration (shared by C07 and C09; lives here because both modules belong to one owner)
# ======================================================================================================
#
# `Sym(prog, fi).run(target)` walks every path through a function *structurally* (if / guard clause / early return /
# conditional expression / tuple packing and unpacking / walrus / private helpers of the same module, which are
# entered and summarised per return path) and keeps, per path,
#   env    local name (and `self.attr` written on the path) -> expression over the function's inputs,
#   facts  the branch conditions the path took, in a canonical spelling (`not`, `!=`, `is not`, `>=`, `>`, `<=`
#          folded into `==`, `is`, `<` plus a polarity).
# A rule then asks *which value reaches which use under which conditions* instead of looking for a statement shape.
# Loop bodies are walked once from a state in which everything the loop assigns is unknown; a statement that may
# change heap state (store, mutating or unknown call) forgets the facts and values that read that state.  What a
# summarised helper changed through one of its parameters is forgotten for the variables of the argument bound to it
# (the callee's own names mean nothing to the caller).  A conditional expression anywhere in an evaluated position of a
# value forks the path like an `if` statement.

_PURE_FUNCS = {'len', 'set', 'list', 'tuple', 'dict', 'sorted', 'frozenset', 'Path', 'getattr', 'isinstance', 'int',
               'float', 'str', 'abs', 'min', 'max', 'sum', 'range', 'enumerate', 'zip', 'bool', 'type', 'hasattr',
               'reversed', 'round', 'any', 'all', 'repr', 'id', 'slice', 'iter', 'next', 'hash', 'callable',
               'issubclass', 'divmod', 'ord', 'chr'}
_PURE_ROOTS = {'bisect', 'math', 'np', 'numpy', 'itertools', 'operator', 'os.path', 'functools'}
_PURE_METHODS = {'keys', 'values', 'items', 'get', 'copy', 'index', 'count', 'lower', 'upper', 'strip', 'split',
                 'startswith', 'endswith', 'format', 'join', 'bisect_left', 'bisect_right', 'bisect', 'accumulate'}


_CONSTRUCTED = (ast.List, ast.Dict, ast.Set, ast.Tuple, ast.ListComp, ast.DictComp, ast.SetComp, ast.Call)


class SymUndecided(Exception):
    pass


def _base_id(name: str) -> str:
    return name.split('@')[0]


def chain_root(e: ast.AST) -> ast.Name | None:
    while isinstance(e, (ast.Attribute, ast.Subscript, ast.Starred)):
        e = e.value
    return e if isinstance(e, ast.Name) else None


def mentions_heap(e: ast.AST, root: str) -> bool:
    """does e read heap state reachable from the variable `root` (attribute / element / call argument / container
    membership)?  A bare use of the variable itself is not a heap read; a comprehension or lambda variable of the
    same name is a different variable."""
    def free_names(n, bound):
        if isinstance(n, (ast.ListComp, ast.SetComp, ast.GeneratorExp, ast.DictComp)):
            inner = set(bound)
            for g in n.generators:
                inner |= set(assigned_names(g.target))
            for i, g in enumerate(n.generators):
                yield from free_names(g.iter, bound if i == 0 else inner)
                for x in g.ifs:
                    yield from free_names(x, inner)
            for x in ([n.key, n.value] if isinstance(n, ast.DictComp) else [n.elt]):
                yield from free_names(x, inner)
            return
        if isinstance(n, ast.Lambda):
            a = n.args
            yield from free_names(n.body, bound | {x.arg for x in a.posonlyargs + a.args + a.kwonlyargs})
            return
        if isinstance(n, ast.Name):
            if n.id not in bound:
                yield n
            return
        for c in ast.iter_child_nodes(n):
            yield from free_names(c, bound)

    def reads(n, bound) -> bool:
        if isinstance(n, (ast.ListComp, ast.SetComp, ast.GeneratorExp, ast.DictComp)):
            inner = set(bound)
            for g in n.generators:
                inner |= set(assigned_names(g.target))
            parts = []
            for i, g in enumerate(n.generators):
                parts.append((g.iter, bound if i == 0 else inner))
                parts += [(x, inner) for x in g.ifs]
            parts += [(x, inner) for x in ([n.key, n.value] if isinstance(n, ast.DictComp) else [n.elt])]
            return any(reads(x, b) for x, b in parts)
        if isinstance(n, ast.Lambda):
            a = n.args
            return reads(n.body, bound | {x.arg for x in a.posonlyargs + a.args + a.kwonlyargs})
        if root not in bound:
            if isinstance(n, (ast.Attribute, ast.Subscript)):
                r = chain_root(n)
                if r is not None and _base_id(r.id) == root:
                    return True
            elif isinstance(n, ast.Call):
                if any(_base_id(x.id) == root for a in list(n.args) + [k.value for k in n.keywords]
                       for x in free_names(a, bound)):
                    return True
            elif isinstance(n, ast.Compare) and any(isinstance(o, (ast.In, ast.NotIn)) for o in n.ops):
                if any(_base_id(x.id) == root for c in n.comparators for x in free_names(c, bound)):
                    return True
        return any(reads(c, bound) for c in ast.iter_child_nodes(n))

    return reads(e, frozenset())


def canon_fact(e: ast.expr, pol: bool = True) -> tuple[str, bool, ast.expr]:
    """canonical (text, polarity, expr) of the fact `e has truth value pol`"""
    while isinstance(e, ast.UnaryOp) and isinstance(e.op, ast.Not):
        e, pol = e.operand, not pol
    if isinstance(e, ast.Compare) and len(e.ops) == 1:
        op, a, b = e.ops[0], e.left, e.comparators[0]
        new = None
        if isinstance(op, ast.IsNot):
            new, pol = (ast.Is(), a, b), not pol
        elif isinstance(op, ast.NotEq):
            new, pol = (ast.Eq(), a, b), not pol
        elif isinstance(op, ast.NotIn):
            new, pol = (ast.In(), a, b), not pol
        elif isinstance(op, ast.GtE):
            new, pol = (ast.Lt(), a, b), not pol
        elif isinstance(op, ast.Gt):
            new = (ast.Lt(), b, a)
        elif isinstance(op, ast.LtE):
            new, pol = (ast.Lt(), b, a), not pol
        if new is not None:
            op, a, b = new
        if isinstance(op, (ast.Is, ast.Eq)):
            # symmetric: constants to the right, otherwise by text
            ka, kb = (isinstance(a, ast.Constant), norm(a)), (isinstance(b, ast.Constant), norm(b))
            if ka > kb:
                a, b = b, a
        e = ast.Compare(left=a, ops=[op], comparators=[b])
    return norm(e), pol, e


def _noneness(e: ast.expr):
    """True: e is None; False: e is certainly not None; None: unknown"""
    if isinstance(e, ast.Constant):
        return e.value is None
    if isinstance(e, (ast.Tuple, ast.List, ast.Dict, ast.Set, ast.ListComp, ast.DictComp, ast.SetComp, ast.GeneratorExp,
                      ast.JoinedStr, ast.Lambda, ast.Compare)):
        return False
    if isinstance(e, ast.BinOp):
        return False
    return None


# ---- classes of symbolic values: members of record / helper classes of the module are opened ---------------------------
#
# A value over the function's inputs (`self._nc[fs]`, `self._open_nc_file(p)`, `Cls(...)`) has a class when the
# annotations say so: attribute annotations (`self._nc: dict[str, NcFiles]`, dataclass fields), element types of
# annotated containers, constructor calls, return annotations of methods.  Of a class *other than the one the rules
# speak about* (the class of the analysed function) a read-only single-expression `@property` is its expression over
# the same object, and an effect-free method is entered like a private helper.  A `cached_property` is not opened: it
# is a stored copy of its expression (see `cached_member`).

_MAP_ANN = {'dict', 'Dict', 'Mapping', 'MutableMapping', 'defaultdict', 'DefaultDict', 'OrderedDict'}
_SEQ_ANN = {'list', 'List', 'Sequence', 'MutableSequence', 'set', 'Set', 'frozenset', 'FrozenSet', 'Iterable', 'Iterator',
            'Collection', 'deque', 'Deque'}


def _parse_ann(ann):
    if isinstance(ann, ast.Constant) and isinstance(ann.value, str):
        try:
            return ast.parse(ann.value, mode='eval').body
        except SyntaxError:
            return None
    return ann


def _ann_to_class(prog, m, ann):
    """class an annotation names (Optional / `| None` looked through; a class nested in a class of the module may be
    named by its last component inside that class)"""
    ann = _parse_ann(ann)
    if ann is None:
        return None
    if isinstance(ann, ast.BinOp) and isinstance(ann.op, ast.BitOr):
        return _ann_to_class(prog, m, ann.left) or _ann_to_class(prog, m, ann.right)
    if isinstance(ann, ast.Subscript):
        if (dotted_name(ann.value) or '').split('.')[-1] == 'Optional':
            return _ann_to_class(prog, m, ann.slice)
        return None
    c = prog.resolve_class_expr(m, ann)
    if c is None and isinstance(ann, ast.Name):
        cands = [k for n, k in m.classes.items() if n.split('.')[-1] == ann.id]
        c = cands[0] if len(cands) == 1 else None
    return c


def _ann_elem(ann):
    """annotation of the elements (values, for a mapping) of a container annotation, or None"""
    ann = _parse_ann(ann)
    if isinstance(ann, ast.BinOp) and isinstance(ann.op, ast.BitOr):
        return _ann_elem(ann.left) or _ann_elem(ann.right)
    if not isinstance(ann, ast.Subscript):
        return None
    base = (dotted_name(ann.value) or '').split('.')[-1]
    if base == 'Optional':
        return _ann_elem(ann.slice)
    if base in _MAP_ANN:
        return ann.slice.elts[-1] if isinstance(ann.slice, ast.Tuple) and len(ann.slice.elts) == 2 else None
    if base in _SEQ_ANN:
        return ann.slice if not isinstance(ann.slice, ast.Tuple) else None
    if base in ('tuple', 'Tuple') and isinstance(ann.slice, ast.Tuple) and len(ann.slice.elts) == 2 \
            and isinstance(ann.slice.elts[1], ast.Constant) and ann.slice.elts[1].value is Ellipsis:
        return ann.slice.elts[0]
    return None


def _attr_annotation(owner, attr: str):
    """(annotation, module) of `<object of owner>.<attr>`: a class-level field, or `self.<attr>: T = …` in a method"""
    for c in owner.mro():
        flds = c.annotated_fields()
        if attr in flds:
            return flds[attr], c.module
    for c in owner.mro():
        for meth in c.methods.values():
            if not meth.params:
                continue
            for n in walk_no_nested(meth.node):
                if isinstance(n, ast.AnnAssign) and isinstance(n.target, ast.Attribute) and n.target.attr == attr \
                        and _is_name(n.target.value, meth.params[0]):
                    return n.annotation, c.module
    return None


def _value_annotation(prog, fi, e: ast.AST, depth: int = 0):
    """(annotation, module) of a symbolic value of function fi, when its declaration can be found"""
    if depth > 6:
        return None
    if isinstance(e, ast.Attribute):
        owner = value_class(prog, fi, e.value, depth + 1)
        if owner is None:
            return None
        a = _attr_annotation(owner, e.attr)
        if a is not None:
            return a
        meth = find_member(owner, e.attr)
        if meth is not None and meth.node.returns is not None \
                and any(d.split('.')[-1] in ('property', 'cached_property') for d in meth.decorators()):
            return meth.node.returns, meth.module
        return None
    if isinstance(e, ast.Subscript):
        a = _value_annotation(prog, fi, e.value, depth + 1)
        if a is not None and not isinstance(e.slice, ast.Slice):
            el = _ann_elem(a[0])
            return (el, a[1]) if el is not None else None
        return None
    if isinstance(e, ast.Name):
        args = fi.node.args
        for arg in args.posonlyargs + args.args + args.kwonlyargs:
            if arg.arg == _base_id(e.id) and arg.annotation is not None:
                return arg.annotation, fi.module
        return None
    if isinstance(e, ast.Call):
        if isinstance(e.func, ast.Attribute):
            owner = value_class(prog, fi, e.func.value, depth + 1)
            meth = find_member(owner, e.func.attr)
            if meth is not None and meth.node.returns is not None:
                return meth.node.returns, meth.module
            # the values of an annotated mapping: `d.get(k)`, `d.pop(k)`, `d.setdefault(k, v)`, `next(iter(d.values()))`
            if e.func.attr in ('get', 'pop', 'setdefault'):
                a = _value_annotation(prog, fi, e.func.value, depth + 1)
                if a is not None and (dotted_name(getattr(_parse_ann(a[0]), 'value', None)) or '').split('.')[-1] in _MAP_ANN:
                    el = _ann_elem(a[0])
                    return (el, a[1]) if el is not None else None
        return None
    return None


def value_class(prog, fi, e: ast.AST, depth: int = 0):
    """class of the object a symbolic value of function fi denotes, as far as annotations and constructors tell"""
    if depth > 6:
        return None
    if isinstance(e, ast.Name):
        if fi.cls is not None and fi.params and _base_id(e.id) == fi.params[0] \
                and not any(d.split('.')[-1] == 'staticmethod' for d in fi.decorators()):
            return fi.cls if not any(d.split('.')[-1] == 'classmethod' for d in fi.decorators()) else None
        # a local (also one whose value the path no longer knows: `name@line`): the class all its definitions agree on
        ds = local_defs(fi.node, _base_id(e.id))
        if ds and not any(_base_id(e.id) == p for p in fi.params):
            found = {}
            for d in ds:
                c = None
                if isinstance(d, ast.AnnAssign) and isinstance(d.target, ast.Name):
                    c = _ann_to_class(prog, fi.module, d.annotation)
                if c is None and isinstance(d, (ast.Assign, ast.AnnAssign)) and d.value is not None \
                        and all(isinstance(t, ast.Name) for t in (d.targets if isinstance(d, ast.Assign) else [d.target])):
                    c = value_class(prog, fi, d.value, depth + 1)
                elif isinstance(d, (ast.For, ast.AsyncFor)) and isinstance(d.target, ast.Name):
                    a = _value_annotation(prog, fi, d.iter, depth + 1)
                    el = _ann_elem(a[0]) if a is not None else None
                    c = _ann_to_class(prog, a[1], el) if el is not None else None
                found[id(c)] = c
            return next(iter(found.values())) if len(found) == 1 else None
    if isinstance(e, ast.BoolOp):
        cs = {id(k): k for k in (value_class(prog, fi, x, depth + 1) for x in e.values)}
        return next(iter(cs.values())) if len(cs) == 1 else None
    if isinstance(e, ast.Call):
        c = prog.resolve_class_expr(fi.module, e.func)
        if c is None and isinstance(e.func, ast.Attribute):
            # a class nested in the receiver's class: `self.NcFiles(...)`
            owner = value_class(prog, fi, e.func.value, depth + 1)
            if owner is not None and find_member(owner, e.func.attr) is None:
                for c2 in owner.mro():
                    c = c or c2.module.classes.get(f'{c2.name}.{e.func.attr}')
        if c is not None:
            return c
    a = _value_annotation(prog, fi, e, depth)
    return _ann_to_class(prog, a[1], a[0]) if a is not None else None


def find_member(cls, name: str):
    """the method `name` of cls through the MRO; also for a class nested in another class (whose methods the loader
    indexes under the qualified name only)"""
    if cls is None:
        return None
    for c in cls.mro():
        if name in c.methods:
            return c.methods[name]
        for key, ci in c.module.classes.items():
            if ci is c:
                fi = c.module.functions.get(f'{key}.{name}')
                if fi is not None and fi.cls is c:
                    return fi
    return None


def _member_kind(cls, attr: str) -> str | None:
    """'property' / 'cached_property' when `cls.<attr>` is one (through the MRO)"""
    meth = find_member(cls, attr)
    if meth is None:
        return None
    for d in meth.decorators():
        k = d.split('.')[-1].split('(')[0]
        if k in ('property', 'cached_property'):
            return k
    return None


def cached_member(prog, fi, e: ast.AST):
    """(class, method) when the symbolic value e reads a `cached_property`: the value computed at the first read is
    stored in the object and returned ever after"""
    if isinstance(e, ast.Attribute):
        cls = value_class(prog, fi, e.value)
        if _member_kind(cls, e.attr) == 'cached_property':
            return cls, find_member(cls, e.attr)
    return None


def record_ctor_fields(prog, fi, c: ast.AST) -> dict[str, ast.expr] | None:
    """field -> argument of a call that constructs a *record* of the program: a dataclass / NamedTuple whose whole
    class chain is in the program and writes no `__init__` / `__new__` / `__post_init__`, so that constructing it does
    nothing but keep the arguments under the field names (defaults: constants only).  None for anything else."""
    if not isinstance(c, ast.Call) or any(isinstance(a, ast.Starred) for a in c.args) or any(k.arg is None for k in c.keywords):
        return None
    try:
        ci = resolve_class_call(prog, fi, c)
    except Exception:
        ci = None
    if ci is None:
        return None
    chain = ci.mro()
    named = False
    for k in chain:
        if any(m_ in k.methods for m_ in ('__init__', '__new__', '__post_init__', '__getattr__', '__getattribute__')):
            return None
        for b in k.base_exprs:
            bn = b.split('[')[0].split('.')[-1]
            if bn == 'NamedTuple':
                named = True
            elif bn not in ('object', 'Generic') and not any(x.name.split('.')[-1] == bn for x in chain):
                return None
    data = all(any((dotted_name(d.func if isinstance(d, ast.Call) else d) or '').split('.')[-1] == 'dataclass'
                   for d in k.node.decorator_list) for k in chain)
    if not (named or data):
        return None
    order, defaults = [], {}
    for k in reversed(chain):
        for st_ in k.node.body:
            if isinstance(st_, ast.AnnAssign) and isinstance(st_.target, ast.Name):
                if 'ClassVar' in ast.unparse(st_.annotation):
                    continue
                if st_.target.id not in order:
                    order.append(st_.target.id)
                if st_.value is not None:
                    defaults[st_.target.id] = st_.value
    if len(c.args) > len(order):
        return None
    out = dict(zip(order, c.args))
    for k in c.keywords:
        if k.arg in out or k.arg not in order:
            return None
        out[k.arg] = k.value
    for f in order:
        if f not in out:
            if not isinstance(defaults.get(f), ast.Constant):
                return None
            out[f] = defaults[f]
    return out


def _effect_free(prog, fn) -> bool:
    """a method that only computes: no stores but to its own local names, no deletions, no calls but of pure builtins /
    mapping reads, no generators"""
    for n in walk_no_nested(fn.node):
        if isinstance(n, (ast.Attribute, ast.Subscript)) and isinstance(n.ctx, (ast.Store, ast.Del)):
            return False
        if isinstance(n, (ast.Global, ast.Nonlocal, ast.Yield, ast.YieldFrom, ast.Await, ast.With, ast.AsyncWith)):
            return False
        if isinstance(n, ast.Call):
            name = call_name(n)
            if not (name in _PURE_FUNCS or any(name == r or name.startswith(r + '.') for r in _PURE_ROOTS)
                    or (isinstance(n.func, ast.Attribute) and n.func.attr in _PURE_METHODS)
                    or record_ctor_fields(prog, fn, n) is not None):
                return False
    return True


class SymState:
    __slots__ = ('env', 'facts', 'epoch', 'clob', 'trace')

    def __init__(self, env=None, facts=None, epoch=None, clob=None, trace=None):
        self.env: dict[str, ast.expr] = dict(env or {})
        self.facts: list[tuple[str, bool, ast.expr]] = list(facts or [])
        self.epoch: dict[str, int] = dict(epoch or {})
        self.clob: set[str] = set(clob or ())
        # what may have changed heap state on this path, in order: (kind, node, the node over the function's inputs,
        # function the node stands in); kind 'call' (impure call), 'store' (element store), 'del' (element removal)
        self.trace: list[tuple[str, ast.AST, ast.AST, object]] = list(trace or [])

    def fork(self) -> 'SymState':
        return SymState(self.env, self.facts, self.epoch, self.clob, self.trace)

    def fact(self, text: str):
        """polarity of the canonical fact `text` on this path, or None"""
        for k, p, _ in self.facts:
            if k == text:
                return p
        return None

    def holds(self, e: ast.expr | str, pol: bool = True) -> bool:
        if isinstance(e, str):
            e = ast.parse(e, mode='eval').body
        k, p, _ = canon_fact(e, pol)
        return self.fact(k) == p


class SymHit:
    def __init__(self, node, state, sym):
        self.node, self.state, self.sym = node, state, sym

    def ev(self, e: ast.expr) -> ast.expr:
        return self.sym.ev(e, self.state.fork())


class Sym:
    def __init__(self, prog, fi, depth: int = 0, parent: 'Sym | None' = None, cap: int = 600):
        self.prog, self.fi, self.depth, self.cap = prog, fi, depth, cap
        self.hits: list[SymHit] = parent.hits if parent else []
        self.raises: list = parent.raises if parent else []       # (state, exc expr | None, stmt, sym)
        self.returns: list[tuple[SymState, ast.expr | None, ast.stmt | None]] = []
        self.target = parent.target if parent else None
        self.origin: dict[str, object] = parent.origin if parent else {}      # unknown-value symbol -> function
        self.opaque: set[str] = parent.opaque if parent else set()            # helpers that are not entered
        self.recv = None
        if fi.cls is not None and fi.params and not any(d.split('.')[-1] == 'staticmethod' for d in fi.decorators()):
            self.recv = fi.params[0]
        self.rootfi = parent.rootfi if parent else fi       # symbolic values are expressions over its inputs
        # private methods called on the same receiver are entered only on request (the loader has inlined the helpers
        # that were extracted from the reference function; entering all the others costs minutes)
        self.enter_methods = parent.enter_methods if parent else False
        self._cls_memo: dict = parent._cls_memo if parent else {}
        self._locals = set(fi.params) | {x.id for x in walk_no_nested(fi.node) if isinstance(x, ast.Name)
                                         and isinstance(x.ctx, (ast.Store, ast.Del))}
        if parent is not None:
            self._locals |= parent._locals

    # ---- driver ----------------------------------------------------------------------------------------
    def run(self, target=None, init: SymState | None = None) -> 'Sym':
        if target is not None:
            self.target = target
        outs = self.block(self.fi.node.body, [init or SymState()])
        for s in outs:
            self.returns.append((s, ast.Constant(value=None), None))
        return self

    def block(self, stmts, states):
        for s in stmts:
            nxt = []
            for st in states:
                nxt += self.stmt(s, st)
            states = nxt
            if len(states) > self.cap:
                raise SymUndecided(f'{self.fi.qualname}: more than {self.cap} paths')
            if not states:
                break
        return states

    # ---- expressions -----------------------------------------------------------------------------------
    def ev(self, e: ast.expr, st: SymState) -> ast.expr:
        sym = self

        class T(ast.NodeTransformer):
            def __init__(self):
                self.bound: list[set[str]] = []

            def is_bound(self, name):
                return any(name in b for b in self.bound)

            def visit_Name(self, n):
                if isinstance(n.ctx, ast.Load) and not self.is_bound(n.id) and n.id in st.env:
                    return copy.deepcopy(st.env[n.id])
                return n

            def root(self, n: ast.Name):
                if self.is_bound(n.id):
                    return n
                if n.id in st.env:
                    return copy.deepcopy(st.env[n.id])
                ep = st.epoch.get(n.id, 0)
                return ast.Name(id=f'{n.id}@e{ep}', ctx=ast.Load()) if ep else n

            def visit_Attribute(self, n):
                if isinstance(n.value, ast.Name):
                    if sym.recv is not None and n.value.id == sym.recv and not self.is_bound(sym.recv):
                        key = f'{sym.recv}.{n.attr}'
                        if key in st.env and isinstance(n.ctx, ast.Load):
                            return copy.deepcopy(st.env[key])
                    n.value = self.root(n.value)
                    return self.project(n)
                n.value = self.visit(n.value)
                return self.project(n)

            def project(self, n):
                # a field of a record of the program constructed on this path is the argument it was constructed with
                if isinstance(n.value, ast.Call) and isinstance(n.ctx, ast.Load):
                    flds = sym.record_fields(n.value)
                    if flds is not None and n.attr in flds:
                        return copy.deepcopy(flds[n.attr])
                return n

            def visit_Subscript(self, n):
                n.value = self.root(n.value) if isinstance(n.value, ast.Name) else self.visit(n.value)
                n.slice = self.visit(n.slice)
                if isinstance(n.value, ast.Tuple) and isinstance(n.slice, ast.Constant) and isinstance(n.slice.value, int) \
                        and -len(n.value.elts) <= n.slice.value < len(n.value.elts) \
                        and not any(isinstance(x, ast.Starred) for x in n.value.elts):
                    return n.value.elts[n.slice.value]
                return n

            def visit_NamedExpr(self, n):
                v = self.visit(n.value)
                st.env[n.target.id] = v
                return copy.deepcopy(v)

            def visit_IfExp(self, n):
                n.test = self.visit(n.test)
                t = sym.truth(n.test, st)
                if t is True:
                    return self.visit(n.body)
                if t is False:
                    return self.visit(n.orelse)
                n.body, n.orelse = self.visit(n.body), self.visit(n.orelse)
                return n

            def _comp(self, n):
                names = set()
                for g in n.generators:
                    names |= set(assigned_names(g.target))
                # the first iterable is evaluated outside the comprehension's scope
                n.generators[0].iter = self.visit(n.generators[0].iter)
                self.bound.append(names)
                for i, g in enumerate(n.generators):
                    if i:
                        g.iter = self.visit(g.iter)
                    g.ifs = [self.visit(x) for x in g.ifs]
                if isinstance(n, ast.DictComp):
                    n.key, n.value = self.visit(n.key), self.visit(n.value)
                else:
                    n.elt = self.visit(n.elt)
                self.bound.pop()
                return n

            visit_ListComp = visit_SetComp = visit_GeneratorExp = visit_DictComp = _comp

            def visit_Lambda(self, n):
                a = n.args
                self.bound.append({x.arg for x in a.posonlyargs + a.args + a.kwonlyargs}
                                  | ({a.vararg.arg} if a.vararg else set()) | ({a.kwarg.arg} if a.kwarg else set()))
                n.body = self.visit(n.body)
                self.bound.pop()
                return n

        return self.open_members(T().visit(copy.deepcopy(e)))

    # ---- members of other classes of the module ----------------------------------------------------------
    def _member_names(self) -> set[str]:
        memo = self._cls_memo
        if '#props' not in memo:
            memo['#props'] = {meth.name for meth in self.rootfi.module.functions.values() if meth.cls is not None
                              and any(d.split('.')[-1] == 'property' for d in meth.decorators())}
        return memo['#props']

    def record_fields(self, c: ast.AST):
        if not isinstance(c, ast.Call):
            return None
        key = '#rec:' + norm(c)
        if key not in self._cls_memo:
            self._cls_memo[key] = record_ctor_fields(self.prog, self.rootfi, c)
        return self._cls_memo[key]

    def class_of(self, v: ast.AST):
        """class of a symbolic value, unless that is the class the rules speak about (whose members are the rules'
        vocabulary and stay as they are written)"""
        key = norm(v)
        if key not in self._cls_memo:
            try:
                c = value_class(self.prog, self.rootfi, v)
            except Exception:
                c = None
            if c is not None and (c is self.rootfi.cls or c.name in VOCAB_CLASSES):
                c = None
            self._cls_memo[key] = c
        return self._cls_memo[key]

    def open_members(self, e: ast.expr, depth: int = 0) -> ast.expr:
        """reads of single-expression `@property` members of record / helper classes are the property's expression
        over the same object"""
        props = self._member_names()
        if depth > 3 or not props or not any(isinstance(x, ast.Attribute) and x.attr in props for x in ast.walk(e)):
            return e
        sym = self

        class O(ast.NodeTransformer):
            def visit_Attribute(self, n):
                self.generic_visit(n)
                if n.attr in props and isinstance(n.ctx, ast.Load):
                    cls = sym.class_of(n.value)
                    if cls is not None and _member_kind(cls, n.attr) == 'property':
                        pv = property_value(cls, n.attr)
                        if pv is not None:
                            body, r = copy.deepcopy(pv[0]), pv[1]
                            obj = n.value

                            class S(ast.NodeTransformer):
                                def visit_Name(self, x):
                                    return copy.deepcopy(obj) if x.id == r else x
                            return sym.open_members(S().visit(body), depth + 1)
                return n
        return O().visit(e)

    def truth(self, e: ast.expr, st: SymState):
        """static truth value of an (already substituted) test on this path: True / False / None"""
        k, pol, ce = canon_fact(e, True)
        p = st.fact(k)
        if p is not None:
            return p == pol
        if isinstance(e, ast.Constant):
            return bool(e.value)
        if isinstance(e, (ast.Tuple, ast.List, ast.Set)):
            return bool(e.elts)
        if isinstance(e, ast.Dict):
            return bool(e.keys)
        if isinstance(e, ast.UnaryOp) and isinstance(e.op, ast.Not):
            t = self.truth(e.operand, st)
            return None if t is None else not t
        if isinstance(e, ast.BoolOp):
            ts = [self.truth(v, st) for v in e.values]
            if isinstance(e.op, ast.And):
                return False if any(t is False for t in ts) else (True if all(t is True for t in ts) else None)
            return True if any(t is True for t in ts) else (False if all(t is False for t in ts) else None)
        if isinstance(ce, ast.Compare) and isinstance(ce.ops[0], (ast.Is, ast.Eq)):
            a, b = ce.left, ce.comparators[0]
            if isinstance(b, ast.Constant) and b.value is None:
                nn = _noneness(a)
                if nn is None and self.record_fields(a) is not None:
                    nn = False          # a record that was just constructed
                if nn is not None:
                    return nn == pol
            if isinstance(a, ast.Constant) and isinstance(b, ast.Constant) and isinstance(ce.ops[0], ast.Eq):
                return (a.value == b.value) == pol
            if norm(a) == norm(b) and not any(isinstance(x, ast.Call) for x in ast.walk(a)):
                return pol
        return None

    def assume(self, st: SymState, test: ast.expr, pol: bool) -> bool:
        """add `test is pol` to the path; False when the path is infeasible"""
        for a, p in conjuncts(test, pol):
            t = self.truth(a, st)
            if t is not None:
                if t != p:
                    return False
                continue
            while isinstance(a, ast.UnaryOp) and isinstance(a.op, ast.Not):
                a, p = a.operand, not p
            if isinstance(a, ast.BoolOp) and (isinstance(a.op, ast.Or) == p):
                # a disjunction known true / a conjunction known false: drop the members already decided
                rem = [v for v in a.values if self.truth(v, st) is None]
                if len(rem) == 1:
                    if not self.assume(st, rem[0], p):
                        return False
                    continue
            st.facts.append(canon_fact(a, p))
        return True

    # ---- heap -----------------------------------------------------------------------------------------
    def _fresh(self, name: str, where, suffix: str = '') -> ast.Name:
        """an unknown value: `<variable>@<line of the construct that made it unknown>`"""
        nid = f'{name}@{getattr(where, "lineno", 0)}{suffix}'
        self.origin[nid] = self.fi
        return ast.Name(id=nid, ctx=ast.Load())

    def clobber(self, st: SymState, roots, where=None, env: bool = True):
        """heap state reachable from the variables `roots` may have changed: facts that read it are forgotten and
        later reads get a new epoch; with env=True (the object a method was called on) the values computed from it
        are unknown as well"""
        roots = {_base_id(r) for r in roots}
        if not roots:
            return
        st.facts = [f for f in st.facts if not any(mentions_heap(f[2], r) for r in roots)]
        if env:
            for k, v in list(st.env.items()):
                if any(mentions_heap(v, r) for r in roots) or ('.' in k and k.split('.')[0] in roots):
                    st.env[k] = self._fresh(k, where)
            st.clob |= roots
        for r in roots:
            st.epoch[r] = st.epoch.get(r, 0) + 1

    def clobber_text(self, st: SymState, pred):
        st.facts = [f for f in st.facts if not any(pred(x) for x in ast.walk(f[2]))]
        for k, v in list(st.env.items()):
            if any(pred(x) for x in ast.walk(v)):
                st.env[k] = self._fresh(k, v)

    def _pure_call(self, c: ast.Call) -> bool:
        name = call_name(c)
        if name in _PURE_FUNCS:
            return True
        if any(name == r or name.startswith(r + '.') for r in _PURE_ROOTS):
            return True
        if isinstance(c.func, ast.Attribute) and c.func.attr in _PURE_METHODS:
            return True
        return False

    def effects(self, e: ast.AST | None, st: SymState, skip: ast.AST | None = None):
        """forget what the impure calls inside e may change"""
        if e is None:
            return
        for c in [x for x in walk_no_nested(e, include_lambda=False) if isinstance(x, ast.Call)]:
            if c is skip or self._pure_call(c) or self.record_fields(c) is not None:
                continue        # (constructing a record of the program only keeps the arguments)
            def roots_of(parts):
                out = set()
                for p in parts:
                    out |= {_base_id(x.id) for x in ast.walk(self.ev(p, st.fork())) if isinstance(x, ast.Name)}
                return out

            # only objects this function can reach through its own variables are considered changed: a call on a
            # class or a module (`Cls.open(...)`, `os.rename(...)`) does not alter what local values denote
            recv = (roots_of([c.func.value]) if isinstance(c.func, ast.Attribute) else set()) & self._locals
            args = (roots_of(list(c.args) + [k.value for k in c.keywords]) & self._locals) - recv
            st.trace.append(('call', c, self.ev(c, st.fork()), self.fi))
            self.clobber(st, recv, c, env=True)
            self.clobber(st, args, c, env=False)
            if isinstance(c.func, ast.Attribute):
                # a method called on a container this path built itself (`acc = []` … `acc.append(x)`)
                r = chain_root(c.func.value)
                if r is not None and isinstance(st.env.get(r.id), _CONSTRUCTED):
                    st.env[r.id] = self._fresh(r.id, c)

    # ---- calls of helpers of the same module ------------------------------------------------------------
    def _summarisable(self, c: ast.Call, st: SymState | None = None):
        if self.depth >= 2:
            return None
        try:
            callee = resolve_call(self.prog, self.fi, c)
        except Exception:
            return None
        query = False
        if isinstance(c.func, ast.Attribute) and st is not None and (callee is None or callee.cls is not None):
            # a method of a record / helper class of the module (the receiver's class is known from annotations):
            # entered when it only computes - a named query on that object
            cls = self.class_of(self.ev(c.func.value, st.fork()))
            meth = find_member(cls, c.func.attr)
            if meth is not None and (callee is None or callee == meth) and not meth.name.startswith('__') \
                    and _effect_free(self.prog, meth):
                callee, query = meth, True
        if callee is None or callee.module is not self.fi.module or callee == self.fi or callee.name in self.opaque:
            return None
        # only private helpers and nested functions are looked through: the public methods are the vocabulary
        # in which the rules speak (`TrajectoryStore.open(...)`, `len(store)`, `store[i]`)
        if not ((callee.name.startswith('_') and not callee.name.startswith('__')) or '<locals>' in callee.qualname
                or query):
            return None
        if any(isinstance(x, (ast.Yield, ast.YieldFrom, ast.Await)) for x in walk_no_nested(callee.node)):
            return None
        decs = [d.split('.')[-1].split('(')[0] for d in callee.decorators()]
        if any(d not in ('staticmethod', 'classmethod') for d in decs):
            return None
        if any(isinstance(a, ast.Starred) for a in c.args) or any(k.arg is None for k in c.keywords):
            return None
        return callee

    def _call(self, callee, c: ast.Call, st: SymState):
        a = callee.node.args
        pos = [x.arg for x in a.posonlyargs + a.args]
        defaults = dict(zip(reversed(pos), reversed(a.defaults)))
        for k, d in zip(a.kwonlyargs, a.kw_defaults):
            if d is not None:
                defaults[k.arg] = d
        names = pos + [x.arg for x in a.kwonlyargs]
        bind: dict[str, ast.expr] = {}
        decs = [d.split('.')[-1] for d in callee.decorators()]
        same_recv = False
        if callee.cls is not None and 'staticmethod' not in decs:
            if not isinstance(c.func, ast.Attribute) or not pos:
                return None
            if callee.name in ('__init__', '__post_init__', '__new__'):
                return None
            rv = self.ev(c.func.value, st.fork())
            if 'classmethod' not in decs:
                # the helper runs on the same object under the same name: its `self.attr` stores are this path's
                same_recv = self.recv is not None and isinstance(c.func.value, ast.Name) \
                    and c.func.value.id == self.recv == pos[0] and self.recv not in st.env
            if not same_recv:
                bind[pos[0]] = rv
            pos = pos[1:]
        if len(c.args) > len(pos) and not a.vararg:
            return None
        for p, x in zip(pos, c.args):
            bind[p] = self.ev(x, st)
        if a.vararg:
            bind[a.vararg.arg] = ast.Tuple(elts=[self.ev(x, st) for x in c.args[len(pos):]], ctx=ast.Load())
        extra = []
        for k in c.keywords:
            if k.arg in bind:
                return None
            if k.arg not in names:
                if not a.kwarg:
                    return None
                extra.append((k.arg, self.ev(k.value, st)))
                continue
            bind[k.arg] = self.ev(k.value, st)
        if a.kwarg:
            bind[a.kwarg.arg] = ast.Dict(keys=[ast.Constant(value=k) for k, _ in extra], values=[v for _, v in extra])
        for p in names:
            if p not in bind:
                if same_recv and p == self.recv and self.enter_methods:
                    continue            # the helper runs on the same object under the same name
                if p not in defaults:
                    return None
                bind[p] = copy.deepcopy(defaults[p])
        sub = Sym(self.prog, callee, self.depth + 1, parent=self, cap=64)
        init = SymState(bind, st.facts, st.epoch, st.clob, st.trace)
        if same_recv and sub.recv is not None:
            for k, v in st.env.items():
                if k.startswith(self.recv + '.'):
                    init.env[sub.recv + k[len(self.recv):]] = v
        try:
            sub.run(init=init)
        except SymUndecided:
            return None
        if len(sub.returns) > 16:
            return None
        out = []
        for rst, rv, _ in sub.returns:
            new = SymState(st.env, rst.facts, rst.epoch, rst.clob, rst.trace)
            gone = {_base_id(r) for r in rst.clob} - {_base_id(r) for r in st.clob}
            # the callee's names are its own: what it changed through a parameter is, for the caller, the heap
            # reachable from the variables of the argument bound to it; what it changed through one of its locals
            # (an object it made itself) is nothing the caller can see.  The helper runs on the same object under
            # the same receiver name; nested functions share the caller's variables.
            if '<locals>' not in callee.qualname:
                mine = set()
                for r in gone:
                    if same_recv and sub.recv is not None and r == sub.recv:
                        mine.add(self.recv)
                    elif r in bind:
                        mine |= {_base_id(x.id) for x in ast.walk(bind[r]) if isinstance(x, ast.Name)} & self._locals
                gone = mine
                new.clob = set(st.clob) | gone
                new.epoch = dict(st.epoch)
                for r in gone:
                    new.epoch[r] = new.epoch.get(r, 0) + 1
            if gone:
                for k, v in list(new.env.items()):
                    if any(mentions_heap(v, r) for r in gone) or ('.' in k and k.split('.')[0] in gone):
                        new.env[k] = self._fresh(k, c)
            if same_recv and sub.recv is not None:
                for k, v in rst.env.items():
                    if k.startswith(sub.recv + '.'):
                        new.env[self.recv + k[len(sub.recv):]] = v
            elif sub.recv is not None and any(k.startswith(sub.recv + '.') for k in rst.env):
                # the helper wrote attributes of another object
                self.clobber(new, {x.id for x in ast.walk(bind.get(callee.params[0], ast.Name(id=sub.recv)))
                                   if isinstance(x, ast.Name)}, c)
            out.append((new, rv if rv is not None else ast.Constant(value=None)))
        return out

    def value_states(self, e: ast.expr | None, st: SymState):
        """[(state, value)] of evaluating e: one per return path of a summarised helper, else one"""
        if e is None:
            return [(st, ast.Constant(value=None))]
        if isinstance(e, ast.IfExp):
            # `a if c else b` is the two-branch `if`: one path per feasible branch
            test = self.ev(e.test, st)
            self.effects(e.test, st)
            out = []
            for pol, branch in ((True, e.body), (False, e.orelse)):
                st2 = st.fork()
                if self.assume(st2, test, pol):
                    out += self.value_states(branch, st2)
            return out
        if isinstance(e, ast.Call):
            callee = self._summarisable(e, st)
            if callee is not None:
                for x in list(e.args) + [k.value for k in e.keywords]:
                    self.effects(x, st)
                r = self._call(callee, e, st)
                if r is not None:
                    return r
        # a conditional expression inside the value (`i - (t[f - 1] if f > 0 else 0)`): one path per feasible branch,
        # exactly as if the branch had been taken by an `if` statement around the assignment
        inner = _first_ifexp(e)
        if inner is not None:
            path, node = inner
            test = self.ev(node.test, st)
            self.effects(node.test, st)
            out = []
            for pol, branch in ((True, node.body), (False, node.orelse)):
                st2 = st.fork()
                if self.assume(st2, test, pol):
                    out += self.value_states(_replaced(e, path, branch), st2)
            return out
        v = self.ev(e, st)
        self.effects(e, st)
        return [(st, v)]

    # ---- statements -------------------------------------------------------------------------------------
    def _heads(self, s: ast.stmt):
        if isinstance(s, (ast.If, ast.While)):
            return [s.test]
        if isinstance(s, (ast.For, ast.AsyncFor)):
            return [s.iter]
        if isinstance(s, (ast.With, ast.AsyncWith)):
            return [i.context_expr for i in s.items]
        if isinstance(s, ast.Match):
            return [s.subject]
        if isinstance(s, (ast.Try, ast.FunctionDef, ast.AsyncFunctionDef, ast.ClassDef)):
            return []
        return [s]

    def bind(self, t: ast.expr, v: ast.expr, st: SymState):
        if isinstance(t, ast.Name):
            st.env[t.id] = v
        elif isinstance(t, (ast.Tuple, ast.List)):
            if any(isinstance(x, ast.Starred) for x in t.elts):
                for nme in assigned_names(t):
                    st.env[nme] = self._fresh(nme, t)
                return
            same = isinstance(v, (ast.Tuple, ast.List)) and len(v.elts) == len(t.elts) \
                and not any(isinstance(x, ast.Starred) for x in v.elts)
            for i, x in enumerate(t.elts):
                self.bind(x, v.elts[i] if same else
                          ast.Subscript(value=copy.deepcopy(v), slice=ast.Constant(value=i), ctx=ast.Load()), st)
        elif isinstance(t, ast.Attribute):
            if self.recv is not None and isinstance(t.value, ast.Name) and t.value.id == self.recv \
                    and self.recv not in st.env:
                st.env[f'{self.recv}.{t.attr}'] = v
                # reads of the attribute through aliases of the receiver are not tracked: none in scope
            else:
                attr = t.attr
                self.clobber_text(st, lambda x: isinstance(x, ast.Attribute) and x.attr == attr)
        elif isinstance(t, ast.Subscript):
            st.trace.append(('store', t, self.ev(t, st.fork()), self.fi))
            base = norm(self.ev(t.value, st.fork()))
            self.clobber_text(st, lambda x: isinstance(x, (ast.Attribute, ast.Subscript, ast.Name)) and norm(x) == base)
            r = chain_root(t)
            if r is not None and r.id in st.env and isinstance(st.env[r.id], (ast.Tuple, ast.List, ast.Dict, ast.Set)):
                st.env[r.id] = self._fresh(r.id, t)
        elif isinstance(t, ast.Starred):
            self.bind(t.value, self._fresh('starred', t), st)

    def _unbind(self, t: ast.expr, s: ast.stmt, st: SymState):
        """`del <attribute or element>`: forgotten like a store, recorded as a removal"""
        n = len(st.trace)
        self.bind(t, self._fresh('del', s), st)
        st.trace[n:] = [('del',) + ev[1:] for ev in st.trace[n:]]

    def _assigned(self, stmts) -> set[str]:
        out = set()
        for s in stmts:
            for x in walk_no_nested(s):
                if isinstance(x, ast.Name) and isinstance(x.ctx, (ast.Store, ast.Del)):
                    out.add(x.id)
                elif isinstance(x, ast.Attribute) and isinstance(x.ctx, (ast.Store, ast.Del)) \
                        and isinstance(x.value, ast.Name) and x.value.id == self.recv:
                    out.add(f'{self.recv}.{x.attr}')
        return out

    def _havoc(self, st: SymState, names, where):
        for nme in names:
            st.env[nme] = self._fresh(nme, where)

    def stmt(self, s: ast.stmt, st: SymState):
        if self.target is not None:
            for h in self._heads(s):
                for n in walk_no_nested(h):
                    if self.target(n):
                        self.hits.append(SymHit(n, st.fork(), self))
                        return []
        if isinstance(s, (ast.Assign, ast.AnnAssign)):
            if s.value is None:
                return [st]
            outs = []
            for st2, v in self.value_states(s.value, st):
                for t in (s.targets if isinstance(s, ast.Assign) else [s.target]):
                    self.bind(t, copy.deepcopy(v), st2)
                outs.append(st2)
            return outs
        if isinstance(s, ast.AugAssign):
            v = self.ev(s.value, st)
            self.effects(s.value, st)
            t = s.target
            key = None
            if isinstance(t, ast.Name):
                key = t.id
            elif isinstance(t, ast.Attribute) and isinstance(t.value, ast.Name) and t.value.id == self.recv \
                    and self.recv not in st.env:
                key = f'{self.recv}.{t.attr}'
            if key is None:
                self.bind(t, self._fresh('aug', s), st)
                return [st]
            cur = st.env.get(key)
            if cur is None:
                cur = ast.parse(key, mode='eval').body
            st.env[key] = ast.BinOp(left=copy.deepcopy(cur), op=s.op, right=v)
            return [st]
        if isinstance(s, ast.If):
            test = self.ev(s.test, st)
            self.effects(s.test, st)
            outs = []
            for pol, body in ((True, s.body), (False, s.orelse)):
                st2 = st.fork()
                if self.assume(st2, test, pol):
                    outs += self.block(body, [st2])
            return outs
        if isinstance(s, (ast.For, ast.AsyncFor, ast.While)):
            head = s.iter if not isinstance(s, ast.While) else s.test
            self.effects(head, st)
            assigned = self._assigned(s.body)
            inner = st.fork()
            self._havoc(inner, assigned, s)
            if not isinstance(s, ast.While):
                for nme in assigned_names(s.target):
                    inner.env[nme] = self._fresh(nme, s)
            self.block(s.body, [inner])          # returns / raises / hits inside are recorded
            after = st.fork()
            for nme in assigned | (set(assigned_names(s.target)) if not isinstance(s, ast.While) else set()):
                after.env[nme] = self._fresh(nme, s, '_')        # value after the loop, not the one at an iteration's start
            # heap effects of the body: replay them on the state after the loop
            for b in s.body:
                for x in walk_no_nested(b):
                    if isinstance(x, ast.stmt):
                        self._stmt_effects(x, after)
            return self.block(s.orelse, [after]) if s.orelse else [after]
        if isinstance(s, (ast.With, ast.AsyncWith)):
            for it in s.items:
                v = self.ev(it.context_expr, st)
                self.effects(it.context_expr, st)
                if it.optional_vars is not None:
                    self.bind(it.optional_vars,
                              ast.Call(func=ast.Attribute(value=v, attr='__enter__', ctx=ast.Load()), args=[], keywords=[]), st)
            return self.block(s.body, [st])
        if isinstance(s, ast.Try) or type(s).__name__ == 'TryStar':
            outs = self.block(s.body, [st.fork()])
            outs = self.block(s.orelse, outs) if s.orelse else outs
            assigned = self._assigned(s.body)
            for h in s.handlers:
                hs = st.fork()
                self._havoc(hs, assigned, h)
                for b in s.body:
                    for x in walk_no_nested(b):
                        if isinstance(x, ast.stmt):
                            self._stmt_effects(x, hs)
                if h.name:
                    hs.env[h.name] = self._fresh(h.name, h)
                outs += self.block(h.body, [hs])
            return self.block(s.finalbody, outs) if s.finalbody else outs
        if isinstance(s, ast.Match):
            subj = self.ev(s.subject, st)
            self.effects(s.subject, st)
            outs = []
            for c in s.cases:
                cs = st.fork()
                for x in ast.walk(c.pattern):
                    for f in ('name', 'rest'):
                        if isinstance(getattr(x, f, None), str):
                            cs.env[getattr(x, f)] = self._fresh(getattr(x, f), c)
                cs.facts.append((f'match {norm(subj)} case {norm(c.pattern)}', True, subj))
                if c.guard is not None:
                    if not self.assume(cs, self.ev(c.guard, cs), True):
                        continue
                outs += self.block(c.body, [cs])
            wild = any(isinstance(c.pattern, ast.MatchAs) and c.pattern.pattern is None and c.guard is None for c in s.cases)
            return outs if wild else outs + [st]
        if isinstance(s, ast.Return):
            for st2, v in self.value_states(s.value, st):
                self.returns.append((st2, v, s))
            return []
        if isinstance(s, ast.Raise):
            self.raises.append((st, self.ev(s.exc, st.fork()) if s.exc is not None else None, s, self))
            return []
        if isinstance(s, ast.Expr):
            return [st2 for st2, _ in self.value_states(s.value, st)]
        if isinstance(s, ast.Assert):
            return [st] if self.assume(st, self.ev(s.test, st), True) else []
        if isinstance(s, ast.Delete):
            for t in s.targets:
                if isinstance(t, ast.Name):
                    st.env[t.id] = self._fresh(t.id, s)
                else:
                    self._unbind(t, s, st)
            return [st]
        if isinstance(s, (ast.Break, ast.Continue)):
            return []
        if isinstance(s, (ast.FunctionDef, ast.AsyncFunctionDef, ast.ClassDef)):
            st.env[s.name] = self._fresh(s.name, s)
            return [st]
        return [st]

    def _stmt_effects(self, s: ast.stmt, st: SymState):
        """heap effects of one simple statement, without following control flow (used for loop / try bodies)"""
        if isinstance(s, (ast.Assign, ast.AnnAssign, ast.AugAssign)):
            self.effects(s.value, st)
            for t in (s.targets if isinstance(s, ast.Assign) else [s.target]):
                for x in ([t] if not isinstance(t, (ast.Tuple, ast.List)) else list(ast.walk(t))):
                    if isinstance(x, (ast.Attribute, ast.Subscript)) and isinstance(x.ctx, ast.Store):
                        if isinstance(x, ast.Attribute) and isinstance(x.value, ast.Name) and x.value.id == self.recv:
                            continue    # already unknown through _havoc
                        self.bind(x, self._fresh('loop', s), st)
        elif isinstance(s, (ast.Expr, ast.Return)):
            self.effects(s.value, st)
        elif isinstance(s, (ast.If, ast.While)):
            self.effects(s.test, st)
        elif isinstance(s, (ast.For, ast.AsyncFor)):
            self.effects(s.iter, st)
        elif isinstance(s, (ast.With, ast.AsyncWith)):
            for it in s.items:
                self.effects(it.context_expr, st)
        elif isinstance(s, ast.Delete):
            for t in s.targets:
                if not isinstance(t, ast.Name):
                    self._unbind(t, s, st)


def _first_ifexp(e: ast.AST, path=()):
    """(path, node) of the first conditional expression in e that is evaluated whenever e is (not inside a lambda, a
    comprehension, the right-hand side of and / or, or another conditional expression's branches)"""
    for field, val in ast.iter_fields(e):
        kids = [(field, None, val)] if isinstance(val, ast.AST) else \
            [(field, i, x) for i, x in enumerate(val) if isinstance(x, ast.AST)] if isinstance(val, list) else []
        for f, i, x in kids:
            if isinstance(x, (ast.Lambda, ast.ListComp, ast.SetComp, ast.DictComp, ast.GeneratorExp)):
                continue
            if isinstance(e, ast.BoolOp) and f == 'values' and i:
                continue
            if isinstance(x, ast.IfExp):
                return path + ((f, i),), x
            r = _first_ifexp(x, path + ((f, i),))
            if r is not None:
                return r
    return None


def _replaced(e: ast.AST, path, repl: ast.AST) -> ast.AST:
    new = copy.deepcopy(e)
    cur = new
    for f, i in path[:-1]:
        cur = getattr(cur, f) if i is None else getattr(cur, f)[i]
    f, i = path[-1]
    if i is None:
        setattr(cur, f, copy.deepcopy(repl))
    else:
        getattr(cur, f)[i] = copy.deepcopy(repl)
    return new


def sym_show(e: ast.AST | None) -> str:
    """text of a symbolic value without the internal epoch / loop tags"""
    import re
    return re.sub(r'@e?\d+_?', '', norm(e)) if e is not None else 'None'
