"""C07 — store indices follow insertion order across sessions and evictions.

R1  size-table freshness.  `NcFiles.size_index` is a snapshot of trajectory
    counts.  For every construction site of NcFiles that describes a file which
    can still grow (opened for append or newly created), either the snapshot is
    None (the locate code then indexes the file directly) or some function on
    the add path refreshes it.  Construction sites are classified by a table
    confirmed by reading; an unknown site is treated as growable.
R1b the only site that does take a snapshot (merged stores) is read-only: the
    constructor refuses every writable mode for merged stores before opening.
R1c in _load_trajectory the two locate branches are exhaustive: the
    size-table branch is taken iff the table is not None, the direct branch
    uses the requested index unchanged.
R2  one increment per successful add: on every normal path through `add` the
    next-index counter is incremented exactly once, and the returned value is
    a copy of the counter taken before the increment.
R3  length source: __len__ sums the trajectory dimension over *all* files of
    the measuring field set; APPEND initialises the counter from the same
    dimension.
R4  eviction refusal wiring: the cache's popitem raises before evicting when
    the flag is set; the flag is set iff the store has no base file and is
    cleared only by `save` after everything was written.
R7  file-link typestate (C08-R5): no list operation dereferences file-only
    state on a store that has no file attached.
R5  the cache key under which a loaded trajectory is stored is the requested
    index, and __getitem__ consults the cache with that same key.
"""

from __future__ import annotations

import ast

from ..astutil import (ancestors, call_name, calls_in, guards_of, kwarg, names_in, norm,
                       single_def_value, stmt_of, stores_to, walk_no_nested)
from ..cfg import CFG
from ..loader import dotted_name
from ..resolve import closure, resolve_class_call

STORE = 'trajectories/store.py'

# construction sites of NcFiles: function -> (growable?, reason)
SITE_TABLE = {
    'TrajectoryStore._create_nc_file': (True, 'file created for writing (CREATE / save / create_associated)'),
    'TrajectoryStore._open_nc_file': (True, 'single file opened for READ or APPEND'),
    'TrajectoryStore._open_merged_store': (False, 'merged store: READ only (see R1b)'),
}


def run(ctx):
    prog = ctx.prog
    m = prog.module(STORE)
    # R7: the list operations (add / sync / close / index / iterate / len) work on a store that has no file attached
    # yet: file-only state is dereferenced only behind a test that files are attached (typestate rule of C08)
    from .c08 import rule_linked
    rule_linked(ctx, m, rule='C07-R7')
    cls = m.cls('TrajectoryStore')
    add = m.func('TrajectoryStore.add')

    # ---- R1 ---------------------------------------------------------------
    sites = []
    for fi in m.functions.values():
        for c in calls_in(fi.node):
            rc = resolve_class_call(prog, fi, c)
            if rc is not None and rc.name == 'NcFiles':
                sites.append((fi, c))
    ctx.floor('C07-R1', len(sites), 3, 'NcFiles construction sites')
    add_path = closure(prog, [add])
    refreshers = []
    for fn in add_path:
        for t, st, how in stores_to(fn.node):
            b = t
            while isinstance(b, ast.Subscript):
                b = b.value
            if isinstance(b, ast.Attribute) and b.attr == 'size_index':
                refreshers.append((fn, st))
        for c in calls_in(fn.node):
            if isinstance(c.func, ast.Attribute) and c.func.attr in ('append', 'extend', 'insert') \
                    and isinstance(c.func.value, ast.Attribute) and c.func.value.attr == 'size_index':
                refreshers.append((fn, c))
    for fi, c in sites:
        growable, reason = SITE_TABLE.get(fi.qualname, (True, 'unknown construction site: treated as growable'))
        v = kwarg(c, 'size_index')
        if v is None:
            # positional: field order of the dataclass
            ctx.undecided('C07-R1', fi, norm(c)[:60], 'size_index not passed by keyword')
        is_none = isinstance(v, ast.Constant) and v.value is None
        if not growable:
            ctx.ob('C07-R1', fi, f'size_index={norm(v)[:60]} (read-only site)', True,
                   f'{reason}; a snapshot of a file that cannot grow cannot go stale', line=c.lineno,
                   nontrivial=False)
            continue
        ok = is_none or bool(refreshers)
        ctx.ob('C07-R1', fi, f'size_index={norm(v)[:60]} at growable site', ok,
               ('no snapshot: the file is indexed directly' if is_none else
                f'snapshot refreshed on the add path by {refreshers[0][0].qualname}') if ok else
               (f'{reason}: the table is a snapshot of the trajectory count taken at open time and '
                'nothing on the add path (add → _write_trajectory → _write_data) refreshes it; '
                '_load_trajectory then locates old and new items with a stale table '
                '(append session: store[0] returns a later trajectory)'),
               line=c.lineno)

    # ---- R1b merged stores are read-only -----------------------------------
    init = m.func('TrajectoryStore.__init__')
    found = None
    for fn in closure(prog, [init]):
        for n in walk_no_nested(fn.node):
            if isinstance(n, ast.Raise):
                gs = guards_of(n)
                txt = [norm(x) for x, pol, _ in gs]
                if any('merged_store' in t for t in txt) and any('READ' in t or 'APPEND' in t for t in txt):
                    found = (fn, n, txt)
    ctx.ob('C07-R1b', init, 'merged stores refused in writable modes', found is not None,
           (f'{found[0].qualname} raises under {found[2]}') if found else
           'nothing refuses opening a merged store for APPEND: its size table would go stale',
           line=(found[1].lineno if found else init.node.lineno))

    # ---- R1c locate branches -------------------------------------------------
    load = m.func('TrajectoryStore._load_trajectory')
    branch = None
    for n in walk_no_nested(load.node):
        if isinstance(n, ast.If) and 'size_index' in norm(n.test) and 'is not None' in norm(n.test):
            branch = n
            break
        if isinstance(n, ast.If) and 'size_index' in norm(n.test) and 'is None' in norm(n.test):
            branch = n
            break
    if branch is None:
        ctx.undecided('C07-R1c', load, 'size_index branch', 'locate code no longer branches on size_index')
    gi_defs = [s for t, s, how in stores_to(load.node) if isinstance(t, ast.Name) and t.id == 'group_index']
    direct = [s for s in gi_defs if not any(a is branch for a in ancestors(s))]
    ok = len(direct) == 1 and isinstance(direct[0].value, ast.Name) and direct[0].value.id in load.params
    ctx.ob('C07-R1c', load, 'direct branch uses the requested index unchanged', ok,
           f'group_index defaults to parameter `{norm(direct[0].value)}`' if ok else
           'the index used for a single file is not the requested index',
           line=(direct[0].lineno if direct else load.node.lineno))
    # every read of var at group_index / the loaded item is cached under `index`
    cache_store = [st for t, st, how in stores_to(load.node)
                   if isinstance(t, ast.Subscript) and isinstance(t.value, ast.Attribute)
                   and t.value.attr == '_trajectories']
    ok = len(cache_store) == 1 and isinstance(cache_store[0].targets[0].slice, ast.Name) \
        and cache_store[0].targets[0].slice.id == load.params[1]
    ctx.ob('C07-R5', load, 'loaded trajectory cached under the requested index', ok,
           f'{norm(cache_store[0])}' if ok else 'the cache key is not the requested index',
           line=(cache_store[0].lineno if cache_store else load.node.lineno))
    reads = [c for c in calls_in(load.node) if call_name(c).endswith('_read_from_nc_var')]
    for c in reads:
        a = c.args[1] if len(c.args) > 1 else kwarg(c, 'index')
        ok = isinstance(a, ast.Name) and a.id == 'group_index'
        ctx.ob('C07-R5', load, f'record read at {norm(a)}', ok,
               'reads the located record' if ok else 'reads a different record than the one located',
               line=c.lineno)
    gi = m.func('TrajectoryStore.__getitem__')
    key = gi.params[1]
    subs = [n for n in walk_no_nested(gi.node) if isinstance(n, ast.Subscript)
            and isinstance(n.value, ast.Attribute) and n.value.attr == '_trajectories']
    cmps = [n for n in walk_no_nested(gi.node) if isinstance(n, ast.Compare)
            and any(isinstance(c, ast.Attribute) and c.attr == '_trajectories' for c in n.comparators)]
    loads_ = [c for c in calls_in(gi.node) if call_name(c).endswith('_load_trajectory')]
    ok = bool(subs) and all(isinstance(s.slice, ast.Name) and s.slice.id == key for s in subs) \
        and all(isinstance(c.left, ast.Name) and c.left.id == key for c in cmps) \
        and all(c.args and isinstance(c.args[0], ast.Name) and c.args[0].id == key for c in loads_)
    ctx.ob('C07-R5', gi, 'cache consulted, loaded and returned under one key', ok,
           f'{len(subs)} subscripts, {len(cmps)} membership tests, {len(loads_)} loads all use `{key}`'
           if ok else 'cache lookup / load / return do not use the same key')
    raises = [n for n in walk_no_nested(gi.node) if isinstance(n, ast.Raise) and 'IndexError' in norm(n)]
    ctx.ob('C07-R5', gi, 'unknown index reported as IndexError', bool(raises),
           'raise IndexError present' if raises else 'an index beyond the end is not reported as out of range',
           nontrivial=False)

    # ---- R2 one increment per successful add -------------------------------
    g = CFG(add.node)
    inc_nodes = set()
    for n in g.nodes:
        if n.kind == 'stmt' and isinstance(n.stmt, (ast.AugAssign, ast.Assign)):
            tg = n.stmt.target if isinstance(n.stmt, ast.AugAssign) else n.stmt.targets[0]
            if isinstance(tg, ast.Attribute) and tg.attr == '_next_index' and dotted_name(tg.value) == 'self':
                if _in_reraising_handler(n.stmt):
                    continue
                inc_nodes.add(n.id)
    ctx.floor('C07-R2', len(inc_nodes), 1, 'counter updates in add')

    def transfer(node, st):
        if node.id in inc_nodes:
            s = node.stmt
            plus_one = isinstance(s, ast.AugAssign) and isinstance(s.op, ast.Add) \
                and isinstance(s.value, ast.Constant) and s.value.value == 1
            if isinstance(s, ast.Assign):
                plus_one = norm(s.value) in ('self._next_index + 1', '1 + self._next_index')
            return frozenset((c + 1 if plus_one else 99) for c in st)
        return st

    ins, _ = g.forward(frozenset({0}), transfer, lambda a, b: a | b,
                       edge_ok=lambda a, b, lab: lab != 'e')
    counts = ins.get(g.exit, frozenset())
    ok = counts == frozenset({1})
    ctx.ob('C07-R2', add, 'counter incremented exactly once on every normal path', ok,
           'every path to a return passes exactly one `_next_index += 1`' if ok else
           f'increment counts over normal paths to return: {sorted(counts)} (99 = not a +1 update)')
    rets = [n for n in g.nodes if n.kind == 'stmt' and isinstance(n.stmt, ast.Return)]
    dom = g.dominators(edge_ok=lambda a, b, lab: lab != 'e')
    for r in rets:
        v = r.stmt.value
        okr = False
        why = 'return value is not a copy of the counter taken before the increment'
        if isinstance(v, ast.Name):
            d = single_def_value(add.node, v.id)
            if d is not None and norm(d) == 'self._next_index':
                dn = g.nodes_of(stmt_of(d))
                okr = bool(dn) and all(dn[0] in dom[i] for i in inc_nodes)
                why = (f'{v.id} = self._next_index is taken before the increment' if okr
                       else 'the saved copy is not taken before the increment')
        ctx.ob('C07-R2', add, f'return {norm(v)}', okr, why, line=r.line)
    # the trajectory is cached and written under that same saved index
    for n in g.nodes:
        if n.kind == 'stmt' and isinstance(n.stmt, ast.Assign):
            t = n.stmt.targets[0]
            if isinstance(t, ast.Subscript) and isinstance(t.value, ast.Attribute) \
                    and t.value.attr == '_trajectories' and not _in_reraising_handler(n.stmt):
                ret_names = {norm(r.stmt.value) for r in rets}
                ok = norm(t.slice) in ret_names
                ctx.ob('C07-R2', add, f'cached under {norm(t.slice)}', ok,
                       'same value as returned' if ok else
                       'the trajectory is cached under a different index than the one returned',
                       line=n.line)
    for c in calls_in(add.node):
        if call_name(c).endswith('_write_trajectory'):
            ret_names = {norm(r.stmt.value) for r in rets}
            ok = bool(c.args) and norm(c.args[0]) in ret_names
            ctx.ob('C07-R2', add, f'written at {norm(c.args[0]) if c.args else "?"}', ok,
                   'same value as returned' if ok else
                   'the trajectory is written at a different index than the one returned', line=c.lineno)

    # on rejection paths the counter must be back at its pre-add value: the
    # validate-before-mutate dataflow of C10-R1, restricted to the counter
    from .c10 import rule_add as _c10_add
    sub = type(ctx)(ctx.prop, ctx.prog, ctx.tier)
    _c10_add(sub)
    for o in sub.obligations:
        if '_next_index' in o.construct and o.rule == 'C10-R1':
            o.rule = 'C07-R2'
            ctx.obligations.append(o)

    # ---- R3 length source ----------------------------------------------------
    ln = m.func('TrajectoryStore.__len__')
    rets = [n for n in walk_no_nested(ln.node) if isinstance(n, ast.Return) and n.value is not None]
    file_ret = [r for r in rets if 'traj_dim' in norm(r.value)]
    mem_ret = [r for r in rets if '_trajectories' in norm(r.value)]
    if not file_ret:
        ctx.undecided('C07-R3', ln, 'file-backed length', 'no return mentioning traj_dim')
    for r in file_ret:
        txt = norm(r.value)
        const_sub = any(isinstance(x, ast.Subscript) and isinstance(x.value, ast.Attribute)
                        and x.value.attr == 'traj_dim' and isinstance(x.slice, ast.Constant)
                        for x in ast.walk(r.value))
        agg = txt.startswith('sum(') and 'len(' in txt
        if not const_sub and not agg:
            ctx.undecided('C07-R3', ln, txt, 'length expression is neither a sum over traj_dim nor a single element')
        ctx.ob('C07-R3', ln, f'return {txt}', agg and not const_sub,
               'sums the trajectory dimension of every file of the field set' if agg and not const_sub
               else 'length looks at one file only: wrong for merged stores', line=r.lineno)
    ctx.ob('C07-R3', ln, 'in-memory length is the cache size', bool(mem_ret),
           'len(self._trajectories) when not linked' if mem_ret else 'no in-memory length', nontrivial=False)
    opn = m.func('TrajectoryStore._open')
    sets = [st for t, st, how in stores_to(opn.node)
            if isinstance(t, ast.Attribute) and t.attr == '_next_index']
    ok = len(sets) == 1 and 'traj_dim' in norm(sets[0].value) and 'len(' in norm(sets[0].value) \
        and any('APPEND' in norm(x) for x, _, _ in guards_of(sets[0]))
    ctx.ob('C07-R3', opn, 'APPEND starts the counter at the file length', ok,
           norm(sets[0]) if ok else 'the counter is not initialised from the trajectory dimension on APPEND',
           line=(sets[0].lineno if sets else opn.node.lineno))

    # ---- R4 eviction wiring ----------------------------------------------------
    cache = m.cls('TrajectoryCache')
    pop = cache.methods.get('popitem')
    if pop is None:
        ctx.undecided('C07-R4', (m.relpath, 'TrajectoryCache'), 'popitem', 'method not found')
    gp = CFG(pop.node)
    raise_n = [n for n in gp.nodes if n.kind == 'stmt' and isinstance(n.stmt, ast.Raise)]
    sup_n = [n for n in gp.nodes if n.stmt is not None and n.kind == 'stmt'
             and any(isinstance(c.func, ast.Attribute) and c.func.attr == 'popitem' for c in calls_in(n.stmt))]
    okp = False
    if raise_n and sup_n:
        gs = guards_of(raise_n[0].stmt)
        okp = any('exception_on_eviction' in norm(x) and pol for x, pol, _ in gs) and \
            not gp.reaches(sup_n[0].id, raise_n[0].id)
        test_nodes = [t for _, _, o in gs for t in gp.nodes_of(o)]
        domp = gp.dominators()
        okp = okp and any(t in domp[sup_n[0].id] for t in test_nodes)
    ctx.ob('C07-R4', pop, 'refusal precedes the eviction', okp,
           'raise under exception_on_eviction dominates super().popitem()' if okp else
           'the cache can evict from an in-memory store (the trajectory would be lost)')
    flag_sets = []
    for fn in m.functions.values():
        for t, st, how in stores_to(fn.node):
            if isinstance(t, ast.Attribute) and t.attr == 'exception_on_eviction':
                flag_sets.append((fn, st))
    ctx.floor('C07-R4', len(flag_sets), 3, 'stores of exception_on_eviction')
    for fn, st in flag_sets:
        val = st.value.value if isinstance(st.value, ast.Constant) else None
        if val is True:
            gs = [norm(x) for x, pol, _ in guards_of(st) if pol]
            ok = fn.qualname == 'TrajectoryStore.__init__' and any('base_file is None' in t for t in gs)
            why = 'set exactly when the store has no base file' if ok else \
                'flag set under a different condition than "no base file"'
        elif val is False:
            if fn.qualname == 'TrajectoryCache.__init__':
                ok, why = True, 'default'
            elif fn.qualname == 'TrajectoryStore.save':
                # must come after the write loop
                body = fn.node.body
                idx = next(i for i, s in enumerate(body) if s is st) if st in body else -1
                wr = [i for i, s in enumerate(body) if any(call_name(c).endswith('_write_trajectory') for c in calls_in(s))]
                ok = idx >= 0 and bool(wr) and idx > max(wr)
                why = 'cleared after every trajectory was written' if ok else \
                    'evictions are allowed before the trajectories were written to the new file'
            else:
                ok, why = False, 'eviction refusal cleared outside save()'
        else:
            ok, why = False, 'non-constant value'
        ctx.ob('C07-R4', fn, norm(st), ok, why, line=st.lineno)
    # ---- R6 iteration and save walk the indices 0 .. len-1 in order -----------
    it0 = m.func('TrajectoryStore.__iter__')
    r0 = [n for n in walk_no_nested(it0.node) if isinstance(n, ast.Return)]
    if len(r0) == 1 and norm(r0[0].value) == 'self':
        ctx.ob('C07-R6', it0, '__iter__ returns a fresh iterator', False,
               'the store is its own iterator: the position is kept on the store, so two overlapping iterations '
               '(nested loops, zip(store, store), a partly consumed iterator) share and reset one cursor and no longer '
               'yield the trajectories in insertion order', line=r0[0].lineno)
        return
    itname = call_name(r0[0].value) if len(r0) == 1 and isinstance(r0[0].value, ast.Call) else None
    itc = m.classes.get(itname) if itname else None
    if itc is None:
        ctx.undecided('C07-R6', it0, '__iter__', 'iterator class not found')
    nx = itc.methods.get('__next__')
    ini = itc.methods.get('__init__')
    if nx is None or ini is None:
        ctx.undecided('C07-R6', (m.relpath, itc.name), '__next__', 'iterator methods not found')
    src = ' '.join(norm(s_) for s_ in nx.node.body)
    ok = 'if self._index < len(self._store)' in src and 'item = self._store[self._index]' in src \
        and 'self._index += 1' in src and 'raise StopIteration' in src
    start = [st for t, st, how in stores_to(ini.node) if norm(t) == 'self._index']
    ok = ok and len(start) == 1 and norm(start[0].value) == '0'
    ctx.ob('C07-R6', nx, 'iteration yields store[0], store[1], … while index < len(store)', ok,
           'starts at 0, reads store[index], then advances by one, stops at len' if ok else
           'iteration does not walk the indices 0..len-1 in order')
    it = m.func('TrajectoryStore.__iter__')
    r = [n for n in walk_no_nested(it.node) if isinstance(n, ast.Return)]
    ok = len(r) == 1 and norm(r[0].value) == f'{itc.name}(self)'
    ctx.ob('C07-R6', it, '__iter__ hands out a fresh iterator over this store', ok, norm(r[0].value) if ok else '__iter__ changed', nontrivial=False)
    sv = m.func('TrajectoryStore.save')
    n_def = single_def_value(sv.node, 'trajectories_to_save')
    g2 = CFG(sv.node)
    dom2 = g2.dominators(edge_ok=lambda a, b, lab: lab != 'e')
    cr = [n for n in g2.nodes if n.stmt is not None and n.kind == 'stmt' and any(call_name(c) == 'self._create' for c in calls_in(n.stmt))]
    nd = [n for n in g2.nodes if n.stmt is not None and n.kind == 'stmt' and isinstance(n.stmt, ast.Assign)
          and norm(n.stmt.targets[0]) == 'trajectories_to_save']
    ok = n_def is not None and norm(n_def) == 'len(self)' and bool(cr) and bool(nd) and nd[0].id in dom2[cr[0].id]
    ctx.ob('C07-R6', sv, 'save counts the in-memory trajectories before the files exist', ok,
           'len(self) taken before _create() switches the length source to the (empty) file' if ok else
           'save measures the store after linking it to the new, empty files: nothing (or the wrong number) is written')
    wl = [n for n in walk_no_nested(sv.node) if isinstance(n, ast.For) and any(call_name(c) == 'self._write_trajectory' for c in calls_in(n))]
    ok = len(wl) == 1 and norm(wl[0].iter) == 'range(trajectories_to_save)' and \
        any(call_name(c) == 'self._write_trajectory' and [norm(a) for a in c.args] == [norm(wl[0].target)] for c in calls_in(wl[0]))
    ctx.ob('C07-R6', sv, 'save writes indices 0 .. n-1, each at its own index', ok, 'for i in range(n): _write_trajectory(i)' if ok else
           'save does not write every cached trajectory at its own index')

    # the flag is set on an in-memory store only if base_file is None: also the
    # in-memory condition of __init__ must read the attribute the checker set
    ctx.assumptions += [
        'netCDF4 unlimited dimensions grow on write and report their current length via len()',
        'cachetools.LRUCache calls popitem() to evict',
    ]


def _in_reraising_handler(stmt):
    for a in ancestors(stmt):
        if isinstance(a, ast.ExceptHandler):
            return True
        if isinstance(a, (ast.FunctionDef, ast.AsyncFunctionDef)):
            return False
    return False
