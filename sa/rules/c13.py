"""C13 — schedule import creates exactly the flight instances the row implies.

R1  geodesic argument roles at the distance plausibility rule (T-ROLE).
R2  defaulted-optional flow: once `x_d = opt or default` exists in a function,
    the raw optional may not flow to a callee.
R3  leg roles: the departure instant uses only departure-role names and the
    origin's time zone; the arrival instant only arrival-role names, the
    destination's zone, and is the only user of the arrival day offset.  Column
    lists and value tuples of INSERTs, and the arguments passed by the importer,
    agree position by position in role (antonym pairs departure/arrival,
    origin/destination, from/to).
R4  count recorded (T-ORDER): every path of `add` to `return True` passes
    _add_flight, _add_schedule and _set_flight_count(…, n) with n the return of
    _add_schedule and the id returned by _add_flight.
R5  rejection sites ⊆ documented reasons.
R6  expansion shape: inclusive pd.date_range over the two effective dates
    (zero-expected `inclusive=`/`closed=` with positive control); the weekday
    filter skips exactly when the day is *not in* the operating set; a
    mis-ordered instance is skipped only after the warning; everything else
    is appended and counted.
R7  plausibility rule shape: a row is dropped for distance only when both the
    absolute and the relative difference exceed their thresholds.
"""

from __future__ import annotations

import ast
import re

from ..astutil import (ancestors, call_name, calls_in, guards_of, kwarg, names_in, norm,
                       single_def_value, stmt_of, stores_to, walk_no_nested)
from ..cfg import CFG
from ..resolve import resolve_call
from ..roles import check_geod_call, geod_calls

OAG = 'missions/oag.py'
WDB = 'missions/writable_database.py'

ANTONYMS = [
    ({'departure', 'dep', 'deptim', 'depapt', 'depctry'}, {'arrival', 'arr', 'arrtim', 'arrapt', 'arrctry', 'arrday'}, 'departure/arrival'),
    ({'origin'}, {'destination', 'dest'}, 'origin/destination'),
    ({'from', 'efffrom'}, {'to', 'effto'}, 'from/to'),
]


def _tokens(text: str) -> set[str]:
    return {t for t in re.split(r'[^A-Za-z]+', text.lower()) if t}


def _idents(e: ast.AST) -> set[str]:
    out = set()
    for x in ast.walk(e):
        if isinstance(x, ast.Name):
            out |= _tokens(x.id)
        elif isinstance(x, ast.Attribute):
            out |= _tokens(x.attr)
    return out


def role_conflict(slot: str, value: ast.AST) -> str | None:
    """definite conflict between a slot name and the identifiers of a value"""
    st = _tokens(slot)
    vt = _idents(value)
    for a, b, label in ANTONYMS:
        if st & a and not st & b:
            if vt & b and not vt & a:
                return f'{label}: slot `{slot}` receives `{norm(value)[:50]}`'
        if st & b and not st & a:
            if vt & a and not vt & b:
                return f'{label}: slot `{slot}` receives `{norm(value)[:50]}`'
    return None


def ancestors_(n):
    from ..astutil import ancestors
    return list(ancestors(n))


def run(ctx):
    prog = ctx.prog
    om = prog.module(OAG)
    wm = prog.module(WDB)
    add = om.func('OAGDatabase.add')
    sch = wm.func('WritableDatabase._add_schedule')
    flt = wm.func('WritableDatabase._add_flight')
    dck = wm.func('WritableDatabase._distance_check')

    # ---- R1 ----------------------------------------------------------------
    sites = geod_calls(prog, [dck])
    ctx.floor('C13-R1', len(sites), 1, 'geodesic call in _distance_check')
    for fi, c, kind in sites:
        res = check_geod_call(fi, c, kind)
        confl = [r for r in res if r[4] == 'conflict']
        desc = ', '.join(f'arg{i}={got or "?"}' for i, want, txt, got, v in res)
        ctx.ob('C13-R1', fi, f'GEOD.{kind}({desc})', not confl,
               'longitude/latitude in the documented order' if not confl else
               '; '.join(f'slot {i} expects {w} but receives `{t}` ({g})' for i, w, t, g, v in confl) +
               ' — with |lon| > 90 the distance is NaN and every stated distance is accepted; otherwise a '
               'plausible row is dropped as suspicious', line=c.lineno)
        sub = getattr(c, '_parent', None)
        ok = isinstance(sub, ast.Subscript) and norm(sub.slice) == '2'
        ctx.ob('C13-R1', fi, 'distance component [2] of the inverse geodesic', ok,
               'distance' if ok else 'not the distance component', line=c.lineno, nontrivial=False)
        args = [norm(a) for a in c.args]
        ok = len(args) == 4 and all('origin' in a for a in args[:2]) and all('destination' in a for a in args[2:])
        ctx.ob('C13-R1', fi, 'distance is between origin and destination', ok,
               'origin pair then destination pair' if ok else 'end points mixed up', line=c.lineno, nontrivial=False)
    gdef = single_def_value(dck.node, 'gc_distance_km')
    ok = gdef is not None and norm(gdef).endswith('/ 1000.0') or (gdef is not None and norm(gdef).endswith('/ 1000'))
    ctx.ob('C13-R1', dck, 'metres converted to kilometres', bool(ok), '/ 1000' if ok else
           'geodesic distance is not converted to km before comparison with the stated km', nontrivial=False)

    # ---- R2 ----------------------------------------------------------------
    scope = [add] if ctx.tier != 'thorough' else prog.all_functions()
    n_def = 0
    for fi in scope:
        for t, st, how in stores_to(fi.node):
            v = getattr(st, 'value', None)
            if isinstance(t, ast.Name) and isinstance(v, ast.BoolOp) and isinstance(v.op, ast.Or) \
                    and isinstance(v.values[0], (ast.Attribute, ast.Name)):
                raw = norm(v.values[0])
                if isinstance(v.values[0], ast.Name) and v.values[0].id == t.id:
                    continue  # x = x or default: the raw name *is* the defaulted one afterwards
                n_def += 1 if fi is add else 0
                leaks = []
                for c in calls_in(fi.node):
                    if c.lineno <= st.lineno:
                        continue
                    for a in list(c.args) + [k.value for k in c.keywords]:
                        if norm(a) == raw:
                            leaks.append(c)
                ctx.ob('C13-R2', fi, f'{t.id} = {norm(v)[:60]}; raw `{raw}` not passed on', not leaks,
                       'only the defaulted value is used after the defaulting' if not leaks else
                       (f'`{raw}` (may be None) is passed to {call_name(leaks[0])}() at line {leaks[0].lineno} '
                        f'although `{t.id}` holds the defaulted value: an open-ended row reaches '
                        'pd.date_range(None, …) and the import aborts'),
                       line=(leaks[0].lineno if leaks else st.lineno))
    ctx.floor('C13-R2', n_def, 2, 'defaulted optionals in OAGDatabase.add')
    # the defaults themselves
    for name, want in (('effective_from', 'date(self._year, 1, 1)'), ('effective_to', 'date(self._year, 12, 31)')):
        d = single_def_value(add.node, name)
        ok = d is not None and isinstance(d, ast.BoolOp) and norm(d.values[-1]) == want
        ctx.ob('C13-R2', add, f'{name} defaults to {want}', ok,
               'open-ended range means start/end of the data year' if ok else
               f'default of {name} is not {want}', nontrivial=False)

    # ---- R3 ----------------------------------------------------------------
    for var, role, zone in (('dep_time', 'departure', 'origin.timezone'), ('arr_time', 'arrival', 'destination.timezone')):
        d = single_def_value(sch.node, var)
        if d is None:
            ctx.undecided('C13-R3', sch, var, 'instant is not defined once')
        ids = _idents(d)
        other = ANTONYMS[0][1] if role == 'departure' else ANTONYMS[0][0]
        other_od = {'destination'} if role == 'departure' else {'origin'}
        bad = (ids & other) | (ids & other_od)
        zone_ok = f'ZoneInfo({zone})' in norm(d)
        uses_offset = 'arrival_day_offset' in norm(d)
        ok = not bad and zone_ok and (uses_offset == (role == 'arrival'))
        why = f'{role} instant built from {role} time in the {"origin" if role == "departure" else "destination"} zone'
        if bad:
            why = f'{role} instant uses {sorted(bad)} — the other end\'s data'
        elif not zone_ok:
            why = f'{role} instant is not localised with {zone}'
        elif uses_offset != (role == 'arrival'):
            why = 'arrival day offset applied to the wrong instant (or not applied)'
        ctx.ob('C13-R3', sch, f'{var} = {norm(d)[:70]}', ok, why, line=d.lineno)
        # wall-clock arithmetic first, localisation last: a pandas Timestamp that already carries a zone adds
        # *elapsed* time, so anything added after .replace(tzinfo=...) is an hour off across a DST change
        outer = d
        last = isinstance(outer, ast.Call) and isinstance(outer.func, ast.Attribute) and outer.func.attr == 'replace' \
            and any(k.arg == 'tzinfo' for k in outer.keywords)
        arith_after = [x for x in ast.walk(d) if isinstance(x, ast.BinOp) and any(
            isinstance(y, ast.keyword) and y.arg == 'tzinfo' for side in (x.left, x.right) for y in ast.walk(side))]
        ctx.ob('C13-R3', sch, f'{var}: zone attached after all wall-clock arithmetic', last and not arith_after,
               'the outermost operation is .replace(tzinfo=ZoneInfo(...))' if last and not arith_after else
               'time is added to an instant that already carries its zone (elapsed-time arithmetic across a DST change)',
               line=d.lineno)
        hm = [norm(k.value) for c in calls_in(d) if call_name(c) == 'timedelta' for k in c.keywords if k.arg in ('hours', 'minutes')]
        okh = sorted(hm) == sorted([f'{role}_time.hour', f'{role}_time.minute'])
        ctx.ob('C13-R3', sch, f'{var} hours/minutes = {hm}', okh,
               'hour to hours, minute to minutes' if okh else 'hour/minute components mixed up', line=d.lineno,
               nontrivial=False)
    for var, src in (('dep_timestamp', 'dep_time'), ('arr_timestamp', 'arr_time')):
        d = single_def_value(sch.node, var)
        ok = d is not None and norm(d) == f'int({src}.timestamp())'
        ctx.ob('C13-R3', sch, f'{var} = {norm(d) if d is not None else "?"}', ok,
               'epoch seconds of its own instant' if ok else 'timestamp taken from the other instant', nontrivial=False)
    # INSERT column <-> value agreement
    app = [c for c in calls_in(sch.node) if call_name(c) == 'data.append']
    ins = [c for c in calls_in(sch.node) if call_name(c).endswith('executemany')]
    if app and ins and isinstance(app[0].args[0], ast.Tuple):
        sql = ins[0].args[0].value if isinstance(ins[0].args[0], ast.Constant) else ''
        mcol = re.search(r'\(([^)]*)\)\s*VALUES', sql, re.S)
        cols = [c.strip() for c in mcol.group(1).split(',')] if mcol else []
        vals = app[0].args[0].elts
        ok = len(cols) == len(vals)
        ctx.ob('C13-R3', sch, f'schedules INSERT: {len(cols)} columns, {len(vals)} values', ok,
               'same arity' if ok else 'column list and value tuple differ in length', nontrivial=False)
        for col, v in zip(cols, vals):
            cf = role_conflict(col, v)
            toks = _tokens(col) & _idents(v)
            ctx.ob('C13-R3', sch, f'schedules.{col} <- {norm(v)}', cf is None and bool(toks),
                   'column and value agree in role' if cf is None and toks else (cf or f'value `{norm(v)}` shares no name with column {col}'),
                   line=v.lineno)
    else:
        ctx.undecided('C13-R3', sch, 'schedules INSERT', 'append/executemany idiom not found')
    flds = single_def_value(flt.node, 'fields')
    exe = [c for c in calls_in(flt.node) if call_name(c).endswith('.execute')]
    if flds is None or not exe or len(exe[0].args) < 2 or not isinstance(exe[0].args[1], ast.Tuple):
        ctx.undecided('C13-R3', flt, 'flights INSERT', 'fields list / value tuple idiom not found')
    cols = [e.value for e in flds.elts]
    vals = exe[0].args[1].elts
    ok = len(cols) == len(vals)
    ctx.ob('C13-R3', flt, f'flights INSERT: {len(cols)} columns, {len(vals)} values', ok,
           'same arity' if ok else 'column list and value tuple differ in length')
    ctx.floor('C13-R3/flights', len(cols), 17, 'flights columns')
    for col, v in zip(cols, vals):
        cf = role_conflict(col, v)
        ctx.ob('C13-R3', flt, f'flights.{col} <- {norm(v)[:50]}', cf is None,
               'no role conflict' if cf is None else cf, line=v.lineno, nontrivial=cf is not None)
    od = single_def_value(flt.node, 'od_pair')
    ok = od is not None and norm(od).startswith('min(') and '+ max(' in norm(od)
    ctx.ob('C13-R3', flt, 'od_pair is direction independent', bool(ok), 'min(code) + max(code)' if ok else
           'od_pair depends on direction', nontrivial=False)
    # importer call sites: argument -> parameter roles
    for callee in (flt, sch):
        cs = [c for c in calls_in(add.node) if resolve_call(prog, add, c) == callee]
        ctx.floor(f'C13-R3/{callee.name}', len(cs), 1, f'call of {callee.name} in add')
        params = callee.params[1:]
        for c in cs:
            for p, a in zip(params, c.args):
                cf = role_conflict(p, a)
                ctx.ob('C13-R3', add, f'{callee.name}({p}={norm(a)})', cf is None,
                       'argument and parameter agree in role' if cf is None else cf, line=a.lineno,
                       nontrivial=cf is not None)
            ok = len(c.args) == len(params)
            ctx.ob('C13-R3', add, f'{callee.name} receives {len(c.args)} of {len(params)} positional arguments', ok,
                   'complete' if ok else 'argument count differs: positions shift', line=c.lineno, nontrivial=False)

    # ---- R4 ----------------------------------------------------------------
    g = CFG(add.node)
    dom = g.dominators(edge_ok=lambda a, b, lab: lab != 'e')

    def node_calling(callee):
        for n in g.nodes:
            if n.stmt is not None and n.kind == 'stmt':
                for c in calls_in(n.stmt):
                    if resolve_call(prog, add, c) == callee:
                        return n, c
        return None, None
    nf, cf_ = node_calling(flt)
    ns, cs_ = node_calling(sch)
    cnt = wm.func('WritableDatabase._set_flight_count')
    nc, cc_ = node_calling(cnt)
    rets = [n for n in g.nodes if n.kind == 'stmt' and isinstance(n.stmt, ast.Return)
            and isinstance(n.stmt.value, ast.Constant) and n.stmt.value.value is True]
    ctx.floor('C13-R4', len(rets), 1, '`return True` in add')
    for r in rets:
        ok = all(x is not None and x.id in dom[r.id] for x in (nf, ns, nc))
        ctx.ob('C13-R4', add, 'successful import passes flight, schedule and count', ok,
               '_add_flight, _add_schedule and _set_flight_count dominate `return True`' if ok else
               'a row can be reported as imported without its flight record, instances or instance count',
               line=r.line)
    if nc is not None and ns is not None and nf is not None:
        fid = stmt_of(cf_).targets[0].id if isinstance(stmt_of(cf_), ast.Assign) else None
        nfl = stmt_of(cs_).targets[0].id if isinstance(stmt_of(cs_), ast.Assign) else None
        a = [norm(x) for x in cc_.args]
        ok = len(a) == 3 and a[1] == fid and a[2] == nfl
        ctx.ob('C13-R4', add, f'_set_flight_count({", ".join(a)})', ok,
               'count of the instances just created, on the flight just created' if ok else
               'the recorded count is not the number returned by _add_schedule for this flight', line=cc_.lineno)
        sa = [norm(x) for x in cs_.args]
        ok = len(sa) > 2 and sa[2] == fid
        ctx.ob('C13-R4', add, 'instances attached to the flight just created', ok,
               f'flight_id={fid}' if ok else 'schedule rows are attached to a different flight id', line=cs_.lineno,
               nontrivial=False)
    r = [n for n in walk_no_nested(sch.node) if isinstance(n, ast.Return)]
    ok = len(r) == 1 and norm(r[0].value) == 'len(data)'
    ctx.ob('C13-R4', sch, 'returns the number of instances created', ok,
           'len(data)' if ok else '_add_schedule does not return the number of rows it inserts')
    sq = [c for c in calls_in(cnt.node) if call_name(c).endswith('.execute')]
    ok = bool(sq) and 'number_of_flights = ?' in norm(sq[0].args[0]) and norm(sq[0].args[1]) == '(num_flights, flight_id)'
    ctx.ob('C13-R4', cnt, 'UPDATE sets number_of_flights for that id', ok,
           norm(sq[0].args[1]) if ok else 'parameter order of the UPDATE does not match its placeholders')

    # ---- R5 ----------------------------------------------------------------
    rv = om.func('CSVEntry.is_row_valid')
    documented = {'carrier': 'end-of-file marker', 'service': 'service type', 'stops': 'stops',
                  'operating': 'non-operating carrier', 'genacft': 'non-aircraft equipment'}
    nrej = 0
    for n in walk_no_nested(rv.node):
        if isinstance(n, ast.Return) and isinstance(n.value, ast.Constant) and n.value.value is False:
            nrej += 1
            keys = set()
            for t, pol, _ in guards_of(n):
                for x in ast.walk(t):
                    if isinstance(x, ast.Subscript) and norm(x.value) == 'row' and isinstance(x.slice, ast.Constant):
                        keys.add(x.slice.value)
            extra = keys - set(documented)
            ctx.ob('C13-R5', rv, f'row rejected on {sorted(keys)}', not extra and bool(keys),
                   ', '.join(documented[k] for k in keys) if not extra and keys else
                   f'rows are dropped for an undocumented reason ({sorted(extra) or "unconditional"})', line=n.lineno)
    ctx.floor('C13-R5', nrej, 5, 'row rejection sites')
    tests = {norm(t) for n in walk_no_nested(rv.node) if isinstance(n, ast.If) for t in [n.test]}
    exp = {"row['service'] in ('V', 'U')", "int(row['stops']) != 0", "row['operating'] == 'N'",
           "row['genacft'] in EXCLUDE_EQUIPMENT", "row['carrier'] == '\\x1a'"}
    for e in sorted(exp):
        ctx.ob('C13-R5', rv, f'documented test `{e}`', e in tests, 'present' if e in tests else
               'documented rejection test changed or removed', nontrivial=False)
    eq = om.constants.get('EXCLUDE_EQUIPMENT')
    ok = isinstance(eq, ast.Set) and {e.value for e in eq.elts} == {'BUS', 'HOV', 'LCH', 'LMO', 'RFS', 'TRN'}
    ctx.ob('C13-R5', (om.relpath, '<module>'), 'non-aircraft equipment set', bool(ok),
           'BUS HOV LCH LMO RFS TRN' if ok else 'equipment exclusion set changed', nontrivial=False)
    for n in walk_no_nested(add.node):
        if isinstance(n, ast.Return) and isinstance(n.value, ast.Constant) and n.value.value is False:
            gs = [norm(t) for t, pol, _ in guards_of(n)]
            ok = gs in (['origin is None or destination is None'],) or \
                (len(gs) == 1 and gs[0].startswith('not self._distance_check('))
            ctx.ob('C13-R5', add, f'import skipped under {gs}', ok,
                   'unknown airport / implausible distance' if ok else 'row skipped for an undocumented reason',
                   line=n.lineno)

    # ---- R6 ----------------------------------------------------------------
    dr = [c for c in calls_in(sch.node) if call_name(c) in ('pd.date_range', 'pandas.date_range')]
    if len(dr) != 1:
        ctx.undecided('C13-R6', sch, 'pd.date_range', f'{len(dr)} calls')
    c = dr[0]
    bad_kw = [k.arg for k in c.keywords if k.arg in ('inclusive', 'closed', 'periods', 'freq')]
    ok = not bad_kw and [norm(a) for a in c.args[:2]] == ['effective_from', 'effective_to']
    ctx.ob('C13-R6', sch, norm(c), ok, 'inclusive daily range over the two effective dates' if ok else
           f'date range is restricted or not over the effective dates ({bad_kw})', line=c.lineno)
    ctl = ast.parse("pd.date_range(a, b, inclusive='left')").body[0].value
    ctx.control('C13-R6', any(k.arg == 'inclusive' for k in ctl.keywords), 'embedded date_range(..., inclusive=) is recognised')
    loop = next((a for a in ancestors(c) if isinstance(a, ast.For)), None)
    conts = [n for n in ast.walk(loop) if isinstance(n, ast.Continue)] if loop else []
    seen = set()
    for n in conts:
        gs = [(norm(t), pol) for t, pol, _ in guards_of(n, stop=loop)]
        if gs == [('DayOfWeek.from_pandas(flight_date) not in days', True)]:
            seen.add('weekday')
            ctx.ob('C13-R6', sch, 'skip when the weekday is not an operating day', True, gs[0][0], line=n.lineno)
        elif gs == [('arr_timestamp < dep_timestamp', True)]:
            seen.add('misordered')
            blk = getattr(n, '_parent', None)
            warned = any('Warning.Type.TIME_MISORDERING' in norm(s) for s in blk.body[:blk.body.index(n)]) if hasattr(blk, 'body') and n in blk.body else False
            ctx.ob('C13-R6', sch, 'mis-ordered instance dropped only with a warning', warned,
                   'warning recorded before the skip' if warned else 'instance dropped silently', line=n.lineno)
        else:
            ctx.ob('C13-R6', sch, f'instance skipped under {gs}', False,
                   'an instance inside the effective range on an operating day is skipped for another reason',
                   line=n.lineno)
    for what in ('weekday', 'misordered'):
        if what not in seen:
            ctx.ob('C13-R6', sch, f'{what} skip present', False, f'the {what} rule is gone or changed form',
                   line=sch.node.lineno)
    ap = [cc for cc in calls_in(sch.node) if call_name(cc) == 'data.append']
    ok = len(ap) == 1 and not [t for t, pol, o in guards_of(ap[0], stop=loop)]
    ctx.ob('C13-R6', sch, 'every remaining date yields exactly one instance', ok,
           'unconditional append after the two skips' if ok else 'append is conditional or duplicated')
    tm = prog.module('types/time.py')
    fp = tm.func('DayOfWeek.from_pandas')
    r = [n for n in walk_no_nested(fp.node) if isinstance(n, ast.Return)]
    ok = len(r) == 1 and norm(r[0].value) == 'cls(t.isoweekday())'
    members = {k: getattr(v, 'value', None) for k, v in tm.cls('DayOfWeek').class_assignments().items()}
    ok = ok and [members.get(k) for k in ('MONDAY', 'TUESDAY', 'WEDNESDAY', 'THURSDAY', 'FRIDAY', 'SATURDAY', 'SUNDAY')] == list(range(1, 8))
    ctx.ob('C13-R6', fp, 'weekday numbering Monday=1..Sunday=7 via isoweekday()', ok,
           'enum values agree with isoweekday' if ok else 'weekday numbering and conversion disagree')
    # days parsing in from_csv_row
    fr = om.func('CSVEntry.from_csv_row')
    src = ' '.join(norm(s) for s in fr.node.body)
    ok = 'for day in range(1, 8)' in src and "if str(day) in row['days']" in src and 'days.add(DayOfWeek(day))' in src
    ctx.ob('C13-R6', fr, 'operating days parsed as digits 1..7', ok, 'range(1, 8)' if ok else
           'operating-day parsing changed')
    md = om.functions.get('CSVEntry.from_csv_row.<locals>.make_date')
    ok = md is not None and "t == '00000000' or t == '99999999'" in ' '.join(norm(s) for s in md.node.body) \
        and 'date(tint // 10000, tint % 10000 // 100, tint % 100)' in ' '.join(norm(s) for s in md.node.body)
    ctx.ob('C13-R6', fr, 'open-ended markers map to None; YYYYMMDD decoded', bool(ok),
           'make_date' if ok else 'effective-date decoding changed')
    ca = om.functions.get('CSVEntry.from_csv_row.<locals>.convert_arrday')
    ok = ca is not None
    if ok:
        s = ' '.join(norm(x) for x in ca.node.body)
        ok = "case 'P': return -1" in s and "return 0" in s and 'return int(t)' in s
    ctx.ob('C13-R6', fr, "arrival day offset: 'P' = -1, blank = 0, else the digit", bool(ok),
           'convert_arrday' if ok else 'arrival day offset decoding changed')

    # ---- R7 ----------------------------------------------------------------
    rej = None
    for n in walk_no_nested(dck.node):
        if isinstance(n, ast.Return) and isinstance(n.value, ast.Constant) and n.value.value is False:
            gs = [norm(t) for t, pol, _ in guards_of(n)]
            if any('abs_diff' in t for t in gs):
                rej = (n, gs)
    ok = rej is not None and any(
        t.replace(' ', '') == 'abs_diff>abs_difference_threshold_kmandpct_diff>relative_difference_threshold_percent'
        for t in rej[1]) and 'given_distance_km > 0' in rej[1]
    ctx.ob('C13-R7', dck, 'dropped only if absolute AND relative difference exceed their thresholds', ok,
           str(rej[1]) if ok else 'plausibility rule changed (a plausible row can be dropped)',
           line=(rej[0].lineno if rej else dck.node.lineno))
    ad = single_def_value(dck.node, 'abs_diff')
    pdv = single_def_value(dck.node, 'pct_diff')
    ok = ad is not None and norm(ad) == 'abs(given_distance_km - gc_distance_km)' and pdv is not None \
        and norm(pdv) == '100 * abs_diff / gc_distance_km'
    ctx.ob('C13-R7', dck, 'difference measures', ok, 'absolute km and percent of the geodesic distance' if ok else
           'difference measures changed')
    dflt = {a.arg: norm(d) for a, d in zip(dck.node.args.args[-3:], dck.node.args.defaults[-3:])}
    ok = dflt == {'zero_distance_threshold_km': '1.0', 'abs_difference_threshold_km': '50.0',
                  'relative_difference_threshold_percent': '10.0'}
    ctx.ob('C13-R7', dck, f'thresholds {dflt}', ok, '±10 %, ignoring < 50 km' if ok else 'documented thresholds changed',
           nontrivial=False)
    dc = [c for c in calls_in(add.node) if call_name(c) == 'self._distance_check']
    ok = bool(dc) and norm(dc[0].args[-1]) == 'e.distance * STATUTE_MILES_TO_KM'
    ctx.ob('C13-R7', add, 'stated distance converted from statute miles to km', ok,
           'e.distance * STATUTE_MILES_TO_KM' if ok else 'stated distance is compared in the wrong unit')
    # ---- R8: every airport the shipped data names is known to the importer ------------------------------------
    # (a row is skipped as "unknown airport" only when the data really lack that code: the reader admits every row
    # that carries an IATA code — the historical airports of the patch file are records of type `closed`)
    am = prog.module('utils/airports.py')
    rf = am.func('AirportsData._read_file')
    comps = [x for x in ast.walk(rf.node) if isinstance(x, (ast.DictComp, ast.ListComp, ast.GeneratorExp))
             and any(norm(g.iter) == 'reader' for g in x.generators)]
    loops = [x for x in ast.walk(rf.node) if isinstance(x, ast.For) and norm(x.iter) == 'reader']
    ctx.floor('C13-R8', len(comps) + len(loops), 1, 'row loops in AirportsData._read_file')
    for x in comps:
        ifs = [norm(i) for g in x.generators for i in g.ifs]
        ok = ifs == ["row['iata_code']"]
        ctx.ob('C13-R8', rf, f'airport rows kept when {ifs}', ok, 'every row with an IATA code is read' if ok else
               ('rows with an IATA code are filtered out of the airport table: schedule rows touching those airports '
                '(the patch file\'s historical airports are of type `closed`) are dropped as "unknown airport" although the '
                'shipped data name them'), line=x.lineno)
    for lp in loops:
        esc = [y for y in ast.walk(lp) if isinstance(y, ast.Continue)]
        conds = [norm(t) for y in esc for t, pol, o in guards_of(y) if any(a is lp for a in ancestors_(o))]
        ok = all('iata_code' in c_ and 'type' not in c_ for c_ in conds)
        ctx.ob('C13-R8', rf, f'airport rows skipped when {conds}', ok, 'only rows without an IATA code are skipped' if ok else
               'rows with an IATA code are skipped', line=lp.lineno)
    ctx.assumptions += ['time-zone arithmetic (zoneinfo, DST) and pandas date_range semantics are trusted',
                        'identifier names carry their role']
