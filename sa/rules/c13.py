"""C13 — schedule import creates exactly the flight instances the row implies.

Rules decide *what is computed*, not how it is spelled: values are followed through
single-definition locals and through resolved callees (`_Sym`, a symbolic executor that
turns straight-line code with if/else and early returns into one conditional expression),
and the pure row-decoding functions are evaluated by the checker's own interpreter of
the extracted AST (`_Interp`; nothing from the repository is imported or run) on the finite
table of field values the schedule format documents.

The writers are read as one function over their parameters (`_writers_as_written_once`, before
any rule runs): a generator function or method of the writer's module that one `for` loop of
`_add_schedule` / `_add_flight` consumes runs in the place of that loop
(astutil.splice_generator_loops; a function that only computes and returns the list of what it
appends is read as its generator, astutil.accumulator_as_generator: one `yield <value>` written as a statement outside try / with,
no `return`; `continue` in the consumer needs the yield to be the last thing the generator's loop
body does, `break` needs that loop to be the generator's last statement; anything else is left
alone; a generator drained on the spot - `X = list(g(..))`, `[*g(..)]`, `[v for v in g(..)]`, `X.extend(g(..))`,
`X += g(..)` - is first written as the loop that appends what it yields, astutil.drains_as_loops), and a parameter that is a record object of the program (a @dataclass / NamedTuple that only
stores its constructor arguments) read only by field, for which every call in the program passes
a construction, is one parameter per field with the constructor's arguments passed at the call
(`_dissolve_record_parameters`).  Values are followed through `a, b = <display>` and through
components read off a written-out value (`(a, b)[1]`, `K(a, y=b).y` of a record class).

R1  geodesic argument roles at the distance plausibility rule (T-ROLE); the distance is
    between origin and destination.  Every inverse-geodesic call that runs on behalf of
    `_distance_check` is examined - written there or in a function reached from it through
    resolved calls (any file, any depth up to 3) - and each of its four slots (positional,
    `*pair` of a tuple-valued expression, or by slot name) is followed back, through locals,
    tuple unpacking and the parameters of the helpers on the way, to an expression over the
    parameters of `_distance_check`.  The role (lat / lon) is that of the value that arrives,
    not of a parameter name on the way, so the construct key names roles, not argument text,
    and the finding is stated at `_distance_check`, the function that supplies the airports'
    coordinates, wherever the call is written.  End points: slots 0/1 are coordinates of one
    of origin / destination only, slots 2/3 of the other one only (the distance is symmetric;
    which end comes first is immaterial).  (That the *distance* component, in km, is what the
    thresholds see is decided by R7's evaluation.)
R2  open-ended effective dates.  For each of the `effective_from` / `effective_to`
    parameters of _add_flight and _add_schedule the value passed by the importer is
    followed back (through locals, tuple results and helper methods of any class) to a
    case list.  Every case that is the row's own optional date is guarded by that date
    being set (otherwise None reaches pd.date_range); every other case is a date whose
    year is the data year given to the database's constructor and whose month/day are
    1 January (from) / 31 December (to).  Also (program-wide in the thorough tier): once
    `x_d = opt or default` exists in a function the raw optional is not passed to a callee.
R3  leg roles and instants.  The value stored in each timestamp column is resolved to one
    expression over the parameters and the loop date: single-definition locals are
    substituted, a local that is bound and then updated (`t = …; t += d`, `if c: t = t + d`)
    has the value it has at the append (statements executed in order along the path to it),
    and calls of small repository functions - functions nested in `_add_schedule` (their free
    variables are its locals), module functions, methods - are replaced by what they return,
    with the branches a constant argument does not take removed.  The departure instant uses
    only departure-role names and the origin's zone, the arrival instant only arrival-role
    names, the destination's zone, and is the only user of the arrival day offset.  The
    zone-aware instant is built *per flight date from that date*: the value that is localised
    depends on the date of the per-day loop (a UTC offset taken once per flight is wrong
    across a DST change).  Wall-clock arithmetic first, localisation last: nothing that counts
    *elapsed* time is added to the instant once it carries its zone - a timedelta / Timedelta
    added to a zone-aware pandas Timestamp (the loop date of pd.date_range and what is
    derived from it) is exactly 24 h per day, and so is anything added to its epoch seconds or
    to its UTC conversion, whereas the schedule's times and the arrival day offset are
    wall-clock quantities of the airport's zone.  Not elapsed-time arithmetic, by the kind of
    the operands: `pd.DateOffset` over calendar units, `+ timedelta` on a datetime.datetime
    that still carries its ZoneInfo (both move the wall clock and look the offset up again),
    the difference of two instants, `<value> - <zone>.utcoffset(<value>)` (which counts as
    localising that value), and an addend that is zero by its constants (`timedelta(days=0)`: what a
    shared helper adds for the departure, called with an offset of 0); an addend or a value of unknown kind
    is undecided.
    hour→hours, minute→minutes.  The INSERT statements are *computed* (literals,
    f-strings, joins, repetition, module constants and single-definition locals folded by the
    checker's evaluator), so column lists are what the database sees wherever they are
    spelled; columns, placeholders and the value tuple / NamedTuple, and the arguments passed
    by the importer, agree position by position in role (antonym pairs departure/arrival,
    origin/destination, from/to).
R4  count recorded (T-ORDER): every path of `add` to `return True` passes
    _add_flight, _add_schedule and _set_flight_count(…, n) with n the return of
    _add_schedule and the id returned by _add_flight.  What is counted is written
    before it is committed: `_add_schedule` returns the number of elements the list of
    instances has at the return - `len(<list>)`, a local bound to that after the last
    append, or a counter set to 0 and incremented by one next to every append (same
    statement list, nothing between the two that can leave it); 0 only on a path where
    the list is known to be empty.  The length of another sequence (the dates the loop
    ran over), a counter incremented where nothing is appended, and - read on the
    function as written - a length taken before the list is complete are reported with
    what is returned.  On every
    path to a return that list has been handed to the schedules INSERT
    (`executemany` of a statement whose computed text is INSERT INTO schedules) or is
    known to be empty (may-analysis on the CFG with the outcomes of emptiness tests).
    When the list is instead moved into a list attribute of the database object
    (a cross-flight buffer that some method INSERTs), then over all methods of the
    class family (bases and subclasses): every `commit()` on the connection is
    reached only on paths on which the buffer has been written (an INSERT of it, a
    call of a method that writes it on all its paths) or is known to be empty; the
    buffer is emptied only once written (or taken into a local that is written),
    and every INSERT of it comes with emptying it.  Positive control embedded
    (a buffering importer that commits on the connection without flushing).
R5  rejection sites ⊆ documented reasons; `is_row_valid` evaluated on the table of
    documented field values rejects exactly the documented ones.  In `add` every `return False`
    is taken only for an airport look-up that gave None or a distance check that failed: each
    guard atom is such a reason (or a disjunction of them, or the complement of one left behind
    by an earlier exit of an if/elif chain, next to a reason).  An atom about a value that is no
    reason by itself (`v is None`, `not v`, `v`) is followed into v: a local bound on several
    branches has the conditional value it has at the test, a call of a repository function the
    values of its exits (and of running off its end); every way to the skipping value must be
    taken for documented reasons only, whatever helper or local carries the verdict (depth 4).
R6  expansion shape: inclusive daily pd.date_range over the two effective dates
    (zero-expected `inclusive=`/`closed=`/`periods=`/`freq=` with positive control).  What
    the per-day loop iterates over is followed to that call - through locals, list()/tuple()
    copies, comprehensions / generator expressions / `filter(lambda ...)` whose element is
    the date itself, and small repository functions that return such an expression or are
    a generator of the shape `for d in <dates>: if c: yield d`, and a list that an earlier
    loop of the same block fills with its own loop variable (`L = []; for d in <dates>:
    if c: L.append(d)` is `[d for d in <dates> if c]`; that filling loop is then not a
    per-day loop of its own); a slice that is not the
    whole sequence is a violation, a mapped or reordered sequence is undecided.  Per
    date the instance is skipped exactly when its weekday is not in the operating set or
    its arrival precedes its departure (the latter only with the warning) — decided on
    the guard *atoms* of every `continue`, of the append, and of every filter the dates
    pass through on the way to the loop (a filter is `if not c: continue`), whatever their
    nesting (a `continue` has exactly one of the two reasons among its atoms; the others only
    say the instance was not to be skipped for the other reason); everything else is appended
    once and counted.  A `break` of the per-day loop is a violation whatever it is guarded by:
    it drops every later date of the range.  The warning is recorded on the branch that drops
    the instance, or *deferred* (`_deferred_report`): the branch sets a mark (flag set to a truthy
    constant / `F = F or <arrival precedes departure>` / counter incremented / list or set grown)
    that is falsy before the loop and never made falsy in it, and after the loop - no return, raise
    or store to the mark in between - the warning is recorded under a test whose failing implies
    the mark is falsy (`if F:`, `if n > 0:`, `if len(bad):`) or once per element (`for x in F:`).
    A warning after the loop whose condition reads nothing the loop changes is no warning for
    the dropped instance; one that cannot be related to a mark is undecided.  Row decoding (`from_csv_row`)
    evaluated on tables: all 128 weekday sets in both encodings, arrival-day codes
    'P'/blank/0/1/2, open-ended markers and YYYYMMDD dates, HHMM times, flight number,
    end-point roles.
R7  plausibility rule, by evaluation: _distance_check is run by the checker's interpreter
    with the inverse-geodesic call (four coordinate slots on a Geod object, however written)
    answered by (azimuth, azimuth, metres), on a grid with a
    point in every region of: geodesic distance against the zero threshold, stated distance
    against 0, absolute difference against its threshold, relative difference against its
    threshold - with the documented thresholds (defaults) and with a second set passed
    explicitly.  Dropped iff geodesic < zero threshold, or stated > 0 and |stated - geodesic|
    > abs threshold and 100 |...| / geodesic > percent threshold; guard clauses, flags, early
    returns, helper methods and tuple unpacking of the geodesic result are all the same
    function.  The stated distance reaches it as <row distance> x 1.609344 by value, at the call
    of `_distance_check` written in `add` or in a repository function `add` hands its values to
    (arguments followed back through the helpers' parameters, depth 3).
R8  the airport reader admits every row that carries an IATA code.
"""

from __future__ import annotations

import ast
import datetime as _dt
import itertools
import re
from fractions import Fraction

from ..astutil import (LOG_CALLS, accumulator_as_generator, drains_as_loops, fold_drained_appends, ancestors, call_name, calls_in, conjuncts, const_value, guards_of, is_within, local_defs,
                       names_in, norm, set_parents, single_def_value, splice_generator_loops, stmt_of, stores_to, tuple_def_component,
                       walk_no_nested)
from ..cfg import CFG
from ..loader import dotted_name, parent
from ..resolve import resolve_call
from ..roles import GEOD_SIG, expr_role, is_geod_receiver

OAG = 'missions/oag.py'
WDB = 'missions/writable_database.py'

ANTONYMS = [
    ({'departure', 'dep', 'deptim', 'depapt', 'depctry'}, {'arrival', 'arr', 'arrtim', 'arrapt', 'arrctry', 'arrday'}, 'departure/arrival'),
    ({'origin'}, {'destination', 'dest'}, 'origin/destination'),
    ({'from', 'efffrom'}, {'to', 'effto'}, 'from/to'),
]


def _tokens(text: str) -> set[str]:
    return {t for t in re.split(r'[^A-Za-z]+', text.lower()) if t}


def _idents(e: ast.AST) -> set[str]:
    out = set()
    for x in ast.walk(e):
        if isinstance(x, ast.Name):
            out |= _tokens(x.id)
        elif isinstance(x, ast.Attribute):
            out |= _tokens(x.attr)
    return out


def role_conflict(slot: str, value: ast.AST) -> str | None:
    """definite conflict between a slot name and the identifiers of a value"""
    st = _tokens(slot)
    vt = _idents(value)
    for a, b, label in ANTONYMS:
        if st & a and not st & b:
            if vt & b and not vt & a:
                return f'{label}: slot `{slot}` receives `{norm(value)[:50]}`'
        if st & b and not st & a:
            if vt & a and not vt & b:
                return f'{label}: slot `{slot}` receives `{norm(value)[:50]}`'
    return None


def ancestors_(n):
    return list(ancestors(n))


# ====================================================================================================
# A. copies and substitution of single-definition locals
# ====================================================================================================

_LOC = ('lineno', 'col_offset', 'end_lineno', 'end_col_offset')
_KEEP = ('_fi', '_callee')


def _shell(n: ast.AST) -> ast.AST:
    new = n.__class__()
    for a in _LOC + _KEEP:
        if hasattr(n, a):
            setattr(new, a, getattr(n, a))
    return new


def _clone(n):
    """copy without the loader's parent links (copy.deepcopy would follow them through the whole module)"""
    if isinstance(n, ast.AST):
        new = _shell(n)
        for f in n._fields:
            setattr(new, f, _clone(getattr(n, f, None)))
        return new
    if isinstance(n, list):
        return [_clone(x) for x in n]
    return n


def _subst(fn: ast.AST, e: ast.AST, _seen: frozenset = frozenset()) -> ast.AST:
    """e with every single-definition local of fn replaced by its value, recursively (parameters, loop targets and
    names bound more than once stay)"""
    if isinstance(e, ast.Name) and isinstance(e.ctx, ast.Load) and e.id not in _seen and len(_seen) < 12:
        d = single_def_value(fn, e.id)
        if d is not None:
            return _subst(fn, d, _seen | {e.id})
        tc = tuple_def_component(fn, e.id)
        if tc is not None:
            # `a, b, c = <tuple display>` (written there, or held by a local bound once to it): the component, when the
            # display does not read what the unpacking binds
            tgt = local_defs(fn, e.id)[0].targets[0]
            names = {x.id for x in ast.walk(tgt) if isinstance(x, ast.Name)}
            if not any(isinstance(x, ast.Starred) for x in tgt.elts) and all(isinstance(x, ast.Name) for x in tgt.elts):
                r = _subst(fn, tc[0], _seen | names)
                if isinstance(r, (ast.Tuple, ast.List)) and len(r.elts) == len(tgt.elts) \
                        and not any(isinstance(x, ast.Starred) for x in r.elts) \
                        and not any(isinstance(x, ast.Name) and x.id in names for x in ast.walk(r)):
                    return r.elts[tc[1]]
        return _clone(e)
    if isinstance(e, ast.AST):
        new = _shell(e)
        for f in e._fields:
            setattr(new, f, _subst(fn, getattr(e, f, None), _seen))
        return _project(new)
    if isinstance(e, list):
        return [_subst(fn, x, _seen) for x in e]
    return e


# record classes of the program (a @dataclass / NamedTuple that only stores its constructor arguments), by the name they
# are constructed under, when that name is unique in the program: name -> fields in order.  Filled by run().
_RECORDS: dict[str, list[str]] = {}


def _project(e):
    """a component read off a value that is written out: `(a, b, c)[1]` is b, `K(a, y=b).y` of a record class K is b
    (the other components are effect-free expressions: names, attributes, constants, arithmetic, calls are kept out)"""
    if isinstance(e, ast.Subscript) and isinstance(e.value, (ast.Tuple, ast.List)) and isinstance(e.slice, ast.Constant) \
            and type(e.slice.value) is int and not any(isinstance(x, ast.Starred) for x in e.value.elts) \
            and -len(e.value.elts) <= e.slice.value < len(e.value.elts):
        return e.value.elts[e.slice.value]
    if isinstance(e, (ast.Attribute, ast.Subscript)) and isinstance(e.value, ast.Call) and isinstance(e.value.func, (ast.Name, ast.Attribute)):
        c = e.value
        fields = _RECORDS.get(c.func.id if isinstance(c.func, ast.Name) else c.func.attr)
        if fields and not any(isinstance(a, ast.Starred) for a in c.args) and not any(k.arg is None for k in c.keywords) \
                and len(c.args) <= len(fields):
            amap = dict(zip(fields, c.args))
            amap.update({k.arg: k.value for k in c.keywords})
            key = e.attr if isinstance(e, ast.Attribute) else (
                fields[e.slice.value] if isinstance(e.slice, ast.Constant) and type(e.slice.value) is int
                and -len(fields) <= e.slice.value < len(fields) else None)
            if key in amap:
                return amap[key]
    return e


def _arg_map(callee, c: ast.Call) -> dict[str, ast.expr]:
    """parameter name -> argument expression of call c (receiver not included)"""
    ps = callee.params
    if callee.cls is not None and not any('staticmethod' in d for d in callee.decorators()):
        ps = ps[1:]
    out = {}
    for p, a in zip(ps, c.args):
        if isinstance(a, ast.Starred):
            break
        out[p] = a
    for k in c.keywords:
        if k.arg:
            out[k.arg] = k.value
    return out


# ====================================================================================================
# B. symbolic execution: a function body as one conditional expression
# ====================================================================================================

def _opaque(name: str) -> ast.Name:
    n = ast.Name(id=f'<{name}?>', ctx=ast.Load())
    n._opaque = True
    return n


def _same(a, b) -> bool:
    return a is b or (a is not None and b is not None and ast.dump(a) == ast.dump(b))


class _Sym:
    """Symbolic values are expressions over the *root* frame's parameters and attributes.  `block` walks statements
    in order (Assign / AugAssign / If with both-way merge as a conditional expression / early return); loops, try and
    match make what they assign opaque.  `ev` substitutes names and tags every call with the callee resolved in the
    frame the call was written in; `expand` replaces tagged calls of small repository functions by their symbolic
    return value (any class: resolution is by annotation, not by file)."""

    MAX_DEPTH = 4

    def __init__(self, prog):
        self.prog = prog

    def ev(self, fi, n, env):
        if isinstance(n, ast.Name) and isinstance(n.ctx, ast.Load) and n.id in env:
            return env[n.id]
        if isinstance(n, ast.AST):
            new = _shell(n)
            for f in n._fields:
                setattr(new, f, self.ev(fi, getattr(n, f, None), env))
            if not hasattr(new, '_fi'):
                new._fi = fi
            if isinstance(n, ast.Call) and not hasattr(new, '_callee'):
                try:
                    new._callee = resolve_call(self.prog, fi, n)
                except Exception:
                    new._callee = None
            return new
        if isinstance(n, list):
            return [self.ev(fi, x, env) for x in n]
        return n

    def bind(self, env, t, v):
        if isinstance(t, ast.Name):
            env[t.id] = v
        elif isinstance(t, (ast.Tuple, ast.List)):
            for i, el in enumerate(t.elts):
                if isinstance(el, ast.Starred):
                    for nm in names_in(el):
                        env[nm] = _opaque(nm)
                    continue
                if isinstance(v, (ast.Tuple, ast.List)) and len(v.elts) == len(t.elts):
                    self.bind(env, el, v.elts[i])
                else:
                    s = ast.Subscript(value=v, slice=ast.Constant(value=i), ctx=ast.Load())
                    for a in _LOC:
                        if hasattr(v, a):
                            setattr(s, a, getattr(v, a))
                    self.bind(env, el, s)

    def block(self, fi, stmts, env, rets, guards, sites):
        """env after the block, or None when no path falls out of it"""
        for st in stmts:
            if isinstance(st, ast.Return):
                if st.value is not None:
                    for c in calls_in(st.value):
                        sites[id(c)] = dict(env)
                rets.append((list(guards), self.ev(fi, st.value, env) if st.value is not None else ast.Constant(value=None)))
                return None
            if isinstance(st, (ast.Raise, ast.Continue, ast.Break)):
                return None
            heads = [st] if not isinstance(st, (ast.If, ast.For, ast.While, ast.Try, ast.With, ast.Match,
                                                ast.FunctionDef, ast.ClassDef)) else \
                [getattr(st, 'test', None) or getattr(st, 'iter', None) or getattr(st, 'subject', None)]
            for h in heads:
                if h is not None:
                    for c in calls_in(h):
                        sites[id(c)] = dict(env)
            if isinstance(st, ast.Assign):
                v = self.ev(fi, st.value, env)
                for t in st.targets:
                    self.bind(env, t, v)
            elif isinstance(st, ast.AnnAssign):
                if st.value is not None:
                    self.bind(env, st.target, self.ev(fi, st.value, env))
            elif isinstance(st, ast.AugAssign):
                if isinstance(st.target, ast.Name):
                    cur = env.get(st.target.id) or ast.Name(id=st.target.id, ctx=ast.Load())
                    env[st.target.id] = ast.BinOp(left=cur, op=st.op, right=self.ev(fi, st.value, env))
            elif isinstance(st, ast.If):
                t = self.ev(fi, st.test, env)
                e1 = self.block(fi, st.body, dict(env), rets, guards + [(t, True)], sites)
                e2 = self.block(fi, st.orelse, dict(env), rets, guards + [(t, False)], sites)
                if e1 is None and e2 is None:
                    return None
                if e1 is None:
                    env.clear(); env.update(e2)
                    guards = guards + [(t, False)]
                elif e2 is None:
                    env.clear(); env.update(e1)
                    guards = guards + [(t, True)]
                else:
                    merged = {}
                    for k in set(e1) | set(e2):
                        a = e1.get(k) or ast.Name(id=k, ctx=ast.Load())
                        b = e2.get(k) or ast.Name(id=k, ctx=ast.Load())
                        merged[k] = a if _same(a, b) else ast.IfExp(test=t, body=a, orelse=b)
                    env.clear(); env.update(merged)
            elif isinstance(st, ast.With):
                for it in st.items:
                    if it.optional_vars is not None:
                        for nm in names_in(it.optional_vars):
                            env[nm] = _opaque(nm)
                e1 = self.block(fi, st.body, env, rets, guards, sites)
                if e1 is None:
                    return None
            elif isinstance(st, (ast.For, ast.While, ast.Try, ast.Match)):
                for t, _, _ in stores_to(st):
                    for nm in names_in(t):
                        env[nm] = _opaque(nm)
                for x in walk_no_nested(st):
                    if isinstance(x, ast.ExceptHandler) and x.name:
                        env[x.name] = _opaque(x.name)
                    if isinstance(x, ast.Call):
                        sites.setdefault(id(x), dict(env))
                if any(isinstance(x, ast.Return) for x in walk_no_nested(st)):
                    rets.append((list(guards) + [(_opaque('path'), True)], _opaque('return')))
            elif isinstance(st, (ast.FunctionDef, ast.ClassDef)):
                env.pop(st.name, None)
        return env

    @staticmethod
    def conj(guards):
        ts = [t if pol else ast.UnaryOp(op=ast.Not(), operand=t) for t, pol in guards]
        return ts[0] if len(ts) == 1 else ast.BoolOp(op=ast.And(), values=ts)

    def fold(self, rets):
        expr = None
        for guards, v in reversed(rets):
            if expr is None or not guards:
                expr = v
            else:
                expr = ast.IfExp(test=self.conj(guards), body=v, orelse=expr)
        return expr if expr is not None else ast.Constant(value=None)

    def returns(self, callee, env):
        rets = []
        e = self.block(callee, callee.node.body, env, rets, [], {})
        if e is not None:
            rets.append(([], ast.Constant(value=None)))
        return self.fold(rets)

    def inline(self, c: ast.Call, depth: int):
        callee = getattr(c, '_callee', None)
        if callee is None or depth >= self.MAX_DEPTH or callee.name in ('__init__', '__post_init__'):
            return None
        a = callee.node.args
        if a.vararg or a.kwarg or sum(1 for _ in ast.walk(callee.node)) > 400:
            return None
        if any(isinstance(x, (ast.Yield, ast.YieldFrom, ast.Await)) for x in ast.walk(callee.node)):
            return None
        decs = callee.decorators()
        if any(d for d in decs if not any(k in d for k in ('staticmethod', 'classmethod'))):
            return None
        ps = callee.params
        env = {}
        nested = callee.qualname.rsplit('.', 1)[0].endswith('<locals>')   # a function defined inside a method is no method
        if callee.cls is not None and not nested and not any('staticmethod' in d for d in decs) and ps:
            if not isinstance(c.func, ast.Attribute):
                return None
            env[ps[0]] = c.func.value
            ps = ps[1:]
        if any(isinstance(x, ast.Starred) for x in c.args) or any(k.arg is None for k in c.keywords) \
                or len(c.args) > len(ps):
            return None
        for p, v in zip(ps, c.args):
            env[p] = v
        for k in c.keywords:
            if k.arg not in ps:
                return None
            env[k.arg] = k.value
        pos = a.posonlyargs + a.args
        for arg, d in list(zip(pos[len(pos) - len(a.defaults):], a.defaults)) + \
                [(x, d) for x, d in zip(a.kwonlyargs, a.kw_defaults) if d is not None]:
            env.setdefault(arg.arg, self.ev(callee, d, {}))
        if any(p not in env for p in ps):
            return None
        r = self.returns(callee, env)
        if any(getattr(x, '_opaque', False) for x in ast.walk(r)):
            return None
        return r

    def expand(self, e, depth=0):
        """inline tagged calls bottom-up; select tuple components"""
        if isinstance(e, list):
            return [self.expand(x, depth) for x in e]
        if not isinstance(e, ast.AST):
            return e
        new = _shell(e)
        for f in e._fields:
            setattr(new, f, self.expand(getattr(e, f, None), depth))
        if isinstance(new, ast.Call):
            r = self.inline(new, depth)
            if r is not None:
                return self.expand(r, depth + 1)
        if isinstance(new, ast.Subscript):
            return self.select(new.value, new.slice) or new
        return new

    def select(self, v, sl):
        i = const_value(sl)
        if not isinstance(i, int):
            return None
        if isinstance(v, (ast.Tuple, ast.List)) and -len(v.elts) <= i < len(v.elts):
            return v.elts[i]
        if isinstance(v, ast.IfExp):
            a, b = self.select(v.body, sl), self.select(v.orelse, sl)
            if a is not None and b is not None:
                return ast.IfExp(test=v.test, body=a, orelse=b)
        return None


def _cases(e, guards=()):
    """[(guards, leaf)]: the values a conditional / `or`-defaulted expression can take"""
    if isinstance(e, ast.IfExp):
        return _cases(e.body, guards + ((e.test, True),)) + _cases(e.orelse, guards + ((e.test, False),))
    if isinstance(e, ast.BoolOp) and isinstance(e.op, ast.Or):
        out, g = [], guards
        for v in e.values[:-1]:
            out.append((g + ((v, True),), v))
            g = g + ((v, False),)
        return out + _cases(e.values[-1], g)
    return [(tuple(guards), e)]


def _atoms(guards):
    return [a for t, pol in guards for a in conjuncts(t, pol)]


def _guarded_set(guards, leaf) -> bool:
    """do the guards establish that `leaf` (an optional value) is set?"""
    key = norm(leaf)
    for t, pol in _atoms(guards):
        if norm(t) == key and pol:
            return True
        if isinstance(t, ast.Compare) and len(t.ops) == 1 and norm(t.left) == key \
                and const_value(t.comparators[0]) is None and isinstance(t.comparators[0], ast.Constant):
            if isinstance(t.ops[0], (ast.IsNot, ast.NotEq)) and pol:
                return True
            if isinstance(t.ops[0], (ast.Is, ast.Eq)) and not pol:
                return True
    return False


def _guarded_unset(guards, key: str) -> bool:
    for t, pol in _atoms(guards):
        if norm(t) == key and not pol:
            return True
        if isinstance(t, ast.Compare) and len(t.ops) == 1 and norm(t.left) == key \
                and isinstance(t.comparators[0], ast.Constant) and t.comparators[0].value is None:
            if isinstance(t.ops[0], (ast.Is, ast.Eq)) and pol:
                return True
            if isinstance(t.ops[0], (ast.IsNot, ast.NotEq)) and not pol:
                return True
    return False


class _Undecided(Exception):
    pass


def _date_cases(e, guards=()):
    """[(guards, (year, month, day))] with symbolic components, for an expression that denotes a calendar date"""
    out = []
    for g, leaf in _cases(e, tuple(guards)):
        if isinstance(leaf, ast.Call):
            nm = call_name(leaf).split('.')[-1]
            if nm == 'date' and not any(isinstance(a, ast.Starred) for a in leaf.args):
                comp = dict(zip(('year', 'month', 'day'), leaf.args))
                comp.update({k.arg: k.value for k in leaf.keywords})
                if set(comp) == {'year', 'month', 'day'}:
                    out.append((g, (comp['year'], comp['month'], comp['day'])))
                    continue
            if nm == 'replace' and isinstance(leaf.func, ast.Attribute) and not leaf.args \
                    and all(k.arg in ('year', 'month', 'day') for k in leaf.keywords):
                kw = {k.arg: k.value for k in leaf.keywords}
                for g2, (y, m, d) in _date_cases(leaf.func.value, g):
                    out.append((g2, (kw.get('year', y), kw.get('month', m), kw.get('day', d))))
                continue
            raise _Undecided(norm(leaf)[:60])
        if isinstance(leaf, ast.BinOp) and isinstance(leaf.op, ast.Sub) and isinstance(leaf.right, ast.Call) \
                and call_name(leaf.right).split('.')[-1] == 'timedelta' \
                and [(k.arg, const_value(k.value)) for k in leaf.right.keywords] + \
                    [('days', const_value(a)) for a in leaf.right.args[:1]] == [('days', 1)]:
            for g2, (y, m, d) in _date_cases(leaf.left, g):
                if const_value(m) == 1 and const_value(d) == 1 and isinstance(y, ast.BinOp) and isinstance(y.op, ast.Add) \
                        and const_value(y.right) == 1:
                    out.append((g2, (y.left, ast.Constant(value=12), ast.Constant(value=31))))
                else:
                    raise _Undecided(norm(leaf)[:60])
            continue
        if dotted_name(leaf):
            out.append((g, tuple(ast.Attribute(value=leaf, attr=a, ctx=ast.Load()) for a in ('year', 'month', 'day'))))
            continue
        raise _Undecided(norm(leaf)[:60])
    return out


def _scalar_cases(e):
    """cases of a scalar that may be `<date expression>.year`"""
    if isinstance(e, ast.Attribute) and e.attr in ('year', 'month', 'day') and not dotted_name(e):
        i = ('year', 'month', 'day').index(e.attr)
        return [t[i] for _, t in _date_cases(e.value)]
    return [e]


# ====================================================================================================
# C. interpreter of extracted pure functions over explicit values (the checker's own evaluator)
# ====================================================================================================

class _Undecidable(Exception):
    """the interpreter met a construct it does not model"""


class _Raised(Exception):
    """the interpreted code raises"""
    def __init__(self, exc):
        super().__init__(repr(exc))
        self.exc = exc


class _Return(Exception):
    def __init__(self, value):
        self.value = value


class _Break(Exception):
    pass


class _Continue(Exception):
    pass


class _Rec:
    """instance of a repository class: class name + field values"""
    def __init__(self, cls, fields, ci=None):
        self.cls, self.fields, self.ci = cls, fields, ci

    def _k(self):
        return (self.cls, tuple(sorted(self.fields.items(), key=lambda kv: kv[0])))

    def __eq__(self, o):
        return isinstance(o, _Rec) and self.cls == o.cls and self.fields == o.fields

    def __hash__(self):
        return hash(self._k())

    def __repr__(self):
        return f'{self.cls}({", ".join(f"{k}={v!r}" for k, v in self.fields.items())})'


class _ClassRef:
    def __init__(self, ci):
        self.ci = ci


class _Fn:
    def __init__(self, fi, node, scopes):
        self.fi, self.node, self.scopes = fi, node, scopes


_BUILTINS = {n: getattr(__builtins__, n) if not isinstance(__builtins__, dict) else __builtins__[n] for n in (
    'int', 'str', 'len', 'range', 'set', 'frozenset', 'bool', 'float', 'abs', 'min', 'max', 'list', 'tuple', 'dict',
    'sorted', 'any', 'all', 'sum', 'enumerate', 'zip', 'reversed', 'isinstance', 'divmod', 'round', 'repr', 'ord', 'chr',
    'Exception', 'ValueError', 'KeyError', 'TypeError', 'IndexError', 'AttributeError', 'RuntimeError', 'LookupError',
    'ArithmeticError', 'ZeroDivisionError', 'BaseException')}
_STDLIB = {'datetime.date': _dt.date, 'datetime.datetime': _dt.datetime, 'datetime.timedelta': _dt.timedelta,
           'datetime.time': _dt.time}
_METHODS = {
    str: {'strip', 'lstrip', 'rstrip', 'upper', 'lower', 'isdigit', 'isspace', 'startswith', 'endswith', 'split', 'zfill',
          'replace', 'find', 'index', 'count', 'isnumeric', 'isdecimal', 'removeprefix', 'removesuffix', 'join', 'format',
          'isalpha', 'partition', 'ljust', 'rjust'},
    dict: {'get', 'keys', 'values', 'items', 'copy'},
    set: {'add', 'update', 'discard', 'remove', 'union', 'copy', 'intersection', 'issubset', 'difference'},
    frozenset: {'union', 'copy', 'intersection', 'issubset', 'difference'},
    list: {'append', 'extend', 'copy', 'index', 'count', 'insert'},
    tuple: {'index', 'count'},
    _dt.datetime: {'replace', 'date', 'isoformat', 'weekday', 'isoweekday', 'time'},
    _dt.date: {'replace', 'isoformat', 'weekday', 'isoweekday'},
}
_CLASS_METHODS = {_dt.datetime: {'strptime', 'fromisoformat', 'combine'}, _dt.date: {'fromisoformat'}}
_BINOPS = {ast.Add: lambda a, b: a + b, ast.Sub: lambda a, b: a - b, ast.Mult: lambda a, b: a * b,
           ast.Div: lambda a, b: a / b, ast.FloorDiv: lambda a, b: a // b, ast.Mod: lambda a, b: a % b,
           ast.Pow: lambda a, b: a ** b, ast.BitOr: lambda a, b: a | b, ast.BitAnd: lambda a, b: a & b}
_CMPOPS = {ast.Eq: lambda x, y: x == y, ast.NotEq: lambda x, y: x != y, ast.Lt: lambda x, y: x < y,
           ast.LtE: lambda x, y: x <= y, ast.Gt: lambda x, y: x > y, ast.GtE: lambda x, y: x >= y,
           ast.In: lambda x, y: x in y, ast.NotIn: lambda x, y: x not in y,
           ast.Is: lambda x, y: x is y, ast.IsNot: lambda x, y: x is not y}


def _is_enum(ci) -> bool:
    return any(b.split('.')[-1] in ('Enum', 'IntEnum', 'StrEnum', 'Flag') for c in ci.mro() for b in c.base_exprs)


class _Ctx:
    """module context of interpreted code (stands in for a FunctionInfo: only `.module` is used)"""
    def __init__(self, module):
        self.module = module


def _raw_index(m):
    """functions / module constants of a module *as written* (the file's own text, before the loader's normalisation
    passes): an evaluator needs no canonical spelling, and what it decides is then a statement about the source itself"""
    idx = getattr(m, '_c13_raw', None)
    if idx is not None:
        return idx
    fns, consts = {}, {}
    try:
        tree = ast.parse(m.source)
    except SyntaxError:
        tree = None

    def walk(body, prefix):
        for st in body:
            if isinstance(st, (ast.FunctionDef, ast.AsyncFunctionDef)):
                fns.setdefault(prefix + st.name, st)
                walk(st.body, prefix + st.name + '.<locals>.')
            elif isinstance(st, ast.ClassDef):
                walk(st.body, prefix + st.name + '.')
            elif isinstance(st, (ast.If, ast.Try, ast.With)):
                walk(st.body, prefix)
                walk(getattr(st, 'orelse', []), prefix)
    if tree is not None:
        walk(tree.body, '')
        for st in tree.body:
            if isinstance(st, ast.Assign) and len(st.targets) == 1 and isinstance(st.targets[0], ast.Name):
                consts[st.targets[0].id] = st.value
            elif isinstance(st, ast.AnnAssign) and isinstance(st.target, ast.Name) and st.value is not None:
                consts[st.target.id] = st.value
    idx = {'functions': fns, 'constants': consts}
    m._c13_raw = idx
    return idx


class _Interp:
    BUDGET = 200000

    def __init__(self, prog):
        self.prog = prog
        self.steps = 0
        self._handling = []   # exceptions being handled, innermost last (what a bare `raise` re-raises)
        self._consts = {}     # module constants already evaluated

    def raw_node(self, fi):
        return _raw_index(fi.module)['functions'].get(fi.qualname, fi.node)

    # ---- calls -------------------------------------------------------------------------------------
    def call_fi(self, fi, args, kwargs=None, scopes=None):
        return self.call_fn(_Fn(fi, self.raw_node(fi), scopes or []), args, kwargs or {})

    def call_fn(self, fn: _Fn, args, kwargs):
        a = fn.node.args
        if a.vararg or a.kwarg:
            raise _Undecidable('*args/**kwargs')
        names = [x.arg for x in a.posonlyargs + a.args]
        if len(args) > len(names):
            raise _Raised(TypeError('too many positional arguments'))
        loc = dict(zip(names, args))
        for k, v in kwargs.items():
            if k in loc or k not in names + [x.arg for x in a.kwonlyargs]:
                raise _Raised(TypeError(f'unexpected argument {k}'))
            loc[k] = v
        pos = a.posonlyargs + a.args
        for arg, d in list(zip(pos[len(pos) - len(a.defaults):], a.defaults)) + \
                [(x, d) for x, d in zip(a.kwonlyargs, a.kw_defaults) if d is not None]:
            if arg.arg not in loc:
                loc[arg.arg] = self.eval(d, fn.fi, fn.scopes + [{}])
        for x in pos + a.kwonlyargs:
            if x.arg not in loc:
                raise _Raised(TypeError(f'missing argument {x.arg}'))
        try:
            self.exec_block(fn.node.body, fn.fi, fn.scopes + [loc])
        except _Return as r:
            return r.value
        return None

    def construct(self, ci, args, kwargs):
        if _is_enum(ci):
            vals = {const_value(v) for v in ci.class_assignments().values() if v is not None}
            if len(args) != 1 or kwargs or args[0] not in vals:
                raise _Raised(ValueError(f'{args!r} is not a valid {ci.name}'))
            return _Rec(ci.name, {'value': args[0]}, ci)
        flds = [k for k in ci.all_fields() if not k.startswith('_')]
        if len(args) > len(flds):
            raise _Raised(TypeError('too many arguments'))
        f = dict(zip(flds, args))
        for k, v in kwargs.items():
            if k in f or (flds and k not in flds):
                raise _Raised(TypeError(f'unexpected argument {k}'))
            f[k] = v
        return _Rec(ci.name, f, ci)

    def call_method(self, ci, name, recv, args, kwargs):
        fn = None
        for c in ci.mro():
            node = _raw_index(c.module)['functions'].get(f'{c.name}.{name}')
            if node is None and name in c.methods:
                node = c.methods[name].node
            if node is not None:
                fn = _Fn(_Ctx(c.module), node, [])
                break
        if fn is None:
            raise _Undecidable(f'{ci.name}.{name}')
        decs = [ast.unparse(d) for d in fn.node.decorator_list]
        if any(d for d in decs if not any(k in d for k in ('staticmethod', 'classmethod'))):
            raise _Undecidable(f'decorated method {ci.name}.{name}')
        if any('staticmethod' in d for d in decs):
            return self.call_fn(fn, args, kwargs)
        if any('classmethod' in d for d in decs):
            return self.call_fn(fn, [_ClassRef(ci)] + list(args), kwargs)
        if isinstance(recv, _ClassRef):
            return self.call_fn(fn, args, kwargs)
        return self.call_fn(fn, [recv] + list(args), kwargs)

    # ---- names -------------------------------------------------------------------------------------
    def lookup(self, name, fi, scopes):
        for s in reversed(scopes):
            if name in s:
                return s[name]
        m = fi.module
        raw = _raw_index(m)
        if name in raw['functions']:
            return _Fn(_Ctx(m), raw['functions'][name], [])
        if (name in raw['constants'] and name not in m.classes) or name in m.constants:
            # a module constant is one object, bound when the module is imported
            key = (id(m), name)
            consts = self.__dict__.setdefault('_consts', {})
            if key not in consts:
                consts[key] = self.eval(raw['constants'][name], _Ctx(m), [{}]) \
                    if (name in raw['constants'] and name not in m.classes) else self.eval(m.constants[name], fi, [{}])
            return consts[key]
        r = self.prog.resolve_name(m, name)
        if r is not None and hasattr(r, 'methods'):
            return _ClassRef(r)
        if r is not None and hasattr(r, 'qualname'):
            return _Fn(r, self.raw_node(r), [])
        if isinstance(r, tuple) and r[0] == 'const':
            return self.eval(r[1].constants[r[2]], fi, [{}])
        tgt = m.imports.get(name)
        if tgt in _STDLIB:
            return _STDLIB[tgt]
        if tgt == 'datetime':
            return _dt
        if name in _BUILTINS and tgt is None:
            return _BUILTINS[name]
        raise _Undecidable(f'name {name}')

    # ---- expressions -------------------------------------------------------------------------------
    def eval(self, e, fi, sc):
        self.steps += 1
        if self.steps > self.BUDGET:
            raise _Undecidable('step budget')
        ev = lambda x: self.eval(x, fi, sc)
        if isinstance(e, ast.Constant):
            return e.value
        if isinstance(e, ast.Name):
            return self.lookup(e.id, fi, sc)
        if isinstance(e, ast.JoinedStr):
            return ''.join(str(v.value) if isinstance(v, ast.Constant) else str(ev(v.value)) for v in e.values)
        if isinstance(e, (ast.Tuple, ast.List, ast.Set)):
            items = []
            for x in e.elts:
                if isinstance(x, ast.Starred):
                    items.extend(ev(x.value))
                else:
                    items.append(ev(x))
            return tuple(items) if isinstance(e, ast.Tuple) else (items if isinstance(e, ast.List) else self.guard(set, [items]))
        if isinstance(e, ast.Dict):
            d = {}
            for k, v in zip(e.keys, e.values):
                if k is None:
                    d.update(ev(v))
                else:
                    d[ev(k)] = ev(v)
            return d
        if isinstance(e, ast.BoolOp):
            v = None
            for x in e.values:
                v = ev(x)
                if isinstance(e.op, ast.And) and not v:
                    return v
                if isinstance(e.op, ast.Or) and v:
                    return v
            return v
        if isinstance(e, ast.UnaryOp):
            v = ev(e.operand)
            if isinstance(e.op, ast.Not):
                return not v
            return self.guard((lambda x: -x) if isinstance(e.op, ast.USub) else (lambda x: +x) if isinstance(e.op, ast.UAdd)
                              else (lambda x: ~x), [v])
        if isinstance(e, ast.BinOp):
            f = _BINOPS.get(type(e.op))
            if f is None:
                raise _Undecidable(type(e.op).__name__)
            return self.guard(f, [ev(e.left), ev(e.right)])
        if isinstance(e, ast.Compare):
            left = ev(e.left)
            for op, c in zip(e.ops, e.comparators):
                right = ev(c)
                if not self.guard(_CMPOPS[type(op)], [left, right]):
                    return False
                left = right
            return True
        if isinstance(e, ast.IfExp):
            return ev(e.body) if ev(e.test) else ev(e.orelse)
        if isinstance(e, ast.NamedExpr):
            v = ev(e.value)
            sc[-1][e.target.id] = v
            return v
        if isinstance(e, ast.Subscript):
            v = ev(e.value)
            if isinstance(e.slice, ast.Slice):
                k = slice(*(ev(x) if x is not None else None for x in (e.slice.lower, e.slice.upper, e.slice.step)))
            else:
                k = ev(e.slice)
            if isinstance(v, (_Rec, _ClassRef, _Fn)):
                raise _Undecidable('subscript of a repository object')
            return self.guard(lambda a, b: a[b], [v, k])
        if isinstance(e, ast.Attribute):
            v = ev(e.value)
            if isinstance(v, _Rec):
                if e.attr in v.fields:
                    return v.fields[e.attr]
                if _is_enum(v.ci) and e.attr == 'name':
                    raise _Undecidable('enum name')
                raise _Undecidable(f'attribute {e.attr} of {v.cls}')
            if isinstance(v, _ClassRef):
                ca = v.ci.class_assignments()
                if _is_enum(v.ci) and e.attr in ca and ca[e.attr] is not None:
                    return _Rec(v.ci.name, {'value': const_value(ca[e.attr])}, v.ci)
                raise _Undecidable(f'class attribute {e.attr}')
            if v is _dt and e.attr in ('date', 'datetime', 'timedelta', 'time'):
                return getattr(_dt, e.attr)
            if isinstance(v, (_dt.date, _dt.timedelta)) and e.attr in ('year', 'month', 'day', 'hour', 'minute', 'second', 'days'):
                return self.guard(getattr, [v, e.attr])
            raise _Undecidable(f'attribute {e.attr}')
        if isinstance(e, (ast.ListComp, ast.SetComp, ast.GeneratorExp, ast.DictComp)):
            out = []

            def gen(i, scopes):
                if i == len(e.generators):
                    if isinstance(e, ast.DictComp):
                        out.append((self.eval(e.key, fi, scopes), self.eval(e.value, fi, scopes)))
                    else:
                        out.append(self.eval(e.elt, fi, scopes))
                    return
                g = e.generators[i]
                for item in self.iterate(self.eval(g.iter, fi, scopes)):
                    self.assign(g.target, item, fi, scopes)
                    if all(self.eval(c, fi, scopes) for c in g.ifs):
                        gen(i + 1, scopes)
            gen(0, sc + [{}])
            if isinstance(e, ast.DictComp):
                return dict(out)
            return self.guard(set, [out]) if isinstance(e, ast.SetComp) else out
        if isinstance(e, ast.Call):
            return self.eval_call(e, fi, sc)
        if isinstance(e, ast.Lambda):
            body = ast.Return(value=e.body)
            node = ast.FunctionDef(name='<lambda>', args=e.args, body=[body], decorator_list=[])
            return _Fn(fi, node, sc)
        raise _Undecidable(type(e).__name__)

    @staticmethod
    def guard(f, args, kwargs=None):
        try:
            return f(*args, **(kwargs or {}))
        except (_Undecidable, _Raised):
            raise
        except Exception as ex:  # what the interpreted program would raise here
            raise _Raised(ex) from None

    def iterate(self, v):
        if isinstance(v, (_Rec, _ClassRef, _Fn)):
            raise _Undecidable('iteration over a repository object')
        return self.guard(list, [v])

    def eval_call(self, e, fi, sc):
        nm = call_name(e)
        if nm.startswith(LOG_CALLS):
            return None
        args = []
        for a in e.args:
            if isinstance(a, ast.Starred):
                args.extend(self.iterate(self.eval(a.value, fi, sc)))
            else:
                args.append(self.eval(a, fi, sc))
        kwargs = {}
        for k in e.keywords:
            if k.arg is None:
                kwargs.update(self.eval(k.value, fi, sc))
            else:
                kwargs[k.arg] = self.eval(k.value, fi, sc)
        if isinstance(e.func, ast.Attribute):
            recv = self.eval(e.func.value, fi, sc)
            attr = e.func.attr
            if isinstance(recv, _ClassRef):
                return self.call_method(recv.ci, attr, recv, args, kwargs)
            if isinstance(recv, _Rec):
                return self.call_method(recv.ci, attr, recv, args, kwargs)
            if recv is _dt and attr in ('date', 'datetime', 'timedelta', 'time'):
                return self.guard(getattr(_dt, attr), args, kwargs)
            if isinstance(recv, type):
                if attr in _CLASS_METHODS.get(recv, ()):
                    return self.guard(getattr(recv, attr), args, kwargs)
                raise _Undecidable(f'{recv.__name__}.{attr}')
            for t, allowed in _METHODS.items():
                if type(recv) is t:
                    if attr in allowed:
                        if any(isinstance(x, (_Fn, _ClassRef)) for x in args):
                            raise _Undecidable('callable passed to a builtin method')
                        return self.guard(getattr(recv, attr), args, kwargs)
                    raise _Undecidable(f'{t.__name__}.{attr}')
            if recv is None or isinstance(recv, (int, float, bool)):
                raise _Raised(AttributeError(f'{type(recv).__name__} has no attribute {attr}'))
            raise _Undecidable(f'method {attr} of {type(recv).__name__}')
        f = self.eval(e.func, fi, sc)
        if isinstance(f, _Fn):
            return self.call_fn(f, args, kwargs)
        if isinstance(f, _ClassRef):
            return self.construct(f.ci, args, kwargs)
        if f in _BUILTINS.values() or f in _STDLIB.values():
            if any(isinstance(x, (_Fn, _ClassRef)) for x in list(args) + list(kwargs.values())):
                raise _Undecidable('callable passed to a builtin')
            r = self.guard(f, args, kwargs)
            if isinstance(r, BaseException):
                return r
            return list(r) if isinstance(r, (range, enumerate, zip, reversed)) else r
        raise _Undecidable(f'call of {nm}')

    # ---- statements --------------------------------------------------------------------------------
    def assign(self, t, v, fi, sc):
        if isinstance(t, ast.Name):
            sc[-1][t.id] = v
        elif isinstance(t, (ast.Tuple, ast.List)):
            items = self.iterate(v)
            if len(items) != len(t.elts) or any(isinstance(x, ast.Starred) for x in t.elts):
                raise _Raised(ValueError('unpack'))
            for el, it in zip(t.elts, items):
                self.assign(el, it, fi, sc)
        elif isinstance(t, ast.Subscript):
            obj, k = self.eval(t.value, fi, sc), self.eval(t.slice, fi, sc)
            if not isinstance(obj, (dict, list)):
                raise _Undecidable('element store')
            self.guard(lambda o, kk, vv: o.__setitem__(kk, vv), [obj, k, v])
        else:
            raise _Undecidable('store target')

    def exc_matches(self, h, exc, fi, sc):
        if h.type is None:
            return True
        t = self.eval(h.type, fi, sc)
        ts = t if isinstance(t, tuple) else (t,)
        if not all(isinstance(x, type) and issubclass(x, BaseException) for x in ts):
            raise _Undecidable('except clause')
        return isinstance(exc, ts)

    def match_pattern(self, p, v, fi, sc):
        if isinstance(p, ast.MatchValue):
            return self.guard(lambda a, b: a == b, [v, self.eval(p.value, fi, sc)])
        if isinstance(p, ast.MatchSingleton):
            return v is p.value
        if isinstance(p, ast.MatchOr):
            return any(self.match_pattern(x, v, fi, sc) for x in p.patterns)
        if isinstance(p, ast.MatchAs):
            if p.pattern is not None and not self.match_pattern(p.pattern, v, fi, sc):
                return False
            if p.name:
                sc[-1][p.name] = v
            return True
        raise _Undecidable(type(p).__name__)

    def exec_block(self, stmts, fi, sc):
        for st in stmts:
            self.exec(st, fi, sc)

    def exec(self, st, fi, sc):
        self.steps += 1
        if self.steps > self.BUDGET:
            raise _Undecidable('step budget')
        if isinstance(st, ast.Expr):
            self.eval(st.value, fi, sc)
        elif isinstance(st, ast.Assign):
            v = self.eval(st.value, fi, sc)
            for t in st.targets:
                self.assign(t, v, fi, sc)
        elif isinstance(st, ast.AnnAssign):
            if st.value is not None:
                self.assign(st.target, self.eval(st.value, fi, sc), fi, sc)
        elif isinstance(st, ast.AugAssign):
            f = _BINOPS.get(type(st.op))
            if f is None or not isinstance(st.target, ast.Name):
                raise _Undecidable('augmented assignment')
            cur = self.lookup(st.target.id, fi, sc)
            new = self.guard(f, [cur, self.eval(st.value, fi, sc)])
            if isinstance(cur, (list, set, dict)):
                raise _Undecidable('in-place update of a container')
            sc[-1][st.target.id] = new
        elif isinstance(st, ast.If):
            self.exec_block(st.body if self.eval(st.test, fi, sc) else st.orelse, fi, sc)
        elif isinstance(st, ast.For):
            broke = False
            for item in self.iterate(self.eval(st.iter, fi, sc)):
                self.assign(st.target, item, fi, sc)
                try:
                    self.exec_block(st.body, fi, sc)
                except _Continue:
                    continue
                except _Break:
                    broke = True
                    break
            if not broke:
                self.exec_block(st.orelse, fi, sc)
        elif isinstance(st, ast.While):
            while self.eval(st.test, fi, sc):
                try:
                    self.exec_block(st.body, fi, sc)
                except _Continue:
                    continue
                except _Break:
                    break
        elif isinstance(st, ast.Return):
            raise _Return(self.eval(st.value, fi, sc) if st.value is not None else None)
        elif isinstance(st, ast.Pass):
            pass
        elif isinstance(st, ast.Break):
            raise _Break()
        elif isinstance(st, ast.Continue):
            raise _Continue()
        elif isinstance(st, ast.Raise):
            if st.exc is None:
                if not self.__dict__.get('_handling'):
                    raise _Undecidable('bare raise')
                raise _Raised(self._handling[-1])
            x = self.eval(st.exc, fi, sc)
            if isinstance(x, type) and issubclass(x, BaseException):
                x = x()
            if not isinstance(x, BaseException):
                raise _Undecidable('raise of a repository exception')
            raise _Raised(x)
        elif isinstance(st, ast.Assert):
            if not self.eval(st.test, fi, sc):
                raise _Raised(AssertionError())
        elif isinstance(st, ast.Try):
            try:
                try:
                    self.exec_block(st.body, fi, sc)
                except _Raised as r:
                    for h in st.handlers:
                        if self.exc_matches(h, r.exc, fi, sc):
                            if h.name:
                                sc[-1][h.name] = r.exc
                            self.__dict__.setdefault('_handling', []).append(r.exc)
                            try:
                                self.exec_block(h.body, fi, sc)
                            finally:
                                self._handling.pop()
                            break
                    else:
                        raise
                else:
                    self.exec_block(st.orelse, fi, sc)
            finally:
                if st.finalbody:
                    self.exec_block(st.finalbody, fi, sc)
        elif isinstance(st, ast.Match):
            v = self.eval(st.subject, fi, sc)
            for case in st.cases:
                if self.match_pattern(case.pattern, v, fi, sc) and (case.guard is None or self.eval(case.guard, fi, sc)):
                    self.exec_block(case.body, fi, sc)
                    break
        elif isinstance(st, (ast.FunctionDef,)):
            if st.decorator_list:
                raise _Undecidable('decorated nested function')
            sc[-1][st.name] = _Fn(fi, st, list(sc))
        elif isinstance(st, (ast.Import, ast.ImportFrom, ast.Global, ast.Nonlocal)):
            raise _Undecidable(type(st).__name__)
        else:
            raise _Undecidable(type(st).__name__)


# ====================================================================================================
# rules
# ====================================================================================================

def _slot(param: str) -> str | None:
    t = _tokens(param)
    if t & ANTONYMS[2][0] and not t & ANTONYMS[2][1]:
        return 'from'
    if t & ANTONYMS[2][1] and not t & ANTONYMS[2][0]:
        return 'to'
    return None


def _where(node, default):
    fi = getattr(node, '_fi', None)
    for x in ast.walk(node):
        if fi is not None:
            break
        fi = getattr(x, '_fi', None)
    return fi or default


def _data_year_exprs(add) -> set[str]:
    """`self.<a>` for every attribute the constructor of add's class fills with its year parameter"""
    out = set()
    init = add.cls.find_method('__init__') if add.cls is not None else None
    if init is None:
        return out
    for t, st, how in stores_to(init.node):
        v = getattr(st, 'value', None)
        if isinstance(t, ast.Attribute) and dotted_name(t.value) == 'self' and isinstance(v, ast.Name) \
                and v.id in init.params and 'year' in _tokens(v.id):
            out.add(f'self.{t.attr}')
    return out


def _may_be_none(prog, fi, leaf) -> bool:
    """is the attribute `leaf` (x.f) declared `T | None` / Optional on the class of x?  (unknown: yes)"""
    from ..resolve import expr_class
    if not isinstance(leaf, ast.Attribute):
        return True
    try:
        ci = expr_class(prog, fi, leaf.value)
    except Exception:
        ci = None
    ann = ci.all_fields().get(leaf.attr) if ci is not None else None
    if ann is None:
        return True
    txt = ann.value if isinstance(ann, ast.Constant) and isinstance(ann.value, str) else norm(ann)
    return 'None' in txt or 'Optional' in txt


def _bind_frame(sym, fi, c, callee, env):
    """environment of `callee` for the call `c` written in frame `fi` (whose own environment at the call is `env`):
    parameter -> argument expression over the root frame's names; None when the binding is not static"""
    a = callee.node.args
    if a.vararg or a.kwarg or any(isinstance(x, ast.Starred) for x in c.args) or any(k.arg is None for k in c.keywords):
        return None
    decs = callee.decorators()
    ps = list(callee.params)
    new = {}
    if callee.cls is not None and not any('staticmethod' in d for d in decs) and ps:
        if not isinstance(c.func, ast.Attribute):
            return None
        new[ps[0]] = sym.ev(fi, c.func.value, env)
        ps = ps[1:]
    if len(c.args) > len(ps):
        return None
    for p, v in zip(ps, c.args):
        new[p] = sym.ev(fi, v, env)
    for k in c.keywords:
        if k.arg not in ps:
            return None
        new[k.arg] = sym.ev(fi, k.value, env)
    pos = a.posonlyargs + a.args
    for arg, d in list(zip(pos[len(pos) - len(a.defaults):], a.defaults)) + \
            [(x, d) for x, d in zip(a.kwonlyargs, a.kw_defaults) if d is not None]:
        new.setdefault(arg.arg, sym.ev(callee, d, {}))
    return new if all(p in new for p in ps) else None


def geodesic_sites(prog, root, max_depth: int = 3):
    """Every geodesic call that runs on behalf of `root`: written in root itself or in a function reached from it
    through resolved calls.  -> [(top, fi, call, kind, raw, args)]: `top` is the call in root through which the site is
    reached (the geodesic call itself when it is written in root), `fi` the function the geodesic call is written in,
    `raw` its four slots as written, `args` the same slots as expressions over *root's* parameters - locals replaced by what they hold, the
    parameters of every helper on the way replaced by the arguments given at its call site (None for a slot that is
    missing or whose value cannot be followed)."""
    sym = _Sym(prog)
    out = []

    def visit(fi, env, top, stack):
        sites, rets = {}, []
        sym.block(fi, fi.node.body, dict(env), rets, [], sites)
        for c in calls_in(fi.node):
            here = sites.get(id(c))
            kind = c.func.attr if isinstance(c.func, ast.Attribute) and c.func.attr in ('inv', 'fwd') else None
            if kind:
                if is_geod_receiver(prog, fi, c.func.value):
                    follow = lambda a: None if here is None else sym.expand(sym.ev(fi, a, here))  # noqa: E731
                    slots, complete = [], True
                    for a in c.args:
                        if isinstance(a, ast.Starred):
                            v = follow(a.value)   # `*pair`: the components of the tuple the value denotes
                            if isinstance(v, (ast.Tuple, ast.List)) and not any(isinstance(x, ast.Starred) for x in v.elts):
                                slots += [(x, x) for x in v.elts]
                            else:
                                complete = False
                                break
                        else:
                            slots.append((a, follow(a)))
                    for i in range(len(slots), 4):
                        kv = next((k.value for k in c.keywords if k.arg == GEOD_SIG[kind][1][i]), None) if complete else None
                        slots.append((kv, follow(kv) if kv is not None else None))
                    out.append((top or c, fi, c, kind, [s[0] for s in slots[:4]], [s[1] for s in slots[:4]]))
                    continue
            if here is None or len(stack) >= max_depth:
                continue
            try:
                callee = resolve_call(prog, fi, c)
            except Exception:
                callee = None
            if callee is None or any(callee is s for s in stack):
                continue
            new = _bind_frame(sym, fi, c, callee, here)
            if new is not None:
                visit(callee, new, top or c, stack + [callee])
    visit(root, {}, None, [root])
    return out


def _end_points(e) -> set[str]:
    t = _idents(e)
    return ({'origin'} if 'origin' in t else set()) | ({'destination'} if t & {'destination', 'dest'} else set())


def _rule_r1(ctx, prog, dck):
    sites = geodesic_sites(prog, dck)
    ctx.floor('C13-R1', len(sites), 1, 'geodesic call in (or reached from) _distance_check')
    for top, fi, c, kind, raw, args in sites:
        # The finding is stated at _distance_check, the function that supplies the airports' coordinates: whether the
        # inverse-geodesic call is written there or in a helper it calls, what matters is which coordinate of which
        # airport arrives in which slot.
        via = '' if fi is dck else f' (in {fi.qualname}, reached from line {top.lineno})'
        res = []
        for i, want in enumerate(GEOD_SIG[kind][0]):
            if want is None:
                continue
            if raw[i] is None:
                res.append((i, want, '<missing>', None, 'unresolved'))
                continue
            got = (expr_role(None, args[i]) if args[i] is not None and not any(getattr(x, '_opaque', False) for x in ast.walk(args[i]))
                   else None) or expr_role(fi.node, raw[i])
            shown = norm(raw[i]) if fi is dck or args[i] is None else f'{norm(raw[i])} = {norm(args[i])}'
            res.append((i, want, shown, got, 'unresolved' if got is None else ('ok' if got == want else 'conflict')))
        confl = [r for r in res if r[4] == 'conflict']
        desc = ', '.join(f'arg{i}={got or "?"}' for i, want, txt, got, v in res)
        ctx.ob('C13-R1', dck, f'GEOD.{kind}({desc})', not confl,
               f'longitude/latitude in the documented order{via}' if not confl else
               '; '.join(f'slot {i} expects {w} but receives `{t}` ({g})' for i, w, t, g, v in confl) + via +
               ' — with |lon| > 90 the distance is NaN and every stated distance is accepted; otherwise a '
               'plausible row is dropped as suspicious', line=top.lineno)
        # (that the *distance* component, converted to km, is what the thresholds are compared with is decided by R7,
        # which runs the function with a known geodesic answer)
        if kind != 'inv':
            continue
        if any(a is None for a in args):
            ctx.undecided('C13-R1', dck, f'GEOD.{kind}(...){via}', 'a coordinate argument of the geodesic call cannot be followed '
                          'back to the airports given to _distance_check')
        ends = [_end_points(a) for a in args]
        if any(not e for e in ends):
            i = next(i for i, e in enumerate(ends) if not e)
            ctx.undecided('C13-R1', dck, f'GEOD.{kind}(...){via}', f'argument {i} `{norm(args[i])[:60]}` is not a coordinate of the '
                          'origin or of the destination given to _distance_check')
        # the geodesic distance is symmetric: which end comes first does not matter, only that each pair of slots is one
        # end point and the two pairs are the two different end points
        ok = all(len(e) == 1 for e in ends) and ends[0] == ends[1] and ends[2] == ends[3] and ends[0] != ends[2]
        ctx.ob('C13-R1', dck, 'distance is between origin and destination', bool(ok),
               'one end point per coordinate pair, origin and destination' if ok else
               ('end points mixed up: the slots receive ' + ', '.join('/'.join(sorted(e)) for e in ends) + via),
               line=top.lineno, nontrivial=False)


def _rule_r2(ctx, prog, add, flt, sch):
    sym = _Sym(prog)
    # (a) generic: raw optional passed on although a defaulted copy exists
    scope = [add] if ctx.tier != 'thorough' else prog.all_functions()
    for fi in scope:
        for t, st, how in stores_to(fi.node):
            v = getattr(st, 'value', None)
            if isinstance(t, ast.Name) and isinstance(v, ast.BoolOp) and isinstance(v.op, ast.Or) \
                    and isinstance(v.values[0], (ast.Attribute, ast.Name)):
                raw = norm(v.values[0])
                if isinstance(v.values[0], ast.Name) and v.values[0].id == t.id:
                    continue  # x = x or default: the raw name *is* the defaulted one afterwards
                leaks = []
                for c in calls_in(fi.node):
                    if c.lineno <= st.lineno:
                        continue
                    for a in list(c.args) + [k.value for k in c.keywords]:
                        if norm(a) == raw:
                            leaks.append(c)
                ctx.ob('C13-R2', fi, f'{t.id} = {norm(v)[:60]}; raw `{raw}` not passed on', not leaks,
                       'only the defaulted value is used after the defaulting' if not leaks else
                       (f'`{raw}` (may be None) is passed to {call_name(leaks[0])}() at line {leaks[0].lineno} '
                        f'although `{t.id}` holds the defaulted value: an open-ended row reaches '
                        'pd.date_range(None, …) and the import aborts'),
                       line=(leaks[0].lineno if leaks else st.lineno))
    # (b) what reaches the effective-date parameters of the two writers
    sites, rets = {}, []
    entry = add.params[1] if len(add.params) > 1 else None
    sym.block(add, add.node.body, {}, rets, [], sites)
    years = _data_year_exprs(add)
    if not years:
        ctx.undecided('C13-R2', add, 'data year', 'the constructor does not store its year parameter on self')
    want = {'from': (1, 1, '1 January'), 'to': (12, 31, '31 December')}
    nslots = 0
    for callee in (flt, sch):
        for c in calls_in(add.node):
            if resolve_call(prog, add, c) != callee or id(c) not in sites:
                continue
            for p, a in _arg_map(callee, c).items():
                slot = _slot(p)
                if slot is None or 'effective' not in _tokens(p) and 'eff' not in _tokens(p):
                    continue
                nslots += 1
                val = sym.expand(sym.ev(add, a, sites[id(c)]))
                head = f'{callee.name}({p}=…)'
                m_, d_, label = want[slot]
                raws, n_default = [], 0
                for g, leaf in _cases(val):
                    if dotted_name(leaf):
                        raws.append(leaf)
                        cf = role_conflict(p, leaf)
                        ok = _guarded_set(g, leaf)
                        if not ok and not _may_be_none(prog, add, leaf):
                            ctx.undecided('C13-R2', add, head, f'`{norm(leaf)}` is not declared optional: the defaulting of '
                                          'open-ended dates has moved to where the entry is built')
                        ctx.ob('C13-R2', add, f'{head}: `{norm(leaf)}` only when it is set', ok and cf is None,
                               'the row\'s own date is used only under the test that it is present' if ok and cf is None else
                               (cf or f'`{norm(leaf)}` (None for an open-ended row) reaches {callee.name}() without a default: '
                                'an open-ended row reaches pd.date_range(None, …) and the import aborts'),
                               line=getattr(a, 'lineno', c.lineno))
                        continue
                    try:
                        dcs = _date_cases(leaf, g)
                        dcs = [(g2, (y2, mm, dd)) for g2, (y, mm, dd) in dcs for y2 in _scalar_cases(y)]
                    except _Undecided as u:
                        ctx.undecided('C13-R2', add, head, f'default `{u}` is not a recognised date construction')
                    for g2, (y, mm, dd) in dcs:
                        n_default += 1
                        wfi = _where(leaf, add)
                        ytxt = norm(y)
                        y_ok = ytxt in years
                        md_ok = const_value(mm) == m_ and const_value(dd) == d_
                        if not y_ok and not (names_in(y) <= {'self', entry}):
                            ctx.undecided('C13-R2', add, head, f'year `{ytxt}` of the default cannot be related to the data year')
                        if not md_ok and (const_value(mm) is None or const_value(dd) is None):
                            ctx.undecided('C13-R2', add, head, f'month/day `{norm(mm)}`/`{norm(dd)}` of the default are not constants')
                        why = f'open-ended range means {label} of the data year ({sorted(years)[0]})'
                        if not y_ok:
                            why = (f'the default of the effective-{slot} date is not {label} of the data year: its year is `{ytxt}`'
                                   + (' (the year of the row\'s other date)' if entry in names_in(y) else '') +
                                   f', not `{sorted(years)[0]}` — an open-ended row whose other end lies in another year gets a '
                                   'range that stops/starts in that year, and the instances of the data year are missing')
                        elif not md_ok:
                            why = (f'the default of the effective-{slot} date is not {label} of the data year: '
                                   f'month/day are {norm(mm)}/{norm(dd)}')
                        ctx.ob('C13-R2', wfi, f'{head} default = ({ytxt}, {norm(mm)}, {norm(dd)})', y_ok and md_ok, why,
                               line=getattr(leaf, 'lineno', 0) or c.lineno, nontrivial=not (y_ok and md_ok))
                if raws and not n_default:
                    pass  # reported above: the raw optional reaches the callee
                elif not raws and not n_default:
                    ctx.undecided('C13-R2', add, head, 'value could not be followed')
                for g, leaf in _cases(val):
                    if not dotted_name(leaf) and raws and not any(_guarded_unset(g, norm(r)) for r in raws):
                        ctx.ob('C13-R2', add, f'{head}: default applies exactly when the row\'s date is open', False,
                               f'the default `{norm(leaf)[:50]}` is not selected by the absence of `{norm(raws[0])}`',
                               line=getattr(a, 'lineno', c.lineno))
    ctx.floor('C13-R2', nslots, 4, 'effective-date arguments of _add_flight/_add_schedule followed from OAGDatabase.add')


def _is_utc(z) -> bool:
    return isinstance(z, ast.Constant) and z.value in ('UTC', 'utc') or norm(z).lower().endswith(('timezone.utc', '.utc'))


def _localisations(e):
    """[(node, localised wall-clock expression, zone expression)]: where a naive value is given its zone"""
    out = []
    for x in ast.walk(e):
        if not isinstance(x, ast.Call):
            continue
        kw = {k.arg: k.value for k in x.keywords if k.arg}
        attr = x.func.attr if isinstance(x.func, ast.Attribute) else None
        nm = call_name(x).split('.')[-1]
        if attr == 'replace' and 'tzinfo' in kw:
            out.append((x, x.func.value, kw['tzinfo']))
        elif attr == 'tz_localize' and (x.args or 'tz' in kw):
            out.append((x, x.func.value, x.args[0] if x.args else kw['tz']))
        elif attr == 'localize' and x.args:
            out.append((x, x.args[0], x.func.value))
        elif attr == 'utcoffset' and len(x.args) == 1 and not x.keywords:
            # <zone>.utcoffset(<wall-clock value>): the zone's offset *at that value* - the same question as localising it
            out.append((x, x.args[0], x.func.value))
        elif nm in ('datetime', 'Timestamp', 'combine') and ('tzinfo' in kw or 'tz' in kw):
            rest = ast.Tuple(elts=list(x.args) + [v for k, v in kw.items() if k not in ('tzinfo', 'tz')], ctx=ast.Load())
            out.append((x, rest, kw.get('tzinfo', kw.get('tz'))))
    return [(n, r, z) for n, r, z in out if z is not None and not (isinstance(z, ast.Constant) and z.value is None)
            and not _is_utc(z)]


_SEQ_MUTATORS = {'append', 'extend', 'insert', 'remove', 'pop', 'clear', 'sort', 'reverse', '__setitem__', '__delitem__'}


def _mutated_in(fn: ast.AST, name: str) -> bool:
    """is the sequence bound to the local `name` changed in place anywhere in fn (method call, element store, del, +=)?"""
    for x in walk_no_nested(fn):
        if isinstance(x, ast.Call) and isinstance(x.func, ast.Attribute) and x.func.attr in _SEQ_MUTATORS \
                and isinstance(x.func.value, ast.Name) and x.func.value.id == name:
            return True
        if isinstance(x, ast.Subscript) and isinstance(x.ctx, (ast.Store, ast.Del)) and isinstance(x.value, ast.Name) \
                and x.value.id == name:
            return True
        if isinstance(x, ast.AugAssign) and isinstance(x.target, ast.Name) and x.target.id == name:
            return True
    return False


def _param_subst(e, env: dict):
    """e with the loads of the names in env replaced by (copies of) their values"""
    if isinstance(e, ast.Name) and isinstance(e.ctx, ast.Load) and e.id in env:
        return _clone(env[e.id])
    if isinstance(e, ast.AST):
        new = _shell(e)
        for f in e._fields:
            setattr(new, f, _param_subst(getattr(e, f, None), env))
        return new
    if isinstance(e, list):
        return [_param_subst(x, env) for x in e]
    return e


def _opened_iterable(prog, fi, c: ast.Call):
    """The call of a small repository function that *produces the dates*, as an expression over the caller's values:
    a function whose body is `return <expression>`, or a generator of the shape
        for d in <dates>:  [if not c: continue]  [if c:] yield d
    (which is the generator expression `(d for d in <dates> if c)`).  None when c is no such call."""
    if prog is None or fi is None:
        return None
    try:
        callee = resolve_call(prog, fi, c)
    except Exception:
        callee = None
    if callee is None or any(isinstance(a, ast.Starred) for a in c.args) or any(k.arg is None for k in c.keywords):
        return None
    a = callee.node.args
    if a.vararg or a.kwarg or any(d for d in callee.decorators() if not any(k in d for k in ('staticmethod', 'classmethod'))):
        return None
    env = dict(_arg_map(callee, c))
    pos = a.posonlyargs + a.args
    for arg, d in list(zip(pos[len(pos) - len(a.defaults):], a.defaults)) + \
            [(x, d) for x, d in zip(a.kwonlyargs, a.kw_defaults) if d is not None]:
        env.setdefault(arg.arg, d)
    ps = callee.params
    if callee.cls is not None and not any('staticmethod' in d for d in callee.decorators()) and ps:
        if not isinstance(c.func, ast.Attribute):
            return None
        env[ps[0]] = c.func.value
    if any(p_ not in env for p_ in ps):
        return None
    body = [st for st in callee.node.body
            if not (isinstance(st, ast.Expr) and isinstance(st.value, ast.Constant) and isinstance(st.value.value, str))]
    bound = {n.id for st in body for n in ast.walk(st) if isinstance(n, ast.Name) and isinstance(n.ctx, ast.Store)}
    if bound & set(env):
        return None
    if len(body) == 1 and isinstance(body[0], ast.Return) and body[0].value is not None:
        return _param_subst(body[0].value, env)
    if len(body) == 1 and isinstance(body[0], ast.For) and not body[0].orelse and isinstance(body[0].target, ast.Name):
        lp, conds = body[0], []
        inner = list(lp.body)
        while len(inner) > 1 and isinstance(inner[0], ast.If) and not inner[0].orelse and len(inner[0].body) == 1 \
                and isinstance(inner[0].body[0], ast.Continue):
            conds.append(ast.UnaryOp(op=ast.Not(), operand=inner[0].test))
            inner = inner[1:]
        while len(inner) == 1 and isinstance(inner[0], ast.If) and not inner[0].orelse:
            conds.append(inner[0].test)
            inner = list(inner[0].body)
        if len(inner) == 1 and isinstance(inner[0], ast.Expr) and isinstance(inner[0].value, ast.Yield) \
                and inner[0].value.value is not None \
                and not any(isinstance(y, (ast.Yield, ast.YieldFrom, ast.Await)) for cnd in conds for y in ast.walk(cnd)):
            gen = ast.GeneratorExp(elt=inner[0].value.value,
                                   generators=[ast.comprehension(target=lp.target, iter=lp.iter, ifs=conds, is_async=0)])
            ast.copy_location(gen, lp)
            for cnd in conds:
                if not hasattr(cnd, 'lineno'):
                    ast.copy_location(cnd, lp)
            return _param_subst(gen, env)
    return None


def _block_of(st: ast.stmt):
    """the statement list st is an element of (through its parent link), or None"""
    par = parent(st)
    if par is None:
        return None
    for f in ('body', 'orelse', 'finalbody'):
        lst = getattr(par, f, None)
        if isinstance(lst, list) and any(x is st for x in lst):
            return lst
    for h in getattr(par, 'handlers', []) or []:
        if any(x is st for x in h.body):
            return h.body
    return None


def _accumulated_list(fn: ast.AST, name: str, use: ast.AST | None = None):
    """The local `name` when it is a list that one loop fills with its own loop variable,
        name = []   (or list())
        for d in <dates>:  [if not c: continue]*  [if c:]*  name.append(d)
    which, once that loop has ended, is the list `[d for d in <dates> if c]`: -> (that comprehension, the filling loop), else
    None.  Required: `name` is bound once; the binding and the filling loop are statements of the same block, the loop the
    later one; that append is the only in-place change of `name` in fn and the only mention of `name` inside the loop; and
    `use` (the expression that reads the list, a node of fn) is evaluated after the loop has ended - it sits in a later
    statement of that block.  (The shape astutil.drains_as_loops + splice_generator_loops leave for `name = list(gen(..))`,
    and what a developer writes by hand for it.)"""
    ds = local_defs(fn, name)
    if len(ds) != 1:
        return None
    v = single_def_value(fn, name)
    empty = (isinstance(v, ast.List) and not v.elts) or \
        (isinstance(v, ast.Call) and isinstance(v.func, ast.Name) and v.func.id == 'list' and not v.args and not v.keywords)
    if not empty:
        return None
    muts = [x for x in walk_no_nested(fn) if isinstance(x, ast.Call) and isinstance(x.func, ast.Attribute)
            and x.func.attr in _SEQ_MUTATORS and isinstance(x.func.value, ast.Name) and x.func.value.id == name]
    if len(muts) != 1 or muts[0].func.attr != 'append' or len(muts[0].args) != 1 or muts[0].keywords:
        return None
    for x in walk_no_nested(fn):
        if isinstance(x, ast.Subscript) and isinstance(x.ctx, (ast.Store, ast.Del)) and isinstance(x.value, ast.Name) and x.value.id == name:
            return None
        if isinstance(x, ast.Delete) and any(isinstance(t, ast.Name) and t.id == name for t in x.targets):
            return None
    app = muts[0]
    lp = next((a for a in ancestors(app) if isinstance(a, (ast.For, ast.While, ast.AsyncFor))), None)
    if not isinstance(lp, ast.For) or lp.orelse or not isinstance(lp.target, ast.Name) \
            or not (isinstance(app.args[0], ast.Name) and app.args[0].id == lp.target.id):
        return None
    conds, inner = [], list(lp.body)
    while len(inner) > 1 and isinstance(inner[0], ast.If) and not inner[0].orelse and len(inner[0].body) == 1 \
            and isinstance(inner[0].body[0], ast.Continue):
        conds.append(ast.copy_location(ast.UnaryOp(op=ast.Not(), operand=inner[0].test), inner[0].test))
        inner = inner[1:]
    while len(inner) == 1 and isinstance(inner[0], ast.If) and not inner[0].orelse:
        conds.append(inner[0].test)
        inner = list(inner[0].body)
    if not (len(inner) == 1 and isinstance(inner[0], ast.Expr) and inner[0].value is app):
        return None
    if sum(1 for x in ast.walk(lp) if isinstance(x, ast.Name) and x.id == name) != 1 \
            or any(isinstance(y, (ast.Yield, ast.YieldFrom, ast.Await, ast.NamedExpr)) for cnd in conds for y in ast.walk(cnd)):
        return None
    blk = _block_of(lp)
    if blk is None or not any(x is ds[0] for x in blk):
        return None
    idx = lambda st: next(i for i, x in enumerate(blk) if x is st)
    if idx(ds[0]) >= idx(lp):
        return None
    if use is not None:
        top = next((a for a in [use, *ancestors(use)] if any(x is a for x in blk)), None)
        if top is None or idx(top) <= idx(lp):
            return None
    comp = ast.ListComp(elt=ast.Name(id=lp.target.id, ctx=ast.Load()),
                        generators=[ast.comprehension(target=lp.target, iter=lp.iter, ifs=conds, is_async=0)])
    ast.copy_location(comp, lp)
    ast.copy_location(comp.elt, lp)
    return comp, lp


def _range_pipeline(fn: ast.AST, it: ast.expr, depth: int = 0, prog=None, fi=None):
    """What a per-day loop iterates over, when that is the dates of one pd.date_range call, possibly *filtered* on the way:
    -> (date_range call, [(condition, name of the date in it, node)], [(node, what)] restrictions) or None.
    Followed: locals bound once and not changed in place, a list filled by one loop that appends its own loop variable
    (`_accumulated_list`: the comprehension it is), list()/tuple()/iter() copies, comprehensions / generator
    expressions whose element is the date itself (`[d for d in <dates> if c]`), `filter(lambda d: c, <dates>)`, calls of
    small repository functions that return such an expression or are a generator of that shape (`_opened_iterable`), and
    slices (a slice that is not the whole sequence is a *restriction*: some dates of the range never reach the loop).
    A filter is the same thing as `if not c: continue` at the top of the loop body; anything that maps or reorders the
    dates is not followed."""
    if depth > 8:
        return None
    rec = lambda x: _range_pipeline(fn, x, depth + 1, prog, fi)
    while isinstance(it, ast.Call) and isinstance(it.func, ast.Name) and it.func.id in ('list', 'tuple', 'iter') \
            and len(it.args) == 1 and not it.keywords:
        it = it.args[0]
    if isinstance(it, ast.Name):
        acc = _accumulated_list(fn, it.id, it)
        if acc is not None:
            return rec(acc[0])
        v = single_def_value(fn, it.id)
        if v is None or _mutated_in(fn, it.id):
            return None
        return rec(v)
    if isinstance(it, ast.Call) and call_name(it).split('.')[-1] == 'date_range':
        return it, [], []
    if isinstance(it, ast.Subscript) and isinstance(it.slice, ast.Slice):
        inner = rec(it.value)
        if inner is None:
            return None
        sl = it.slice
        whole = (sl.lower is None or const_value(sl.lower) == 0) and sl.upper is None and (sl.step is None or const_value(sl.step) == 1)
        return inner[0], inner[1], inner[2] + ([] if whole else [(it, f'only the slice [{norm(sl)}] of the dates is visited')])
    if isinstance(it, (ast.ListComp, ast.GeneratorExp)) and len(it.generators) == 1:
        g = it.generators[0]
        if g.is_async or not isinstance(g.target, ast.Name) or not (isinstance(it.elt, ast.Name) and it.elt.id == g.target.id):
            return None
        inner = rec(g.iter)
        if inner is None:
            return None
        return inner[0], inner[1] + [(c, g.target.id, it) for c in g.ifs], inner[2]
    if isinstance(it, ast.Call) and isinstance(it.func, ast.Name) and it.func.id == 'filter' and len(it.args) == 2 \
            and not it.keywords and isinstance(it.args[0], ast.Lambda):
        lam = it.args[0]
        a = lam.args
        if len(a.args) != 1 or a.posonlyargs or a.kwonlyargs or a.vararg or a.kwarg or a.defaults:
            return None
        inner = rec(it.args[1])
        if inner is None:
            return None
        return inner[0], inner[1] + [(lam.body, a.args[0].arg, it)], inner[2]
    if isinstance(it, ast.Call):
        opened = _opened_iterable(prog, fi, it)
        if opened is not None:
            return rec(opened)
    return None


def _date_loop(prog, sch):
    """(date_range call, the per-day loop over it, loop variable).  The call may be a copy with the caller's values
    substituted when the dates are produced by a helper (`for d in self._dates(a, b)`)."""
    piped = []
    for lp in walk_no_nested(sch.node):
        if isinstance(lp, ast.For) and isinstance(lp.target, ast.Name):
            pl = _range_pipeline(sch.node, lp.iter, 0, prog, sch)
            if pl is not None:
                piped.append((pl[0], lp, lp.target.id))
    if len(piped) > 1:
        # a loop that only collects the dates in a list which another of these loops then runs over is part of that
        # loop's iterable, not a per-day loop of its own
        feeders = []
        for _, lp, _ in piped:
            it = lp.iter
            while isinstance(it, ast.Call) and isinstance(it.func, ast.Name) and it.func.id in ('list', 'tuple', 'iter') \
                    and len(it.args) == 1 and not it.keywords:
                it = it.args[0]
            acc = _accumulated_list(sch.node, it.id, it) if isinstance(it, ast.Name) else None
            if acc is not None:
                feeders.append(acc[1])
        piped = [p_ for p_ in piped if not any(p_[1] is f for f in feeders)]
    if len(piped) == 1:
        return piped[0]
    dr = [c for c in calls_in(sch.node) if call_name(c).split('.')[-1] == 'date_range']
    found = []
    for c in dr:   # the range that is iterated day by day (another date_range evaluated for something else is not it)
        for lp in walk_no_nested(sch.node):
            if isinstance(lp, ast.For) and isinstance(lp.target, ast.Name):
                it = lp.iter
                if any(x is c for x in ast.walk(it)) \
                        or (isinstance(it, ast.Name) and single_def_value(sch.node, it.id) is not None
                            and any(x is c for x in ast.walk(single_def_value(sch.node, it.id)))):
                    found.append((c, lp, lp.target.id))
    if len(found) == 1:
        return found[0]
    return (dr[0] if dr else None), None, None


def _row_values(prog, fi, row):
    """value expressions of one inserted row, in the order the database driver sees them: a tuple/list display, or a
    call of a NamedTuple class of the repository (positional and keyword arguments put into field order)"""
    if isinstance(row, ast.Name):
        row = single_def_value(fi.node, row.id)
    if isinstance(row, (ast.Tuple, ast.List)):
        return list(row.elts), None
    if isinstance(row, ast.Call) and not any(isinstance(a, ast.Starred) for a in row.args) \
            and all(k.arg for k in row.keywords):
        ci = prog.resolve_class_expr(fi.module, row.func)
        if ci is not None and any(b.split('.')[-1] == 'NamedTuple' for c in ci.mro() for b in c.base_exprs):
            flds = list(ci.annotated_fields())
            got = dict(zip(flds, row.args))
            got.update({k.arg: k.value for k in row.keywords})
            if set(got) == set(flds) and len(row.args) + len(row.keywords) == len(flds):
                return [got[f] for f in flds], flds
    return None, None


def _static_str(prog, fi, e):
    """the string `e` denotes when it is built from literals only: f-strings, `sep.join(...)`, repetition, `len`,
    module constants and single-definition locals, folded by the checker's evaluator; None when it is not static"""
    try:
        v = _Interp(prog).eval(_subst(fi.node, e), fi, [{}])
    except (_Undecidable, _Raised, RecursionError):
        return None
    return v if isinstance(v, str) else None


# ----------------------------------------------------------------------------------------------------
# where the instances go: the list that is counted, the INSERT that writes it, a buffer in between
# ----------------------------------------------------------------------------------------------------

def _family(prog, ci):
    """the classes related to ci by inheritance (its bases, its subclasses, and their bases): the objects whose methods
    run on the same database connection and the same attributes"""
    out, seen = [], set()
    for c in prog.all_classes(src_only=True) if prog is not None else []:
        if ci in c.mro() or c in ci.mro():
            for k in c.mro():
                if id(k) not in seen:
                    seen.add(id(k))
                    out.append(k)
    return out or [ci]


def _self_attr(e) -> str | None:
    return e.attr if isinstance(e, ast.Attribute) and isinstance(e.value, ast.Name) and e.value.id == 'self' else None


def _seq_source(fn: ast.AST, e: ast.expr, depth: int = 0):
    """what a sequence expression denotes: ('local', name) | ('attr', name) | None - through list()/tuple() copies and
    locals bound once (also by a swap `rows, self.buf = self.buf, []`)"""
    from ..astutil import tuple_def_component
    while isinstance(e, ast.Call) and call_name(e) in ('list', 'tuple', 'iter') and len(e.args) == 1 and not e.keywords:
        e = e.args[0]
    a = _self_attr(e)
    if a is not None:
        return 'attr', a
    if isinstance(e, ast.Name) and depth < 4:
        v = single_def_value(fn, e.id)
        if v is None:
            t = tuple_def_component(fn, e.id)
            if t is not None and isinstance(t[0], (ast.Tuple, ast.List)) and t[1] < len(t[0].elts):
                v = t[0].elts[t[1]]
        if v is not None:
            inner = _seq_source(fn, v, depth + 1)
            if inner is not None and inner[0] == 'attr':
                return inner
        return 'local', e.id
    return None


def _schedule_inserts(prog, sch):
    """[(FunctionInfo, call, columns, sequence expr)]: every `executemany('INSERT INTO schedules (...) VALUES ...', seq)`
    in the methods of the class family of `_add_schedule`; the statement text is computed"""
    out = []
    fam = _family(prog, sch.cls) if sch.cls is not None else []
    fis = [fi for c in fam for fi in c.methods.values()] or [sch]
    for fi in fis:
        for c in calls_in(fi.node):
            if not (isinstance(c.func, ast.Attribute) and c.func.attr == 'executemany' and len(c.args) >= 2):
                continue
            sql = _static_str(prog, fi, c.args[0]) or ''
            mcol = re.search(r'INSERT\s+(?:OR\s+\w+\s+)?INTO\s+schedules\s*\(([^)]*)\)\s*VALUES', sql, re.S | re.I)
            if mcol:
                out.append((fi, c, [x.strip() for x in mcol.group(1).split(',')], c.args[1]))
    return out


def _moves_into_attr(fn: ast.AST, name: str):
    """[(stmt, attr)]: statements of fn that put the whole local list `name` into an attribute list of self
    (`self.B.extend(name)`, `self.B += name`)"""
    out = []
    for x in walk_no_nested(fn):
        if isinstance(x, ast.Call) and isinstance(x.func, ast.Attribute) and x.func.attr == 'extend' and len(x.args) == 1 \
                and isinstance(x.args[0], ast.Name) and x.args[0].id == name and _self_attr(x.func.value):
            out.append((stmt_of(x), _self_attr(x.func.value)))
        if isinstance(x, ast.AugAssign) and isinstance(x.op, ast.Add) and _self_attr(x.target) \
                and isinstance(x.value, ast.Name) and x.value.id == name:
            out.append((x, _self_attr(x.target)))
    return out


def _schedule_plan(prog, sch):
    """How the instances reach the table.  -> dict(cols, rows (name of the local list of instances), apps (its append
    calls), form 'direct' | 'buffered', buffer (attribute name | None), inserts [(fi, call, cols, seq)], moves [(stmt, attr)])
    or a string saying what was not recognised"""
    inserts = _schedule_inserts(prog, sch)
    if not inserts:
        return 'no executemany of a statically known `INSERT INTO schedules (...)` in the database classes'
    if len({tuple(i[2]) for i in inserts}) != 1:
        return 'the schedules INSERT statements do not name the same columns'
    lists = {}
    for c in calls_in(sch.node):
        if isinstance(c.func, ast.Attribute) and c.func.attr == 'append' and isinstance(c.func.value, ast.Name) and len(c.args) == 1:
            lists.setdefault(c.func.value.id, []).append(c)
    srcs = [(fi, c, _seq_source(fi.node, seq)) for fi, c, _, seq in inserts]
    for name, apps in lists.items():
        if any(fi is sch and src == ('local', name) for fi, _, src in srcs):
            return dict(cols=inserts[0][2], rows=name, apps=apps, form='direct', buffer=None,
                        inserts=[i for i, (fi, _, src) in zip(inserts, srcs) if fi is sch and src == ('local', name)], moves=[])
        moves = _moves_into_attr(sch.node, name)
        bufs = {a for _, a in moves}
        if len(bufs) == 1:
            buf = next(iter(bufs))
            ins = [i for i, (_, _, src) in zip(inserts, srcs) if src == ('attr', buf)]
            if ins:
                return dict(cols=inserts[0][2], rows=name, apps=apps, form='buffered', buffer=buf, inserts=ins, moves=moves)
    return 'the list of instances that is counted is neither handed to the schedules INSERT nor moved into a list that is'


def _schedule_rows(prog, sch):
    """(columns, value expressions, append calls, field names) of the schedule instances"""
    plan = _schedule_plan(prog, sch)
    if isinstance(plan, str):
        return None
    vals, flds = _row_values(prog, sch, plan['apps'][0].args[0])
    if vals is None:
        return None
    return plan['cols'], vals, plan['apps'], flds


# written-before-committed: a may-analysis over {U: instances not written yet, W: written, E: known to be none}

def _empty_fact(test: ast.expr, truth: bool, text: str) -> bool:
    """the outcome `truth` of the test establishes that the list `text` is empty"""
    ln = f'len({text})'
    for e, p in conjuncts(test, truth):
        t = norm(e)
        if t in (text, ln, f'bool({text})') and not p:
            return True
        if isinstance(e, ast.Compare) and len(e.ops) == 1:
            l, r, op = norm(e.left), norm(e.comparators[0]), type(e.ops[0]).__name__
            if r == ln and l != ln:
                l, r, op = r, l, {'Lt': 'Gt', 'Gt': 'Lt', 'LtE': 'GtE', 'GtE': 'LtE'}.get(op, op)
            if l == ln and r in ('0', '1'):
                empty_when = {('Eq', '0'): True, ('NotEq', '0'): False, ('Gt', '0'): False, ('GtE', '1'): False,
                              ('Lt', '1'): True, ('LtE', '0'): True}.get((op, r))
                if empty_when is not None and empty_when == p:
                    return True
            if l == text and r in ('[]', '()') and ((op == 'Eq' and p) or (op == 'NotEq' and not p)):
                return True
    return False


def _heads(n):
    s_ = n.stmt
    if s_ is None:
        return []
    return {'stmt': [s_], 'test': [getattr(s_, 'test', None)], 'iter': [getattr(s_, 'iter', None)],
            'with': [i.context_expr for i in getattr(s_, 'items', [])]}.get(n.kind, [])


def _node_calls(n):
    out = []
    for h in _heads(n):
        if h is not None:
            out += [x for x in walk_no_nested(h) if isinstance(x, ast.Call)]
    return out


def _flow(fn: ast.AST, text: str, classify, init='U'):
    """forward may-analysis of the list `text` through fn.  classify(node) -> 'write' | 'add' | 'clear' | 'unknown' | None
    ('unknown': a call of a method of the object that is not in the program as the rules see it - X: may or may not
    have been written).
    -> (cfg, in-states, exit state)"""
    g = CFG(fn)

    def tr(node, st):
        k = classify(node)
        if k == 'write':
            return frozenset({'W'})
        if k == 'add':
            return frozenset({'U'})
        if k == 'clear':
            return frozenset('E' if x == 'W' else x for x in st)
        if k == 'unknown':
            return frozenset('X' if x == 'U' else x for x in st)
        return st

    def br(node, lab, st):
        if node.kind == 'test' and isinstance(node.stmt, (ast.If, ast.While)) and _empty_fact(node.stmt.test, lab == 't', text):
            return frozenset('E' if x == 'U' else x for x in st)
        return st
    ins, _ = g.forward(frozenset({init}), tr, lambda a, b: a | b, edge_ok=lambda a, b, lab: lab != 'e', branch_transfer=br)
    return g, ins, ins.get(g.exit, frozenset())


def _is_append_to(c: ast.Call, text: str) -> bool:
    return isinstance(c.func, ast.Attribute) and c.func.attr in ('append', 'extend', 'insert') and norm(c.func.value) == text


def _clears(s_, text: str) -> bool:
    if isinstance(s_, (ast.Assign, ast.AnnAssign)) and getattr(s_, 'value', None) is not None:
        for t in (s_.targets if isinstance(s_, ast.Assign) else [s_.target]):
            tv = s_.value
            if isinstance(t, (ast.Tuple, ast.List)) and isinstance(tv, (ast.Tuple, ast.List)) and len(t.elts) == len(tv.elts):
                if any(norm(a) == text and _fresh_empty(b) for a, b in zip(t.elts, tv.elts)):
                    return True
            if norm(t) == text and _fresh_empty(tv):
                return True
            if isinstance(t, ast.Subscript) and norm(t.value) == text and isinstance(t.slice, ast.Slice) and _fresh_empty(tv):
                return True
    if isinstance(s_, ast.Delete):
        return any(isinstance(t, ast.Subscript) and norm(t.value) == text for t in s_.targets)
    if isinstance(s_, ast.Expr) and isinstance(s_.value, ast.Call) and isinstance(s_.value.func, ast.Attribute) \
            and s_.value.func.attr == 'clear' and norm(s_.value.func.value) == text:
        return True
    return False


def _fresh_empty(e) -> bool:
    return (isinstance(e, (ast.List, ast.Tuple)) and not e.elts) or \
        (isinstance(e, ast.Call) and call_name(e) in ('list', 'tuple', 'collections.deque', 'deque') and not e.args and not e.keywords)


def buffer_discipline(methods: list, buf: str, is_insert, conn_attrs: set[str], skip=('__init__',)):
    """The instances wait in `self.<buf>` until an INSERT writes them.  methods: [(key, FunctionDef)] of the class family;
    is_insert(call, fn) says whether a call is the schedules INSERT of self.<buf>.
    -> dict(flushers {name}, commits [(key, fn, call, ok)], early_clears [(key, fn, stmt)], kept [(key, fn, call)])
    commits: every `self.<conn>.commit()`; ok = on every normal path to it the buffer has been written (or is known
    to be empty).  kept: an INSERT after which the buffer is not emptied on some path (it is written again by the next)."""
    text = f'self.{buf}'
    by_name: dict[str, list] = {}
    for key, fn in methods:
        by_name.setdefault(fn.name, []).append(fn)

    def self_callees(c):
        if isinstance(c.func, ast.Attribute) and isinstance(c.func.value, ast.Name) and c.func.value.id == 'self':
            return by_name.get(c.func.attr, [])
        return []
    adders: set[int] = set()
    changed = True
    while changed:
        changed = False
        for _, fn in methods:
            if id(fn) in adders:
                continue
            hit = any(_is_append_to(c, text) for c in calls_in(fn)) \
                or any(isinstance(x, ast.AugAssign) and norm(x.target) == text and isinstance(x.op, ast.Add) for x in walk_no_nested(fn)) \
                or any(id(k) in adders for c in calls_in(fn) for k in self_callees(c))
            if hit:
                adders.add(id(fn))
                changed = True
    flushers: set[int] = set()
    known_attrs = {_self_attr(t) for _, fn in methods for t, _, _ in stores_to(fn) if _self_attr(t)}

    def classify_in(fn):
        def classify(node):
            calls = _node_calls(node)
            if any(is_insert(c, fn) for c in calls):
                return 'write'
            for c in calls:
                ks = self_callees(c)
                if ks and all(id(k) in flushers for k in ks):
                    return 'write'
            if any(_is_append_to(c, text) for c in calls) or any(id(k) in adders for c in calls for k in self_callees(c)):
                return 'add'
            s_ = node.stmt if node.kind == 'stmt' else None
            if isinstance(s_, ast.AugAssign) and norm(s_.target) == text:
                return 'add'
            if s_ is not None and _clears(s_, text):
                return 'clear'
            if any(isinstance(c.func, ast.Attribute) and isinstance(c.func.value, ast.Name) and c.func.value.id == 'self'
                   and c.func.attr not in by_name and c.func.attr not in known_attrs for c in calls):
                return 'unknown'
            return None
        return classify
    changed = True
    while changed:
        changed = False
        for _, fn in methods:
            if id(fn) in flushers:
                continue
            _, _, at_exit = _flow(fn, text, classify_in(fn))
            if at_exit and 'U' not in at_exit:
                flushers.add(id(fn))
                changed = True
    commits, early, kept = [], [], []
    for key, fn in methods:
        aliases = {t.id for t, st, how in stores_to(fn) if isinstance(t, ast.Name) and how == 'assign'
                   and _self_attr(st.value) in conn_attrs and single_def_value(fn, t.id) is not None}
        g, ins, _ = _flow(fn, text, classify_in(fn))
        cl = classify_in(fn)
        for n in g.nodes:
            if n.id not in ins:
                continue
            for c in _node_calls(n):
                if isinstance(c.func, ast.Attribute) and c.func.attr == 'commit' and (
                        _self_attr(c.func.value) in conn_attrs
                        or (isinstance(c.func.value, ast.Name) and c.func.value.id in aliases)
                        or (isinstance(c.func.value, ast.Attribute) and c.func.value.attr == 'connection')):
                    commits.append((key, fn, c, None if ('X' in ins[n.id] and 'U' not in ins[n.id]) else 'U' not in ins[n.id]))
        # the buffer is emptied only once it has been written (or its contents were taken into a local that is written),
        # and every INSERT of the buffer comes with emptying it
        nok = lambda a, b, lab: lab != 'e'
        dom, pdom = g.dominators(edge_ok=nok), g.postdominators([g.exit], edge_ok=nok)
        clear_nodes = {n.id for n in g.nodes if n.kind == 'stmt' and n.stmt is not None and _clears(n.stmt, text)}
        ins_nodes = [(n, c) for n in g.nodes for c in _node_calls(n) if is_insert(c, fn)]
        for n in g.nodes:
            if n.id in ins and n.id in clear_nodes and fn.name not in skip and 'U' in ins[n.id] \
                    and not any(m_.id == n.id for m_, _ in ins_nodes) \
                    and not any(isinstance(c.args[1], ast.Name) and m_.id in pdom.get(n.id, set()) for m_, c in ins_nodes):
                early.append((key, fn, n.stmt))
        for n, c in ins_nodes:
            via_local = isinstance(c.args[1], ast.Name)
            if n.id in clear_nodes or (clear_nodes & pdom.get(n.id, set())) or (via_local and (clear_nodes & dom.get(n.id, set()))):
                continue
            kept.append((key, fn, c))
    return dict(flushers={fn.name for _, fn in methods if id(fn) in flushers}, commits=commits, early_clears=early, kept=kept)


_BUFFER_CONTROL = """
class W:
    def __init__(self):
        self._conn = sqlite3.connect(p)
        self._buf = []
    def commit(self):
        self._flush()
        self._conn.commit()
    def _flush(self):
        if len(self._buf) == 0:
            return
        self._conn.cursor().executemany('INSERT INTO schedules (a) VALUES (?)', self._buf)
        self._buf = []
    def _add_schedule(self, cur):
        data = []
        for d in days:
            data.append((d,))
        self._buf.extend(data)
        if len(self._buf) >= 50000:
            self._flush()
        return len(data)
    def add(self, e, commit=True):
        n = self._add_schedule(self._conn.cursor())
        if commit:
            COMMIT
        return True
"""


def _buffer_control(commit_stmt: str):
    tree = ast.parse(_BUFFER_CONTROL.replace('COMMIT', commit_stmt))
    for n in ast.walk(tree):
        for ch in ast.iter_child_nodes(n):
            if not isinstance(ch, (ast.expr_context, ast.operator, ast.unaryop, ast.cmpop, ast.boolop)):
                ch._parent = n
    ms = [(f.name, f) for f in tree.body[0].body]
    r = buffer_discipline(ms, '_buf', lambda c, fn: isinstance(c.func, ast.Attribute) and c.func.attr == 'executemany'
                          and len(c.args) == 2 and norm(c.args[1]) == 'self._buf', {'_conn'})
    return {(k, ok) for k, _, _, ok in r['commits']}


def _rule_written(ctx, prog, sch):
    """R4: every instance counted is written to the schedules table before the transaction is committed."""
    plan = _schedule_plan(prog, sch)
    if isinstance(plan, str):
        ctx.undecided('C13-R4', sch, 'schedules INSERT', plan)
    rows = plan['rows']
    write_stmts = {id(stmt_of(c)) for _, c, _, _ in plan['inserts'] if plan['form'] == 'direct'} | {id(st) for st, _ in plan['moves']}

    def classify(node):
        if node.stmt is not None and node.kind == 'stmt' and id(node.stmt) in write_stmts:
            return 'write'
        if any(_is_append_to(c, rows) for c in _node_calls(node)):
            return 'add'
        return None
    g, ins, _ = _flow(sch.node, rows, classify, init='E')
    rets = [n for n in g.nodes if n.kind == 'stmt' and isinstance(n.stmt, ast.Return) and n.id in ins]
    where_to = 'handed to the schedules INSERT' if plan['form'] == 'direct' else f'moved into self.{plan["buffer"]}'
    for r in rets:
        ok = 'U' not in ins[r.id]
        ctx.ob('C13-R4', sch, f'every counted instance is {where_to}', ok,
               f'on every path to the return the list `{rows}` has been {where_to} (or is known to be empty)' if ok else
               f'some path returns the count of `{rows}` without the instances having been {where_to}: the flight is recorded '
               'with a number of instances that the schedules table does not hold', line=r.line)
    ctx.floor('C13-R4/written', len(rets), 1, 'returns of _add_schedule')
    bad = _buffer_control('self._conn.commit()')
    good = _buffer_control('self.commit()')
    good2 = _buffer_control('self._flush(); self._conn.commit()')
    ctx.control('C13-R4', ('add', False) in bad and ('commit', True) in bad and all(ok for _, ok in good | good2)
                and ('add', True) in good2,
                'embedded importer that buffers instances and commits on the connection without flushing is reported; the same '
                'importer committing through the flushing method is accepted')
    if plan['form'] == 'direct':
        return
    buf = plan['buffer']
    fam = _family(prog, sch.cls)
    methods = [(fi, fi.node) for c in fam for fi in c.methods.values()]
    conn_attrs = set()
    for _, fn in methods:
        for t, st, how in stores_to(fn):
            if _self_attr(t) and isinstance(getattr(st, 'value', None), ast.Call) and call_name(st.value).split('.')[-1] == 'connect':
                conn_attrs.add(_self_attr(t))
    if not conn_attrs:
        ctx.undecided('C13-R4', sch, f'self.{buf}', 'the attribute holding the database connection was not found')
    ins_ids = {id(c) for _, c, _, _ in plan['inserts']}
    res = buffer_discipline(methods, buf, lambda c, fn: id(c) in ins_ids, conn_attrs)
    for _, fn in methods:
        for x in walk_no_nested(fn):
            if isinstance(x, (ast.With, ast.AsyncWith)) and any(_self_attr(i.context_expr) in conn_attrs for i in x.items):
                ctx.undecided('C13-R4', sch, f'with self.{sorted(conn_attrs)[0]}', 'a connection used as a context manager commits '
                              'at the end of the block; not modelled together with a buffer of instances')
    flush_txt = ', '.join(sorted({f"{fi.qualname} (line {int(c.lineno)})" for fi, c, _, _ in plan['inserts']}))
    for fi, fn, c, ok in res['commits']:
        if ok is None:
            ctx.undecided('C13-R4', fi, norm(c), f'a method of the object that the program model does not have is called before this '
                          f'commit; whether it writes self.{buf} cannot be decided')
        ctx.ob('C13-R4', fi, f'{norm(c)} only after the buffered instances were written', ok,
               f'on every path to this commit self.{buf} has been written to the schedules table (or is empty)' if ok else
               (f'{sch.name} only moves the instances it counts into self.{buf}; they are INSERTed by {flush_txt}.  This commit is '
                f'reached on a path that does not write the buffer: the transaction that records the flight and its '
                f'number_of_flights is committed while the instances are still in memory, and nothing on this path writes them later - '
                f'the file holds the flight with number_of_flights = n and no rows in schedules'), line=c.lineno)
    ctx.floor('C13-R4/commits', len(res['commits']), 1, 'commit() calls on the connection in the database classes')
    for fi, fn, st in res['early_clears']:
        ctx.ob('C13-R4', fi, f'{norm(st)[:60]} drops instances that were not written', False,
               f'self.{buf} is emptied on a path on which it has not been written to the schedules table', line=st.lineno)
    for fi, fn, c in res['kept']:
        ctx.ob('C13-R4', fi, f'self.{buf} emptied after {norm(c.func)}', False,
               f'after the INSERT self.{buf} still holds the instances on some path: the next flush writes them a second time',
               line=c.lineno)
    # commits on the connection from outside the classes
    for fi in prog.all_functions(src_only=True):
        if any(fi.node is fn for _, fn in methods):
            continue
        for c in calls_in(fi.node):
            if isinstance(c.func, ast.Attribute) and c.func.attr == 'commit' and isinstance(c.func.value, ast.Attribute) \
                    and c.func.value.attr in conn_attrs:
                ctx.undecided('C13-R4', fi, norm(c), f'a commit on the connection from outside the database classes while instances '
                              f'are buffered in self.{buf}')


# ----------------------------------------------------------------------------------------------------
# the stored instant as one expression: multiply-bound locals by execution along the path, helpers inlined
# ----------------------------------------------------------------------------------------------------

def _has_opaque(e) -> bool:
    return any(getattr(x, '_opaque', False) for x in ast.walk(e))


def _env_at(sym: _Sym, fi, target: ast.stmt):
    """symbolic environment of fi just before `target`: the statements on the way to it are executed in order (so a name
    that is bound, then updated - `t = f(..)` / `t += d` / `if c: t = t + d` - has the value it has *there*); entering a
    loop, what the loop assigns is left as a plain name (its value of an earlier iteration).  None when `target` is not
    reached by descending through if / loop / with / try bodies."""
    def descend(stmts, env):
        for i, st in enumerate(stmts):
            if st is not target and not is_within(target, st):
                continue
            env = sym.block(fi, stmts[:i], env, [], [], {})
            if env is None or st is target:
                return env
            if isinstance(st, (ast.For, ast.While)):
                for t, _, _ in stores_to(st):
                    for nm in names_in(t):
                        env.pop(nm, None)
            if isinstance(st, (ast.For, ast.While, ast.If, ast.With, ast.Try)):
                for body in (st.body, getattr(st, 'orelse', []), getattr(st, 'finalbody', [])):
                    if any(s_ is target or is_within(target, s_) for s_ in body):
                        if isinstance(st, ast.With):
                            for it in st.items:
                                if it.optional_vars is not None:
                                    for nm in names_in(it.optional_vars):
                                        env[nm] = _opaque(nm)
                        return descend(body, env)
            return None
        return None
    return descend(fi.node.body, {})


def _inline_helpers(sym: _Sym, fi, e):
    """e (an expression of fi) with the calls of small repository functions - functions nested in fi, module functions,
    methods - replaced by what they return (`_Sym.expand`); the free variables of a function nested in fi are fi's own
    locals and are followed to their single definitions"""
    try:
        out = sym.expand(sym.ev(fi, e, {}))     # ev tags every call with its callee as resolved from fi
    except RecursionError:
        return e
    pref = fi.qualname + '.<locals>.'

    def close(n):
        if isinstance(n, ast.Name) and isinstance(n.ctx, ast.Load):
            q = getattr(getattr(n, '_fi', None), 'qualname', '')
            if q.startswith(pref) and '.<locals>.' not in q[len(pref):]:
                return _subst(fi.node, n)
            return n
        if isinstance(n, ast.AST):
            new = _shell(n)
            for f in n._fields:
                setattr(new, f, close(getattr(n, f, None)))
            return new
        if isinstance(n, list):
            return [close(x) for x in n]
        return n
    return close(out)


def _stored_value(sym: _Sym, sch, v, at: ast.stmt | None):
    """the value expression v of an inserted row, over the parameters of sch, the loop date and what cannot be followed"""
    fv = _subst(sch.node, v)
    params = set(sch.params)
    multi = [n.id for n in ast.walk(fv) if isinstance(n, ast.Name) and isinstance(n.ctx, ast.Load) and n.id not in params
             and len(local_defs(sch.node, n.id)) > 1]
    if multi and at is not None:
        env = _env_at(sym, sch, at)
        if env is not None:
            pv = sym.ev(sch, v, env)
            if not _has_opaque(pv):
                # names bound once *outside* the executed path (after it, or in a loop that was entered) keep their definitions
                fv = _subst(sch.node, pv)
    return _prune_decided(_inline_helpers(sym, sch, fv))


def _truth(e):
    """True / False when the test is decided by constants alone (a default that was passed into a helper), else None"""
    if isinstance(e, ast.Constant) and isinstance(e.value, (bool, int, float, str, type(None))):
        return bool(e.value)
    if isinstance(e, ast.UnaryOp) and isinstance(e.op, ast.Not):
        t = _truth(e.operand)
        return None if t is None else not t
    if isinstance(e, ast.BoolOp):
        ts = [_truth(v) for v in e.values]
        if isinstance(e.op, ast.And):
            return False if False in ts else (True if all(t is True for t in ts) else None)
        return True if True in ts else (False if all(t is False for t in ts) else None)
    if isinstance(e, ast.Compare) and len(e.ops) == 1 and isinstance(e.left, ast.Constant) and isinstance(e.comparators[0], ast.Constant):
        f = _CMPOPS.get(type(e.ops[0]))
        try:
            return bool(f(e.left.value, e.comparators[0].value)) if f else None
        except Exception:
            return None
    return None


def _prune_decided(e):
    """e without the branches of conditional expressions whose test is decided by constants (the path a call with that
    argument does not take)"""
    if isinstance(e, ast.IfExp):
        t = _truth(e.test)
        if t is not None:
            return _prune_decided(e.body if t else e.orelse)
    if isinstance(e, ast.AST):
        new = _shell(e)
        for f in e._fields:
            setattr(new, f, _prune_decided(getattr(e, f, None)))
        return new
    if isinstance(e, list):
        return [_prune_decided(x) for x in e]
    return e


_CALENDAR_KW = {'years', 'months', 'weeks', 'days'}


def _instant_kind(e, pandas_names: set[str], consts: dict, depth: int = 0):
    """what kind of value a date-time expression denotes: 'pandas' (a pandas Timestamp: once it carries a zone, `+` adds
    *elapsed* time), 'stdlib' (datetime.datetime: `+` moves the wall clock and keeps tzinfo, the UTC offset is looked up
    again when the instant is taken), 'number' (epoch seconds and the like), or None (not known)"""
    if depth > 6:
        return None
    k = lambda x: _instant_kind(x, pandas_names, consts, depth + 1)
    if isinstance(e, ast.Name):
        if e.id in pandas_names:
            return 'pandas'
        if e.id in consts:
            return _instant_kind(consts[e.id], pandas_names, {}, depth + 1)
        return None
    if isinstance(e, ast.Constant):
        return 'number' if isinstance(e.value, (int, float)) and not isinstance(e.value, bool) else None
    if isinstance(e, ast.IfExp):
        a, b = k(e.body), k(e.orelse)
        return a if a == b else None
    if isinstance(e, ast.BinOp):
        a, b = k(e.left), k(e.right)
        if 'number' in (a, b):
            return 'number'
        if isinstance(e.op, ast.Sub) and a in ('pandas', 'stdlib') and b in ('pandas', 'stdlib'):
            return 'duration'
        if isinstance(e.op, (ast.Add, ast.Sub)) and a in ('pandas', 'stdlib'):
            return a
        if isinstance(e.op, ast.Add) and b in ('pandas', 'stdlib'):
            return b
        return None
    if isinstance(e, ast.Call):
        nm = call_name(e).split('.')[-1]
        if isinstance(e.func, ast.Attribute):
            recv = e.func.value
            if nm in ('timestamp', 'total_seconds', 'toordinal'):
                return 'number'
            if nm in ('tz_localize', 'tz_convert'):
                return 'pandas'
            if nm == 'to_pydatetime':
                return 'stdlib'
            if nm in ('replace', 'astimezone', 'normalize', 'floor'):
                return k(recv)
            if nm in ('combine', 'strptime', 'fromisoformat', 'fromtimestamp') and norm(recv).split('.')[-1] == 'datetime':
                return 'stdlib'
        if nm == 'datetime':
            return 'stdlib'
        if nm in ('Timestamp', 'to_datetime'):
            return 'pandas'
        if nm in ('int', 'float', 'round') and isinstance(e.func, ast.Name):
            return 'number'
    return None


def _added_kind(e):
    """what is added to an instant: 'elapsed' (timedelta / pd.Timedelta: a fixed number of seconds), 'calendar'
    (pd.DateOffset over calendar units: moves the wall clock and looks the zone's offset up again), None (not known)"""
    if isinstance(e, ast.UnaryOp) and isinstance(e.op, (ast.USub, ast.UAdd)):
        return _added_kind(e.operand)
    if isinstance(e, ast.BinOp) and isinstance(e.op, (ast.Mult, ast.Add, ast.Sub)):
        ks = {_added_kind(s) for s in (e.left, e.right)} - ({None} if isinstance(e.op, ast.Mult) else set())
        return next(iter(ks)) if len(ks) == 1 else None
    if isinstance(e, ast.Call):
        nm = call_name(e).split('.')[-1]
        if nm in ('timedelta', 'Timedelta', 'to_timedelta'):
            return 'elapsed'
        if nm == 'DateOffset' and not e.args and e.keywords and all(kw.arg in _CALENDAR_KW for kw in e.keywords):
            return 'calendar'
    return None


def _is_zero_addend(e) -> bool:
    """an addend that is nothing by its constants alone: 0, timedelta() / timedelta(days=0, ...) / pd.Timedelta(0),
    a product with such a factor, a sum / difference / negation of such (what a helper adds for a default of 0 it was
    called with)"""
    if isinstance(e, ast.Constant):
        return isinstance(e.value, (int, float)) and not isinstance(e.value, bool) and e.value == 0
    if isinstance(e, ast.UnaryOp) and isinstance(e.op, (ast.USub, ast.UAdd)):
        return _is_zero_addend(e.operand)
    if isinstance(e, ast.BinOp):
        if isinstance(e.op, ast.Mult):
            return _is_zero_addend(e.left) or _is_zero_addend(e.right)
        if isinstance(e.op, (ast.Add, ast.Sub)):
            return _is_zero_addend(e.left) and _is_zero_addend(e.right)
        return False
    if isinstance(e, ast.Call) and call_name(e).split('.')[-1] in ('timedelta', 'Timedelta', 'DateOffset') \
            and not any(isinstance(a, ast.Starred) for a in e.args) and all(k.arg for k in e.keywords):
        if call_name(e).split('.')[-1] == 'Timedelta' and e.args and isinstance(e.args[0], ast.Constant) \
                and isinstance(e.args[0].value, str):
            return False
        return all(_is_zero_addend(a) for a in e.args) and all(_is_zero_addend(k.value) for k in e.keywords
                                                               if k.arg not in ('unit',))
    return False


def _rule_r3(ctx, prog, add, flt, sch):
    rows = _schedule_rows(prog, sch)
    if rows is None:
        ctx.undecided('C13-R3', sch, 'schedules INSERT', 'append/executemany idiom not found')
    cols, vals, app, flds_ = rows
    for col, f in zip(cols, flds_ or []):
        cf = role_conflict(col, ast.Name(id=f, ctx=ast.Load()))
        ctx.ob('C13-R3', sch, f'schedules.{col} <- row field {f}', cf is None and bool(_tokens(col) & _tokens(f)),
               'row class field and column agree' if cf is None and _tokens(col) & _tokens(f) else
               (cf or f'field `{f}` of the row class is stored in column {col}'), nontrivial=False)
    _, loop, loopvar = _date_loop(prog, sch)
    if loop is None:
        ctx.undecided('C13-R3', sch, 'per-day loop', 'no `for <date> in pd.date_range(...)` loop found')
    ok = len(cols) == len(vals)
    ctx.ob('C13-R3', sch, f'schedules INSERT: {len(cols)} columns, {len(vals)} values', ok,
           'same arity' if ok else 'column list and value tuple differ in length', nontrivial=False)
    offp = [p for p in sch.params if {'day', 'offset'} <= _tokens(p)]
    full = {}
    sym = _Sym(prog)
    at = stmt_of(app[0]) if app else None
    for col, v in zip(cols, vals):
        fv = _stored_value(sym, sch, v, at)
        full[col] = fv
        cf = role_conflict(col, fv) or role_conflict(col, v)
        sing = lambda ts: {t[:-1] if t.endswith('s') and len(t) > 3 else t for t in ts}     # day / days: one role
        toks = sing(_tokens(col)) & sing(_idents(v) | _idents(fv))
        ctx.ob('C13-R3', sch, f'schedules.{col} <- {norm(v)}', cf is None and bool(toks),
               'column and value agree in role' if cf is None and toks else (cf or f'value `{norm(v)}` shares no name with column {col}'),
               line=v.lineno)
    ninst = 0
    for role, end, other_end in (('departure', 'origin', 'destination'), ('arrival', 'destination', 'origin')):
        col = next((c for c in cols if role in _tokens(c) and 'timestamp' in _tokens(c)), None)
        if col is None:
            ctx.undecided('C13-R3', sch, f'{role} column', 'no <role>_timestamp column in the schedules INSERT')
        ninst += 1
        v = full[col]
        line = vals[cols.index(col)].lineno
        ids = _idents(v)
        other = ANTONYMS[0][1] if role == 'departure' else ANTONYMS[0][0]
        bad = (ids & other) | (ids & ({other_end} | ({'dest'} if other_end == 'destination' else set())))
        locs = _localisations(v)
        uses_offset = bool(offp) and any(p in names_in(v) for p in offp)
        zones_ok = bool(locs) and all(end in _idents(z) and other_end not in _idents(z) for _, _, z in locs)
        ok = not bad and zones_ok and (uses_offset == (role == 'arrival'))
        why = f'{role} instant built from {role} time in the {end} zone'
        if bad:
            why = f'{role} instant uses {sorted(bad)} — the other end\'s data'
        elif not locs:
            if 'timezone' in ids or 'tz' in ids or 'zone' in ids or 'offset' in (ids - {t for p in offp for t in _tokens(p)}):
                ctx.undecided('C13-R3', sch, f'{role} instant', 'a zone is used but no localisation idiom is recognised')
            why = f'{role} instant is never given the time zone of the {end} airport: the local time is stored as if it were UTC'
        elif not zones_ok:
            why = f'{role} instant is not localised with the {end}\'s time zone'
        elif uses_offset != (role == 'arrival'):
            why = 'arrival day offset applied to the wrong instant (or not applied)'
        ctx.ob('C13-R3', sch, f'{col} = {norm(v)[:70]}', ok, why, line=line)
        if not locs:
            continue
        # the zone-aware instant is built per flight date from that date
        stale = [(n, r, z) for n, r, z in locs if loopvar not in names_in(r)]
        per_day = not stale
        ctx.ob('C13-R3', sch, f'{col}: zone applied to the wall-clock time of each flight date', per_day,
               f'the value localised in the {end} zone depends on the loop date `{loopvar}`' if per_day else
               (f'the {end} zone is applied to `{norm(stale[0][1])[:60]}`, which does not depend on the flight date `{loopvar}` of the '
                'per-day loop: the UTC offset is computed once per flight and reused for every date, so every instance on the other '
                'side of a daylight-saving change from that date is stored one hour off'), line=stale[0][0].lineno if stale and hasattr(stale[0][0], 'lineno') else line)
        if per_day:
            # wall-clock arithmetic first, localisation last
            _rule_after_zone(ctx, sch, col, role, end, v, locs, loopvar, line)
        # hour -> hours, minute -> minutes
        pairs = []
        for c in ast.walk(v):
            if isinstance(c, ast.Call) and call_name(c).split('.')[-1] in ('timedelta', 'Timedelta', 'time', 'datetime'):
                for k in c.keywords:
                    if k.arg in ('hours', 'minutes', 'hour', 'minute') and isinstance(k.value, ast.Attribute) \
                            and k.value.attr in ('hour', 'minute'):
                        pairs.append((k.arg.rstrip('s'), k.value.attr))
        okh = all(a == b for a, b in pairs)
        ctx.ob('C13-R3', sch, f'{col} hours/minutes = {sorted(pairs)}', okh,
               'hour to hours, minute to minutes' if okh else 'hour/minute components mixed up', line=line,
               nontrivial=False)
    ctx.floor('C13-R3/instants', ninst, 2, 'timestamp columns resolved to their instants')

    # flights INSERT: the statement text is *computed* (literals, f-strings, joins, repetition, module constants and
    # single-definition locals are folded by the checker's evaluator), so the column list is what the database sees,
    # wherever it is spelled
    found = None
    for c in calls_in(flt.node):
        if call_name(c).split('.')[-1] == 'execute' and len(c.args) >= 2 and not c.keywords:
            sql = _static_str(prog, flt, c.args[0])
            mm = re.search(r'INSERT\s+(?:OR\s+\w+\s+)?INTO\s+flights\s*\(([^)]*)\)\s*VALUES\s*\(([^)]*)\)', sql or '', re.S | re.I)
            if mm:
                found = (c, mm)
    if found is None:
        ctx.undecided('C13-R3', flt, 'flights INSERT', 'no execute() of a statically known `INSERT INTO flights (…) VALUES (…)` '
                      'with a parameter sequence')
    exe, mm = found
    cols = [x.strip() for x in mm.group(1).split(',') if x.strip()]
    marks = [x.strip() for x in mm.group(2).split(',') if x.strip()]
    vals, _ = _row_values(prog, flt, exe.args[1])
    if vals is None or any(q != '?' for q in marks):
        ctx.undecided('C13-R3', flt, 'flights INSERT', 'parameters are not a tuple / NamedTuple display bound to `?` placeholders')
    okq = len(marks) == len(cols)
    ctx.ob('C13-R3', flt, 'flights INSERT: one placeholder per column', okq,
           f'{len(cols)} columns, {len(marks)} placeholders' if okq else
           f'{len(cols)} columns but {len(marks)} placeholders: the statement fails for every row', nontrivial=False)
    ok = len(cols) == len(vals)
    ctx.ob('C13-R3', flt, f'flights INSERT: {len(cols)} columns, {len(vals)} values', ok,
           'same arity' if ok else 'column list and value tuple differ in length')
    ctx.floor('C13-R3/flights', len(cols), 17, 'flights columns')
    for col, v in zip(cols, vals):
        cf = role_conflict(col, _subst(flt.node, v))
        ctx.ob('C13-R3', flt, f'flights.{col} <- {norm(v)[:50]}', cf is None,
               'no role conflict' if cf is None else cf, line=v.lineno, nontrivial=cf is not None)
    odv = next((v for col, v in zip(cols, vals) if 'od' in _tokens(col) and 'pair' in _tokens(col)), None)
    if odv is not None:
        od = _subst(flt.node, odv)
        mm = {call_name(c): c for c in ast.walk(od) if isinstance(c, ast.Call) and call_name(c) in ('min', 'max')}
        srt = [c for c in ast.walk(od) if isinstance(c, ast.Call) and call_name(c) == 'sorted']
        ok = (isinstance(od, ast.BinOp) and isinstance(od.op, ast.Add) and call_name(od.left) == 'min' and call_name(od.right) == 'max'
              and {norm(a) for a in od.left.args} == {norm(a) for a in od.right.args} and len(od.left.args) == 2) \
            if len(mm) == 2 and isinstance(od, ast.BinOp) and isinstance(od.left, ast.Call) and isinstance(od.right, ast.Call) else bool(srt)
        ctx.ob('C13-R3', flt, 'od_pair is direction independent', bool(ok), 'smaller code + larger code' if ok else
               'od_pair depends on direction', nontrivial=False)
    # importer call sites: argument -> parameter roles
    for callee in (flt, sch):
        cs = [c for c in calls_in(add.node) if resolve_call(prog, add, c) == callee]
        ctx.floor(f'C13-R3/{callee.name}', len(cs), 1, f'call of {callee.name} in add')
        params = callee.params[1:]
        for c in cs:
            amap = _arg_map(callee, c)
            for p, a in amap.items():
                cf = role_conflict(p, a) or role_conflict(p, _subst(add.node, a))
                ctx.ob('C13-R3', add, f'{callee.name}({p}={norm(a)})', cf is None,
                       'argument and parameter agree in role' if cf is None else cf, line=a.lineno,
                       nontrivial=cf is not None)
            ok = set(amap) == set(params)
            ctx.ob('C13-R3', add, f'{callee.name} receives {len(amap)} of {len(params)} arguments', ok,
                   'complete' if ok else 'argument count differs: positions shift', line=c.lineno, nontrivial=False)


def _rule_after_zone(ctx, sch, col, role, end, v, locs, loopvar, line):
    """Nothing that counts elapsed time is added to the instant once it carries its zone.  A zone-aware pandas Timestamp
    adds *elapsed* time (`+ timedelta(days=1)` is exactly 24 h), and so does anything added to epoch seconds; the schedule's
    times and its arrival day offset are wall-clock quantities of the airport's zone, so across a daylight-saving change the
    result is an hour off.  Not elapsed-time arithmetic: a pd.DateOffset over calendar units, `+` on a datetime.datetime
    that still carries its ZoneInfo (both move the wall clock and look the offset up again), the difference of two
    instants, and `<value> - <zone>.utcoffset(<value>)`."""
    construct = f'{col}: zone attached after all wall-clock arithmetic'
    lset = {id(n) for n, _, _ in locs}
    real = {id(n) for n, _, _ in locs if getattr(getattr(n, 'func', None), 'attr', '') != 'utcoffset'}
    zone_of = {id(n): z for n, _, z in locs}
    consts = getattr(sch.module, 'constants', {}) or {}
    kind = lambda e: _instant_kind(e, {loopvar}, consts)
    bad, unknown = [], []
    for x in ast.walk(v):
        if not (isinstance(x, ast.BinOp) and isinstance(x.op, (ast.Add, ast.Sub))):
            continue
        sides = [(a, b) for a, b in ((x.left, x.right), (x.right, x.left)) if any(id(y) in real for y in ast.walk(a))]
        if not sides:
            continue
        if isinstance(x.op, ast.Sub) and (_is_difference_of_instants(x, lset) or kind(x.right) in ('pandas', 'stdlib')):
            continue        # aware - aware: an elapsed interval, not arithmetic on the instant
        aware, added = sides[0]
        if _is_zero_addend(added) and not (isinstance(x.op, ast.Sub) and aware is x.right):
            continue        # + timedelta(days=0): the instant itself (a helper called with an offset of 0)
        if isinstance(x.op, ast.Sub) and aware is x.right:
            unknown.append((added, 'an instant is subtracted from something that is not an instant'))
            continue
        ka, kd = kind(aware), _added_kind(added)
        inner = [y for y in ast.walk(aware) if id(y) in real]
        if ka == 'number':
            bad.append((added, 'the epoch seconds of', 'seconds added to an instant are elapsed time'))
        elif ka == 'pandas':
            if kd == 'calendar':
                continue
            if kd == 'elapsed' or kind(added) == 'number':
                bad.append((added, '', 'a zone-aware pandas Timestamp adds elapsed time (exactly 24 h per day)'))
            else:
                unknown.append((added, 'added to a zone-aware pandas Timestamp; whether it counts elapsed time or calendar '
                                'days is not known'))
        elif ka == 'stdlib':
            conv = [y for y in ast.walk(aware) if isinstance(y, ast.Call) and isinstance(y.func, ast.Attribute)
                    and y.func.attr in ('astimezone', 'tz_convert') and any(id(w) in real for w in ast.walk(y.func.value))]
            if conv and all(len(y.args) == 1 and _is_utc(y.args[0]) for y in conv):
                bad.append((added, 'the UTC conversion of', 'once converted to UTC the zone\'s rules no longer apply to what is added'))
            elif conv:
                unknown.append((added, 'added after a zone conversion that is not followed'))
            elif kd == 'elapsed' and all(call_name(zone_of[id(y)]).split('.')[-1] in ('ZoneInfo', 'gettz')
                                         for y in inner if isinstance(zone_of[id(y)], ast.Call)) \
                    and all(isinstance(zone_of[id(y)], ast.Call) for y in inner):
                continue    # datetime + timedelta keeps tzinfo and moves the wall clock; ZoneInfo answers for the new date
            else:
                unknown.append((added, 'added to a zone-aware datetime whose zone object or addend is not recognised'))
        else:
            unknown.append((added, 'added to a localised value whose type (pandas Timestamp / datetime / number) is not known'))
    if not bad and unknown:
        ctx.undecided('C13-R3', sch, construct, f'`{norm(unknown[0][0])[:60]}`: {unknown[0][1]}')
    if not bad:
        ctx.ob('C13-R3', sch, construct, True, 'nothing that counts elapsed time is added to the instant once it carries its zone',
               line=line)
        return
    added, what, because = bad[0]
    offs = 'the arrival day offset' if {'day', 'offset'} <= _idents(added) else 'a wall-clock quantity of the schedule'
    ctx.ob('C13-R3', sch, construct, False,
           f'`{norm(added)[:60]}` is added to {what + " " if what else ""}the {role} instant after the {end} airport\'s zone was attached: '
           f'{because}, but {offs} counts local calendar days / wall-clock time in the {end} zone.  When a daylight-saving change '
           f'of that zone lies between the localised time and the result the stored UTC instant is one hour off; add it to the '
           f'naive wall-clock value before the zone is attached',
           line=line if getattr(getattr(added, '_fi', None), 'file', sch.file) != sch.file else getattr(added, 'lineno', line))


def _is_difference_of_instants(x, lset) -> bool:
    """`aware - aware` (an elapsed interval) is not wall-clock arithmetic on an aware instant"""
    return all(any(id(y) in lset for y in ast.walk(s)) for s in (x.left, x.right))


def _counts_list(fn: ast.AST, lst: str, apps: list, v: ast.expr, depth: int = 0):
    """Is v, returned at the end of fn, the number of elements the list `lst` has then?  -> (yes?, what it is).
    `len(lst)`; a local bound once to that after the last append (and outside the loops that append); or a counter:
    a local set to the constant 0 outside the loops and otherwise only incremented by 1, once next to every append (same
    statement list, same guards, nothing between the two that can leave the list)."""
    if isinstance(v, ast.Call) and call_name(v) == 'len' and len(v.args) == 1 and not v.keywords:
        if norm(v.args[0]) == lst:
            return True, f'len({lst})'
        a = v.args[0]
        if isinstance(a, ast.Name):
            return False, f'the length of `{a.id}`, another sequence (what it holds need not have been stored: an instance can ' \
                          f'be dropped on the way to `{lst}`)'
        return False, 'the length of another sequence'
    if not isinstance(v, ast.Name) or depth > 3:
        return False, ''
    defs = local_defs(fn, v.id)
    app_stmts = [stmt_of(a) for a in apps]
    loops = [a for s_ in app_stmts for a in ancestors(s_) if isinstance(a, (ast.For, ast.While))]
    if len(defs) == 1:
        d = single_def_value(fn, v.id)
        if d is None:
            return False, ''
        late = all(defs[0].lineno > s_.lineno for s_ in app_stmts) and not any(is_within(defs[0], lp) for lp in loops)
        okd, why = _counts_list(fn, lst, apps, d, depth + 1)
        if okd and not late:
            return False, f'`{norm(d)}` taken before the last instance is appended'
        return okd, why
    inits = [d for d in defs if isinstance(d, (ast.Assign, ast.AnnAssign))]
    incs = [d for d in defs if isinstance(d, ast.AugAssign)]
    if len(inits) != 1 or len(inits) + len(incs) != len(defs) or not incs:
        return False, ''
    i0 = inits[0]
    if not (isinstance(getattr(i0, 'value', None), ast.Constant) and i0.value.value == 0 and i0.value.value is not False) \
            or any(is_within(i0, lp) for lp in loops) or any(i0.lineno > s_.lineno for s_ in app_stmts):
        return False, ''
    if not all(isinstance(d.op, ast.Add) and isinstance(d.value, ast.Constant) and d.value.value == 1
               and d.value.value is not True for d in incs):
        return False, f'a counter `{v.id}` that is not incremented by one per instance'
    free = list(app_stmts)
    for d in incs:
        body = next((b for f_ in ('body', 'orelse', 'finalbody') for b in [getattr(parent(d), f_, None)]
                     if isinstance(b, list) and any(x is d for x in b)), None)
        mate = None
        if body is not None:
            i = next(k for k, x in enumerate(body) if x is d)
            for s_ in free:
                j = next((k for k, x in enumerate(body) if x is s_), None)
                if j is None:
                    continue
                between = body[min(i, j) + 1:max(i, j)]
                if not any(isinstance(y, (ast.Continue, ast.Break, ast.Return, ast.Raise)) for b in between for y in ast.walk(b)):
                    mate = s_
                    break
        if mate is None:
            return False, f'a counter `{v.id}` that is incremented (line {d.lineno}) where no instance is appended to `{lst}`: it ' \
                          f'also counts dates whose instance is dropped afterwards'
        free = [s_ for s_ in free if s_ is not mate]
    if free:
        return False, f'a counter `{v.id}` that misses an append to `{lst}`'
    return True, f'counter `{v.id}` incremented with every append to `{lst}`'


def _rule_r4(ctx, prog, wm, add, flt, sch):
    _rule_written(ctx, prog, sch)
    g = CFG(add.node)
    dom = g.dominators(edge_ok=lambda a, b, lab: lab != 'e')

    def node_calling(callee):
        for n in g.nodes:
            if n.stmt is not None and n.kind == 'stmt':
                for c in calls_in(n.stmt):
                    if resolve_call(prog, add, c) == callee:
                        return n, c
        return None, None
    nf, cf_ = node_calling(flt)
    ns, cs_ = node_calling(sch)
    cnt = wm.func('WritableDatabase._set_flight_count')
    nc, cc_ = node_calling(cnt)
    rets = [n for n in g.nodes if n.kind == 'stmt' and isinstance(n.stmt, ast.Return)
            and isinstance(n.stmt.value, ast.Constant) and n.stmt.value.value is True]
    ctx.floor('C13-R4', len(rets), 1, '`return True` in add')
    for r in rets:
        ok = all(x is not None and x.id in dom[r.id] for x in (nf, ns, nc))
        ctx.ob('C13-R4', add, 'successful import passes flight, schedule and count', ok,
               '_add_flight, _add_schedule and _set_flight_count dominate `return True`' if ok else
               'a row can be reported as imported without its flight record, instances or instance count',
               line=r.line)
    if nc is not None and ns is not None and nf is not None:
        def target(c):
            s = stmt_of(c)
            if isinstance(s, ast.Assign) and len(s.targets) == 1 and isinstance(s.targets[0], ast.Name) and s.value is c:
                return s.targets[0].id
            if isinstance(s, ast.AnnAssign) and isinstance(s.target, ast.Name) and s.value is c:
                return s.target.id
            return None
        fid, nfl = target(cf_), target(cs_)
        am = {p: norm(a) for p, a in _arg_map(cnt, cc_).items()}
        ps = cnt.params[1:]
        idp = next((p for p in ps if 'id' in _tokens(p)), None)
        nump = next((p for p in ps if _tokens(p) & {'num', 'count', 'number', 'n'}), None)
        ok = fid is not None and nfl is not None and am.get(idp) == fid and am.get(nump) == nfl
        ctx.ob('C13-R4', add, f'_set_flight_count({", ".join(f"{k}={v}" for k, v in am.items())})', ok,
               'count of the instances just created, on the flight just created' if ok else
               'the recorded count is not the number returned by _add_schedule for this flight', line=cc_.lineno)
        sm = {p: norm(a) for p, a in _arg_map(sch, cs_).items()}
        sidp = next((p for p in sch.params[1:] if {'flight', 'id'} <= _tokens(p)), None)
        ok = fid is not None and sm.get(sidp) == fid
        ctx.ob('C13-R4', add, 'instances attached to the flight just created', ok,
               f'flight_id={fid}' if ok else 'schedule rows are attached to a different flight id', line=cs_.lineno,
               nontrivial=False)
    rows = _schedule_rows(prog, sch)
    r = [n for n in walk_no_nested(sch.node) if isinstance(n, ast.Return)]
    lst = rows[2][0].func.value.id if rows else None
    empty_at = set()
    if lst is not None:
        # a return on a path on which the list is known to be empty may say 0
        g_, ins_, _ = _flow(sch.node, lst, lambda node: 'add' if any(_is_append_to(c, lst) for c in _node_calls(node)) else None, init='E')
        empty_at = {id(n.stmt) for n in g_.nodes if n.kind == 'stmt' and isinstance(n.stmt, ast.Return) and ins_.get(n.id) == frozenset({'E'})}
    verdicts = []
    for x in r:
        if id(x) in empty_at and isinstance(x.value, ast.Constant) and x.value.value == 0 and x.value.value is not False:
            verdicts.append((x, True, '0', False))
            continue
        okx, whyx = _counts_list(sch.node, lst, rows[2] if rows else [], x.value) if lst is not None else (False, '')
        verdicts.append((x, okx, whyx, True))
    ok = bool(r) and lst is not None and all(v[1] for v in verdicts) and any(v[3] for v in verdicts)
    wrong = next((v for v in verdicts if not v[1]), None)
    ctx.ob('C13-R4', sch, 'returns the number of instances created', ok,
           next(v[2] for v in verdicts if v[3]) if ok else
           '_add_schedule does not return the number of rows it inserts' +
           (f': it returns `{norm(wrong[0].value)[:60]}`' + (f' - {wrong[2]}' if wrong[2] else '') +
            f', but the instances that are stored are the elements of `{lst}`; the importer records the returned number as the '
            f'flight\'s instance count' if wrong is not None and wrong[0].value is not None and lst is not None else ''),
           line=(wrong[0].lineno if wrong is not None else None) or sch.node.lineno)
    if ok:
        # the same question on the function *as written*: a length bound to a local before the list is complete and returned
        # at the end is not `len(<list>)` at the return, whatever a normalisation pass makes of the local
        raw = _raw_index(sch.module)['functions'].get(sch.qualname)
        if raw is not None:
            for n_ in ast.walk(raw):
                for ch in ast.iter_child_nodes(n_):
                    ch._parent = n_
            for x in [n_ for n_ in walk_no_nested(raw) if isinstance(n_, ast.Return)]:
                d = single_def_value(raw, x.value.id) if isinstance(x.value, ast.Name) else None
                if isinstance(d, ast.Call) and call_name(d) == 'len' and len(d.args) == 1 and isinstance(d.args[0], ast.Name):
                    rl = d.args[0].id
                    rapps = [c_ for c_ in calls_in(raw) if _is_append_to(c_, rl)]
                    if rapps:
                        okx, whyx = _counts_list(raw, rl, rapps, x.value)
                        if not okx and 'taken before' in whyx:
                            ctx.ob('C13-R4', sch, 'returns the number of instances created (as written)', False,
                                   f'_add_schedule does not return the number of rows it inserts: it returns `{x.value.id}`, '
                                   f'{whyx} to `{rl}`; the importer records the returned number as the flight\'s instance count',
                                   line=x.lineno)
    sq = [c for c in calls_in(cnt.node) if call_name(c).endswith('.execute') and len(c.args) >= 2]
    ok = False
    if sq:
        sqlt = norm(sq[0].args[0])
        par = sq[0].args[1]
        i_set, i_where = sqlt.find('number_of_flights = ?'), sqlt.find('WHERE id = ?')
        if isinstance(par, ast.Tuple) and len(par.elts) == 2 and 0 <= i_set < i_where:
            a0, a1 = (_tokens(norm(x)) for x in par.elts)
            ok = bool(a0 & {'num', 'count', 'number', 'n'}) and 'id' in a1 and 'id' not in a0
    ctx.ob('C13-R4', cnt, 'UPDATE sets number_of_flights for that id', ok,
           norm(sq[0].args[1]) if ok else 'parameter order of the UPDATE does not match its placeholders'
           if sq else 'the count is not written to the flights table by _set_flight_count')


_BASE_ROW = dict(carrier='DL', fltno='1621', depapt='ATL', depctry='US', arrapt='LAX', arrctry='CA', deptim='0905',
                 arrtim='1130', arrday=' ', days='1234567', distance='0001946', service='J', inpacft='738', genacft='737',
                 seats='0160', efffrom='20190305', effto='20191124', stops='00', longest='L', operating='')


def _row(**over):
    r = dict(_BASE_ROW)
    r.update(over)
    return r


def _rule_r5(ctx, prog, om, add):
    rv = om.func('CSVEntry.is_row_valid')
    documented = {'carrier': 'end-of-file marker', 'service': 'service type', 'stops': 'stops',
                  'operating': 'non-operating carrier', 'genacft': 'non-aircraft equipment'}
    nrej = 0
    rowp = rv.params[-1] if rv.params else 'row'
    for n in walk_no_nested(rv.node):
        if isinstance(n, ast.Return) and isinstance(n.value, ast.Constant) and n.value.value is False:
            nrej += 1
            keys = set()
            for t, pol, _ in guards_of(n):
                for x in ast.walk(_subst(rv.node, t)):
                    if isinstance(x, ast.Subscript) and norm(x.value) == rowp and isinstance(x.slice, ast.Constant):
                        keys.add(x.slice.value)
                    if isinstance(x, ast.Call) and isinstance(x.func, ast.Attribute) and x.func.attr == 'get' \
                            and norm(x.func.value) == rowp and x.args and isinstance(x.args[0], ast.Constant):
                        keys.add(x.args[0].value)
            extra = keys - set(documented)
            ctx.ob('C13-R5', rv, f'row rejected on {sorted(keys)}', not extra and bool(keys),
                   ', '.join(documented[k] for k in keys) if not extra and keys else
                   f'rows are dropped for an undocumented reason ({sorted(extra) or "unconditional"})', line=n.lineno)
    # what the filter computes, on the table of documented values
    table = [({}, True)]
    table += [({'carrier': '\x1a'}, False), ({'carrier': 'AA'}, True)]
    table += [({'service': s}, s not in ('V', 'U')) for s in 'VUJSFCGQ']
    table += [({'stops': s}, int(s) == 0) for s in ('0', '00', '1', '01', '2')]
    table += [({'operating': s}, s != 'N') for s in ('N', '', 'O', ' ')]
    table += [({'genacft': s}, s not in ('BUS', 'HOV', 'LCH', 'LMO', 'RFS', 'TRN'))
              for s in ('BUS', 'HOV', 'LCH', 'LMO', 'RFS', 'TRN', '737', '32S', 'JET', 'DH8')]
    it = _Interp(prog)
    bad = []
    try:
        for over, want in table:
            try:
                got = it.call_fi(rv, [_row(**over)])
            except _Raised as r:
                got = f'raises {type(r.exc).__name__}'
            if bool(got) is not want or isinstance(got, str):
                bad.append(f'{over or "plain row"}: {"kept" if got is True else ("dropped" if got is False else got)}')
    except _Undecidable as u:
        ctx.undecided('C13-R5', rv, 'is_row_valid on the documented values', f'not evaluable: {u}')
    ctx.ob('C13-R5', rv, f'filter evaluated on {len(table)} documented field values', not bad,
           'rejects exactly: end-of-file marker, service V/U, stops != 0, operating N, non-aircraft equipment' if not bad else
           'the row filter no longer rejects exactly the documented rows: ' + '; '.join(bad[:4]))
    ctx.floor('C13-R5', len(table), 20, 'documented field values evaluated through is_row_valid')
    for n in walk_no_nested(add.node):
        if isinstance(n, ast.Return) and isinstance(n.value, ast.Constant) and n.value.value is False:
            why = _skip_reasons_documented(prog, add, _guard_facts(n), {}, 0)
            ok = not why
            gs = [norm(t) for t, pol, _ in guards_of(n)]
            ctx.ob('C13-R5', add, f'import skipped under {gs}', ok,
                   'unknown airport / implausible distance' if ok else
                   'row skipped for an undocumented reason' + (f' ({why[0]})' if why[0] != 'here' else ''),
                   line=n.lineno)


def _guard_facts(n: ast.AST) -> list:
    """[(test, polarity, statement the test is evaluated at)]: the atomic facts construct n is control-dependent on"""
    return [(a, p, stmt_of(owner)) for t, pol, owner in guards_of(n) for a, p in conjuncts(t, pol)]


def _documented_skip_atom(ft: ast.expr, pol: bool) -> bool:
    """is the fact `ft has truth value pol` (ft: locals already replaced by their values) a documented reason for
    skipping a row at import - an airport look-up that gave None, a distance check that failed - or a disjunction of
    such reasons?"""
    if isinstance(ft, ast.UnaryOp) and isinstance(ft.op, ast.Not):
        return _documented_skip_atom(ft.operand, not pol)
    if isinstance(ft, ast.BoolOp) and ((isinstance(ft.op, ast.Or) and pol) or (isinstance(ft.op, ast.And) and not pol)):
        return all(_documented_skip_atom(x, pol) for x in ft.values)
    if isinstance(ft, ast.BoolOp):
        return False
    if isinstance(ft, ast.Compare) and len(ft.ops) == 1 and isinstance(ft.comparators[0], ast.Constant) \
            and ft.comparators[0].value is None and isinstance(ft.ops[0], (ast.Is, ast.IsNot)):
        return isinstance(ft.ops[0], ast.Is) == pol and not isinstance(ft.left, (ast.IfExp, ast.BoolOp)) and any(
            isinstance(c, ast.Call) and 'airport' in _tokens(call_name(c)) for c in ast.walk(ft.left))
    if isinstance(ft, (ast.IfExp, ast.Compare)):
        return False
    return not pol and any(isinstance(c, ast.Call) and {'distance', 'check'} <= _tokens(call_name(c))
                           for c in ast.walk(ft))


def _value_is(e: ast.expr, kind: str):
    """does the written value e satisfy kind ('none' / 'falsy' / 'truthy')?  True / False / None = not known"""
    if isinstance(e, ast.Constant):
        return {'none': e.value is None, 'falsy': not e.value, 'truthy': bool(e.value)}[kind]
    if isinstance(e, (ast.Tuple, ast.List, ast.Set, ast.Dict)):
        n = len(e.keys) if isinstance(e, ast.Dict) else len(e.elts)
        if kind == 'none':
            return False
        if any(isinstance(x, ast.Starred) for x in getattr(e, 'elts', ())) or (isinstance(e, ast.Dict) and None in e.keys):
            return None
        return (n == 0) if kind == 'falsy' else (n > 0)
    if kind == 'none' and isinstance(e, (ast.Compare, ast.BinOp, ast.UnaryOp, ast.JoinedStr, ast.ListComp, ast.SetComp,
                                         ast.DictComp, ast.GeneratorExp, ast.Lambda)):
        return False
    return None


_SKIP_DEPTH = 4


def _skip_reasons_documented(prog, fi, facts, env: dict, depth: int) -> list[str]:
    """The facts [(test, polarity, statement | None)] hold, in function fi, on a path that skips the row (env: parameter
    of fi -> the caller's value).  [] when every one of them is a documented reason (or the complement of one, left
    behind by an earlier exit of an if/elif chain, next to at least one reason); otherwise what is not.  A fact about a
    value that is no reason by itself - `v is None`, `not v`, `v` - is followed into v: a local takes the values it has
    at the test (a conditional expression over the branches that bound it), a call of a repository function the values
    of its exits; each way to the skipping value must be taken for documented reasons only, whatever the helper or the
    local is called and however many levels deep it is."""
    here = depth == 0
    if not facts:
        return ['here' if here else f'{fi.qualname}: the skipping result is unconditional']
    sym = _Sym(prog)
    out, reasons = [], 0
    for t, pol, at in facts:
        ft = t
        if at is not None:
            ft = _subst(fi.node, t)
            params = set(fi.params)
            if any(isinstance(x, ast.Name) and isinstance(x.ctx, ast.Load) and x.id not in params
                   and len(local_defs(fi.node, x.id)) > 1 for x in ast.walk(ft)):
                e0 = _env_at(sym, fi, at)
                if e0 is not None:
                    pv = sym.ev(fi, t, e0)
                    if not _has_opaque(pv):
                        ft = _subst(fi.node, pv)
            ft = _param_subst(ft, env)
        if _documented_skip_atom(ft, pol):
            reasons += 1
            continue
        if _documented_skip_atom(ft, not pol):
            continue                                        # not an earlier reason: narrows the path, skips nothing
        sub = _result_fact(prog, fi, ft, pol, env, depth)
        if sub is None:
            out.append('here' if here else f'{fi.qualname}: {"" if pol else "not "}{norm(t)}')
        elif sub:
            out.extend(sub)
        else:
            reasons += 1
    if not out and not reasons:
        out.append('here' if here else f'{fi.qualname}: no documented reason on the path')
    return out


def _result_fact(prog, fi, ft: ast.expr, pol: bool, env: dict, depth: int):
    """ft/pol is a fact about the value of a conditional expression or of one call of a repository function: None when
    it is not of that form (or the callee cannot be read), else the list of undocumented reasons among the ways that
    make the fact true"""
    if depth >= _SKIP_DEPTH:
        return None
    while isinstance(ft, ast.UnaryOp) and isinstance(ft.op, ast.Not):
        ft, pol = ft.operand, not pol
    v, kind = ft, ('truthy' if pol else 'falsy')
    if isinstance(ft, ast.Compare) and len(ft.ops) == 1 and isinstance(ft.comparators[0], ast.Constant) \
            and ft.comparators[0].value is None and isinstance(ft.ops[0], (ast.Is, ast.IsNot)):
        if isinstance(ft.ops[0], ast.Is) != pol:
            return None                                     # `v is not None` skips: no value to follow
        v, kind = ft.left, 'none'

    def fact_of(leaf):
        if kind == 'none':
            return (ast.Compare(left=leaf, ops=[ast.Is()], comparators=[ast.Constant(value=None)]), True, None)
        return (leaf, kind == 'truthy', None)

    if isinstance(v, ast.IfExp) or (isinstance(v, ast.BoolOp) and isinstance(v.op, ast.Or) and kind == 'none'):
        out = []
        for g, leaf in _cases(v):
            m = _value_is(leaf, kind)
            if m is False:
                continue
            facts = [(a, p, None) for a, p in _atoms(list(g))]
            if m is None:
                facts.append(fact_of(leaf))
            out.extend(_skip_reasons_documented(prog, fi, facts, env, depth + 1))
        return out
    if not isinstance(v, ast.Call):
        return None
    call, callee = v, None
    for frame in (getattr(call, '_fi', None), fi):
        if frame is None:
            continue
        try:
            callee = resolve_call(prog, frame, call)
        except Exception:
            callee = None
        if callee is not None:
            break
    node = getattr(callee, 'node', None)
    if node is None or not isinstance(node, ast.FunctionDef) or node.args.vararg or node.args.kwarg \
            or any(isinstance(x, (ast.Yield, ast.YieldFrom, ast.Await)) for x in walk_no_nested(node)):
        return None
    if any(d for d in callee.decorators() if not any(k in d for k in ('staticmethod', 'classmethod'))):
        return None
    cenv = dict(_arg_map(callee, call))
    pos = node.args.posonlyargs + node.args.args
    for arg, d in list(zip(pos[len(pos) - len(node.args.defaults):], node.args.defaults)) + \
            [(x, d) for x, d in zip(node.args.kwonlyargs, node.args.kw_defaults) if d is not None]:
        cenv.setdefault(arg.arg, d)
    out, exits = [], 0
    for r in walk_no_nested(node):
        if not isinstance(r, ast.Return):
            continue
        rv_ = r.value if r.value is not None else ast.Constant(value=None)
        m = _value_is(_subst(node, rv_), kind)
        if m is False:
            continue
        exits += 1
        facts = _guard_facts(r)
        if m is None:
            facts.append(fact_of(rv_)[:2] + (r,))
        out.extend(_skip_reasons_documented(prog, callee, facts, cenv, depth + 1))
    if kind in ('none', 'falsy') and _Sym(prog).block(callee, node.body, {}, [], [], {}) is not None:
        out.append(f'{callee.qualname}: the skipping result is what running off its end gives')
    if kind == 'truthy' and not exits:
        return None
    return out


def _stmt_list_of(st: ast.stmt):
    """the statement list `st` is an element of, and the statement (or function) that owns the list"""
    p = parent(st)
    for f in ('body', 'orelse', 'finalbody'):
        lst = getattr(p, f, None)
        if isinstance(lst, list) and any(x is st for x in lst):
            return lst, p
    return None, p


def _falsy_when(test: ast.expr, truth: bool, text: str) -> bool:
    """the outcome `truth` of the test establishes that the flag / counter / list `text` is falsy (False, 0, empty)"""
    if _empty_fact(test, truth, text):
        return True
    for e, p in conjuncts(test, truth):
        if isinstance(e, ast.Compare) and len(e.ops) == 1:
            l, r, op = norm(e.left), norm(e.comparators[0]), type(e.ops[0]).__name__
            if r == text and l != text:
                l, r, op = r, l, {'Lt': 'Gt', 'Gt': 'Lt', 'LtE': 'GtE', 'GtE': 'LtE'}.get(op, op)
            if l == text:
                falsy_when = {('Eq', '0'): True, ('NotEq', '0'): False, ('Gt', '0'): False, ('GtE', '1'): False, ('Lt', '1'): True,
                              ('LtE', '0'): True, ('Is', 'True'): False, ('Eq', 'True'): False, ('IsNot', 'True'): True,
                              ('Is', 'False'): True, ('Eq', 'False'): True, ('IsNot', 'False'): False, ('NotEq', 'False'): False,
                              ('NotEq', 'True'): True}.get((op, r))
                if falsy_when is not None and falsy_when == p:
                    return True
    return False


def _falsy_init(e) -> bool:
    return (isinstance(e, ast.Constant) and e.value in (False, 0, None)) or _fresh_empty(e) or \
        (isinstance(e, ast.Call) and call_name(e) in ('set', 'dict') and not e.args and not e.keywords) or \
        (isinstance(e, ast.Dict) and not e.keys)


def _deferred_report(fn: ast.AST, loop: ast.stmt, drop: ast.stmt, reports: list, is_reason, inclusive: bool = False):
    """The branch of `loop` that ends at `drop` (a `continue`) does not report by itself; it *marks* that it was taken, and the
    report is made once, after the loop, whenever the mark is set.  Decided on the function as a whole:
      - the mark F is falsy when the loop starts (`F = False` / `0` / `[]` / `set()` before the loop, the only binding outside it);
      - on the way to `drop` F becomes truthy (`F = True`, `F += 1`, `F.append(x)` / `F.add(x)` in a statement list that
        encloses `drop`, before it; or `F = F or <reason>` / `F |= <reason>` with the very condition the branch is taken on),
        and nothing in the loop makes it falsy again (every store to F in the loop is of those forms);
      - after the loop - in its statement list or, when the loop is the last statement of a `with` / `try` body, after that -
        with no `return` / `raise` and no store to F in between, a report is made under `if <F is truthy>:` (any test whose
        failing implies F is falsy) or once per element (`for x in F:`), and under nothing else.
    -> the report call, or None"""
    # candidate marks: statements before `drop` (or before a statement enclosing it) inside the loop
    cands = [drop] if inclusive else []     # inclusive: `drop` is the last statement of a branch that just falls out
    node = drop
    while node is not loop and node is not None:
        lst, owner = _stmt_list_of(node)
        if lst is None:
            break
        for s_ in lst:
            if s_ is node:
                break
            cands.append(s_)
        node = owner
    drop_guards = [(t, pol) for t, pol, _ in guards_of(drop, stop=loop)]

    def mark_of(s_):
        """name marked truthy by the statement, or None"""
        if isinstance(s_, ast.Assign) and len(s_.targets) == 1 and isinstance(s_.targets[0], ast.Name):
            f, v = s_.targets[0].id, s_.value
            if isinstance(v, ast.Constant) and v.value is not None and bool(v.value):
                return f
            if isinstance(v, ast.BoolOp) and isinstance(v.op, ast.Or) and len(v.values) == 2 and norm(v.values[0]) == f \
                    and is_reason(v.values[1]):
                return f
            if isinstance(v, ast.BinOp) and isinstance(v.op, (ast.BitOr, ast.Add)) and norm(v.left) == f and (
                    is_reason(v.right) if isinstance(v.op, ast.BitOr) else
                    isinstance(v.right, ast.Constant) and type(v.right.value) is int and v.right.value > 0):
                return f
        if isinstance(s_, ast.AugAssign) and isinstance(s_.target, ast.Name):
            if isinstance(s_.op, ast.Add) and isinstance(s_.value, ast.Constant) and type(s_.value.value) in (int, bool) \
                    and s_.value.value > 0:
                return s_.target.id
            if isinstance(s_.op, ast.BitOr) and (is_reason(s_.value) or (isinstance(s_.value, ast.Constant) and s_.value.value is True)):
                return s_.target.id
        if isinstance(s_, ast.Expr) and isinstance(s_.value, ast.Call) and isinstance(s_.value.func, ast.Attribute) \
                and s_.value.func.attr in ('append', 'add') and isinstance(s_.value.func.value, ast.Name) and len(s_.value.args) == 1:
            return s_.value.func.value.id
        return None

    for m in cands:
        f = mark_of(m)
        if f is None:
            continue
        # a mark written under a condition of its own (other than the drop's) does not cover every dropped instance
        mg = [(norm(t), pol) for t, pol, _ in guards_of(m, stop=loop)]
        if any(g not in [(norm(t), pol) for t, pol in drop_guards] for g in mg):
            continue
        defs = local_defs(fn, f)
        outside = [d for d in defs if not is_within(d, loop)]
        inside = [d for d in defs if is_within(d, loop)]
        if len(outside) != 1 or not isinstance(outside[0], (ast.Assign, ast.AnnAssign)) or outside[0].value is None \
                or not _falsy_init(outside[0].value) or outside[0].lineno >= loop.lineno:
            continue
        if isinstance(outside[0], ast.Assign) and not (len(outside[0].targets) == 1 and isinstance(outside[0].targets[0], ast.Name)):
            continue
        if any(mark_of(d) != f for d in inside):
            continue
        if any(isinstance(x, ast.Call) and isinstance(x.func, ast.Attribute) and norm(x.func.value) == f
               and x.func.attr in ('clear', 'pop', 'remove', 'discard') for x in walk_no_nested(fn)):
            continue
        # the report after the loop
        node = loop
        while node is not None and not isinstance(node, (ast.FunctionDef, ast.AsyncFunctionDef)):
            lst, owner = _stmt_list_of(node)
            if lst is None:
                break
            idx = next(i for i, x in enumerate(lst) if x is node)
            for s_ in lst[idx + 1:]:
                if isinstance(s_, ast.If) and _falsy_when(s_.test, False, f):
                    for w in reports:
                        if is_within(w, s_) and [o for _, pol, o in guards_of(w)] == [s_] and any(stmt_of(w) is x for x in s_.body) \
                                and not any(isinstance(x, (ast.Return, ast.Raise)) for b in s_.body[:s_.body.index(stmt_of(w))]
                                            for x in walk_no_nested(b)):
                            return w
                if isinstance(s_, ast.For) and norm(s_.iter) == f:
                    for w in reports:
                        if is_within(w, s_) and not guards_of(w) and any(stmt_of(w) is x for x in s_.body):
                            return w
                if any(isinstance(x, (ast.Return, ast.Raise)) for x in walk_no_nested(s_)) or local_defs(s_, f):
                    node = None
                    break
            else:
                if isinstance(owner, (ast.With, ast.AsyncWith)) or (isinstance(owner, ast.Try) and lst is owner.body and not owner.orelse):
                    node = owner
                    continue
                node = None
            if node is None:
                break
    return None


def _rule_r6(ctx, prog, om, wm, sch):
    c, loop, loopvar = _date_loop(prog, sch)
    if c is None or loop is None:
        ctx.undecided('C13-R6', sch, 'pd.date_range', 'no single per-day loop over one pd.date_range call')
    kw = {k.arg: k.value for k in c.keywords if k.arg}
    bad_kw = []
    for k, v in kw.items():
        if k in ('inclusive', 'closed') and not (isinstance(v, ast.Constant) and v.value in ('both', None)):
            bad_kw.append(k)
        if k == 'periods' and not (isinstance(v, ast.Constant) and v.value is None):
            bad_kw.append(k)
        if k == 'freq' and not (isinstance(v, ast.Constant) and v.value in ('D', '1D', None)):
            bad_kw.append(k)
    ends = [c.args[0] if len(c.args) > 0 else kw.get('start'), c.args[1] if len(c.args) > 1 else kw.get('end')]
    if len(c.args) > 2:
        bad_kw.append('periods')
    slots = []
    for e_ in ends:
        fe = _subst(sch.node, e_) if e_ is not None else None
        slots.append(_slot(fe.id) if isinstance(fe, ast.Name) and fe.id in sch.params else None)
    ok = not bad_kw and slots == ['from', 'to']
    ctx.ob('C13-R6', sch, norm(c), ok, 'inclusive daily range over the two effective dates' if ok else
           f'date range is restricted or not from the effective-from to the effective-to date ({bad_kw or slots})', line=c.lineno)
    ctl = ast.parse("pd.date_range(a, b, inclusive='left')").body[0].value
    ctx.control('C13-R6', any(k.arg == 'inclusive' and k.value.value != 'both' for k in ctl.keywords),
                'embedded date_range(..., inclusive=) is recognised')

    daysp = [p for p in sch.params if 'days' in _tokens(p) or _tokens(p) == {'weekdays'}]
    from_pandas = prog.module('types/time.py').func('DayOfWeek.from_pandas')

    def atom_kind(t, pol, datevar=None):
        """('weekday', operating?) / ('misordered', arrival precedes departure?) / None; `datevar` is the name the date
        has where the test is written (the loop variable, or the variable of a filter the dates pass through)"""
        datevar = datevar or loopvar
        if isinstance(t, ast.Compare) and len(t.ops) == 1:
            op, left, right = t.ops[0], _subst(sch.node, t.left), _subst(sch.node, t.comparators[0])
            if isinstance(op, (ast.In, ast.NotIn)) and isinstance(right, ast.Name) and right.id in daysp:
                wd = False
                if isinstance(left, ast.Call) and len(left.args) == 1 and norm(left.args[0]) == datevar:
                    try:
                        wd = resolve_call(prog, sch, left) == from_pandas
                    except Exception:
                        wd = False
                if isinstance(left, ast.Call) and call_name(left).split('.')[-1] == 'DayOfWeek' and len(left.args) == 1 \
                        and norm(left.args[0]) == f'{datevar}.isoweekday()':
                    wd = True
                if wd:
                    return 'weekday', (isinstance(op, ast.In)) == pol
            if isinstance(op, (ast.Lt, ast.Gt, ast.LtE, ast.GtE)):
                def side(raw, full):
                    for e_ in (raw, full):
                        i = _idents(e_)
                        a, d = bool(i & ANTONYMS[0][1]), bool(i & ANTONYMS[0][0])
                        if a != d:
                            return 'arr' if a else 'dep'
                    return None
                sl, sr = side(t.left, left), side(t.comparators[0], right)
                if {sl, sr} == {'arr', 'dep'}:
                    o = type(op)
                    if sl == 'dep':  # dep OP arr  ->  arr OP' dep
                        o = {ast.Lt: ast.Gt, ast.Gt: ast.Lt, ast.LtE: ast.GtE, ast.GtE: ast.LtE}[o]
                    if o is ast.Lt:
                        return 'misordered', pol
                    if o is ast.GtE:
                        return 'misordered', not pol
        return None

    def kinds(n):
        out = []
        for t, pol in _atoms([(t, pol) for t, pol, _ in guards_of(n, stop=loop)]):
            out.append((atom_kind(t, pol), norm(t), pol))
        return out

    rows = _schedule_rows(prog, sch)
    apps = rows[2] if rows else []
    conts = [n for n in ast.walk(loop) if isinstance(n, (ast.Continue, ast.Break))
             and next((a for a in ancestors(n) if isinstance(a, (ast.For, ast.While))), None) is loop]
    seen = set()
    # the dates the loop body sees: every date of the range, or those that pass a filter written on the iterable
    # (`[d for d in <range> if c]`, `filter(lambda d: c, <range>)`, through locals) - the same thing as `if not c: continue`
    pipe = _range_pipeline(sch.node, loop.iter, 0, prog, sch)
    if pipe is None or norm(pipe[0]) != norm(c):
        ctx.undecided('C13-R6', sch, f'for {loopvar} in {norm(loop.iter)[:60]}', 'the per-day loop does not run over the dates of '
                      'the range themselves (possibly filtered): whether every date of the range reaches the loop body is not decided')
    for node, what in pipe[2]:
        ctx.ob('C13-R6', sch, f'every date of the range reaches the per-day loop ({norm(node)[:60]})', False,
               f'{what}: instances on operating days inside the effective range are not created', line=getattr(node, 'lineno', loop.lineno))
    for cond, dvar, node in pipe[1]:
        for t, pol in conjuncts(cond, True):
            k = atom_kind(t, pol, dvar)
            if k == ('weekday', True):
                seen.add('weekday')
                ctx.ob('C13-R6', sch, 'skip when the weekday is not an operating day', True, norm(t), line=node.lineno)
            else:
                ctx.ob('C13-R6', sch, f'dates filtered by {norm(t) if pol else "not (" + norm(t) + ")"}', False,
                       'the dates of the effective range are filtered before the per-day loop by a condition other than the '
                       'weekday being an operating day: an instance inside the effective range on an operating day is skipped '
                       'for another reason (only a non-operating weekday, or an arrival that precedes the departure, drops an '
                       'instance)' if k != ('weekday', False) else
                       'the filter on the dates keeps the days that are NOT operating days of the flight', line=node.lineno)
    warn_fi = wm.functions.get('WritableDatabase._warn')
    warns_all = [w for w in calls_in(sch.node) if (warn_fi is not None and resolve_call(prog, sch, w) == warn_fi or 'warn' in _tokens(call_name(w)))
                 and any(norm(a).endswith('TIME_MISORDERING') for a in list(w.args) + [k.value for k in w.keywords])]
    warns = [w for w in warns_all if is_within(w, loop)]
    drops = []
    for n in conts:
        ks = kinds(n)
        if isinstance(n, ast.Break):
            why = [k for k in ks if k[0] in (('weekday', False), ('misordered', True))]
            ctx.ob('C13-R6', sch, f'per-day loop left by `break` under {[(k[1], k[2]) for k in ks]}', False,
                   'the loop over the dates of the effective range is *ended* (`break`)' +
                   (f' at the first date that is {"not an operating day" if why[0][0][0] == "weekday" else "mis-ordered"}, where only '
                    'that one instance is to be skipped (`continue`)' if why else '') +
                   ': every later operating date of the row gets no instance (only a non-operating weekday, or an arrival that '
                   'precedes the departure, drops an instance - that instance, not the rest of the range)', line=n.lineno)
            if why:
                seen.add(why[0][0][0])
                if why[0][0][0] == 'misordered':
                    drops.append(n)
            continue
        # the instance is skipped for exactly one of the two reasons; what else the `continue` is nested in only says that
        # the instance was not (yet) to be skipped for the other one
        reasons = [k for k in ks if k[0] in (('weekday', False), ('misordered', True))]
        if len(reasons) != 1 or any(k[0] not in (('weekday', True), ('misordered', False)) for k in ks if k is not reasons[0]):
            ctx.ob('C13-R6', sch, f'instance skipped under {[(k[1], k[2]) for k in ks]}', False,
                   'an instance inside the effective range on an operating day is skipped for another reason '
                   '(only a non-operating weekday, or an arrival that precedes the departure, drops an instance)',
                   line=n.lineno)
            continue
        seen.add(reasons[0][0][0])
        if reasons[0][0][0] == 'weekday':
            ctx.ob('C13-R6', sch, 'skip when the weekday is not an operating day', True, reasons[0][1], line=n.lineno)
        else:
            drops.append(n)
    for a_ in apps:
        ks = kinds(a_)
        unknown = [k for k in ks if k[0] not in (('weekday', True), ('misordered', False))]
        for k in ks:
            if k[0] in (('weekday', True), ('misordered', False)):
                seen.add(k[0][0])
        ctx.ob('C13-R6', sch, 'every remaining date yields exactly one instance', len(apps) == 1 and not unknown,
               'appended whenever the day operates and the instants are in order' if len(apps) == 1 and not unknown else
               (f'append is conditional on {[(k[1], k[2]) for k in unknown]}' if unknown else 'append is duplicated'),
               line=a_.lineno)
    for what in ('weekday', 'misordered'):
        if what not in seen:
            ctx.ob('C13-R6', sch, f'{what} skip present', False, f'the {what} rule is gone or changed form',
                   line=sch.node.lineno)
    if 'misordered' in seen:
        good = [w for w in warns if ('misordered', True) in [k[0] for k in kinds(w)]
                and all(k[0] in (('misordered', True), ('weekday', True)) for k in kinds(w))]
        how = 'warning recorded on the branch that drops the instance'
        outside = [w for w in warns_all if not is_within(w, loop)]
        # a warning after the loop whose condition reads nothing the loop changes cannot tell whether an instance was dropped
        changed = {nm for t_, _, _ in stores_to(loop) for nm in names_in(t_)} | \
            {x.func.value.id for x in calls_in(loop) if isinstance(x.func, ast.Attribute) and isinstance(x.func.value, ast.Name)}
        outside = [w for w in outside if any(names_in(t_) & changed for t_, _, _ in guards_of(w))
                   or any(isinstance(a_, ast.For) and names_in(a_.iter) & changed for a_ in ancestors(w))]
        if not good and not drops:
            # no `continue`: the instance is appended on one branch of a test of the order, the other branch falls out
            for a_ in apps:
                for t_, pol_, owner in guards_of(a_, stop=loop):
                    if isinstance(owner, ast.If) and atom_kind(t_, pol_) == ('misordered', False):
                        other = owner.orelse if pol_ else owner.body
                        if other:
                            drops.append(other[-1])
        if not good and outside:
            # the branch only marks that it was taken; the warning (one per input line is kept anyway) is recorded after the loop
            later = [_deferred_report(sch.node, loop, n, outside, lambda t: atom_kind(t, True) == ('misordered', True),
                                      inclusive=not isinstance(n, (ast.Continue, ast.Break))) for n in drops]
            if later and all(w is not None for w in later):
                good = later
                how = 'the branch that drops the instance marks it, and the warning is recorded after the loop whenever the mark is set'
            else:
                ctx.undecided('C13-R6', sch, 'mis-ordered instance dropped only with a warning',
                              'a TIME_MISORDERING warning is recorded outside the per-day loop, but that it is recorded whenever '
                              'an instance was dropped is not decided (no mark that is falsy before the loop, set on the dropping '
                              'branch and tested alone right after the loop)')
        ctx.ob('C13-R6', sch, 'mis-ordered instance dropped only with a warning', bool(good),
               how if good else 'instance dropped silently', line=(good[0].lineno if good else loop.lineno))
    tm = prog.module('types/time.py')
    r = [n for n in walk_no_nested(from_pandas.node) if isinstance(n, ast.Return)]
    p = from_pandas.params[-1]
    members = {k: const_value(v) for k, v in tm.cls('DayOfWeek').class_assignments().items() if v is not None}
    numbering = [members.get(k) for k in ('MONDAY', 'TUESDAY', 'WEDNESDAY', 'THURSDAY', 'FRIDAY', 'SATURDAY', 'SUNDAY')] == list(range(1, 8))
    ok = len(r) == 1 and isinstance(r[0].value, ast.Call) and len(r[0].value.args) == 1 \
        and call_name(r[0].value) in ('cls', 'DayOfWeek') \
        and norm(_subst(from_pandas.node, r[0].value.args[0])) in (f'{p}.isoweekday()', f'{p}.weekday() + 1', f'{p}.dayofweek + 1')
    ctx.ob('C13-R6', from_pandas, 'weekday numbering Monday=1..Sunday=7 via isoweekday()', ok and numbering,
           'enum values agree with isoweekday' if ok and numbering else 'weekday numbering and conversion disagree')

    # ---- row decoding, evaluated -----------------------------------------------------------------------------------
    fr = om.func('CSVEntry.from_csv_row')
    ci = om.cls('CSVEntry')
    it = _Interp(prog)

    def decode(**over):
        it.steps = 0
        try:
            return it.call_fi(fr, [_ClassRef(ci), _row(**over), 7])
        except _Raised as r_:
            return f'raises {type(r_.exc).__name__}'

    def field(rec, name):
        if not isinstance(rec, _Rec):
            return ('<row not imported>' if rec is None else rec)
        if name not in rec.fields:
            raise _Undecidable(f'CSVEntry has no field {name}')
        return rec.fields[name]

    def show(v):
        if isinstance(v, (set, frozenset)):
            return '{' + ', '.join(sorted(show(x) for x in v)) + '}'
        if isinstance(v, _Rec):
            return v.cls + '(' + ', '.join(f'{k}={show(x)}' for k, x in v.fields.items()) + ')' if 'value' not in v.fields \
                else str(v.fields['value'])
        return repr(v)

    def table(title, rows_, good, bad_why):
        """rows_: [(overrides, field, expected-predicate, expected text)]"""
        bad = []
        try:
            for over, name, pred, exp in rows_:
                rec = decode(**over)
                got = field(rec, name)
                if not isinstance(rec, _Rec):
                    bad.append(f'a row with {over} is not imported at all (the conversion raises and the blanket `except` '
                               f'drops the row without a warning); it says {name}={exp}')
                elif not pred(got):
                    bad.append(f'{over} gives {name}={show(got)}, the row says {exp}')
        except _Undecidable as u:
            ctx.undecided('C13-R6', fr, title, f'row decoding is not evaluable: {u}')
        ctx.ob('C13-R6', fr, f'{title} ({len(rows_)} field values evaluated)', not bad, good if not bad else
               f'{bad_why}: ' + '; '.join(bad[:3]) + (f' (+{len(bad) - 3} more)' if len(bad) > 3 else ''))

    try:
        base = decode()
    except _Undecidable as u:
        ctx.undecided('C13-R6', fr, 'row decoding', f'not evaluable: {u}')
    ctx.ob('C13-R6', fr, 'a plain direct, operating, aircraft-flown row is imported', isinstance(base, _Rec),
           'from_csv_row yields an entry' if isinstance(base, _Rec) else
           f'from_csv_row yields {"no entry" if base is None else base} for a row none of the documented reasons applies to '
           '(an exception inside the conversion is swallowed by the blanket `except` and the row silently dropped)')
    if not isinstance(base, _Rec):
        return

    def dayset(S):
        return lambda v: isinstance(v, (set, frozenset)) and all(isinstance(x, _Rec) and x.cls == 'DayOfWeek' for x in v) \
            and {x.fields['value'] for x in v} == set(S)
    rows_ = []
    for n in range(8):
        for S in itertools.combinations(range(1, 8), n):
            for enc in (''.join(str(d) if d in S else ' ' for d in range(1, 8)), ''.join(str(d) for d in S)):
                rows_.append(({'days': enc}, 'days', dayset(S), '{' + ', '.join(map(str, S)) + '}'))
    table('operating days parsed as digits 1..7', rows_, 'every weekday set, positional and compact encoding',
          'operating-day parsing changed')
    arr = {'P': -1, ' ': 0, '': 0, '0': 0, '1': 1, '2': 2}
    table("arrival day offset: 'P' = -1, blank = 0, else the digit",
          [({'arrday': k}, 'arrday', (lambda w: lambda v: type(v) is int and v == w)(w), str(w)) for k, w in arr.items()],
          'P, blank, 0, 1, 2', 'arrival day offset decoding changed')
    dates = {'00000000': None, '99999999': None, '20190305': _dt.date(2019, 3, 5), '20191124': _dt.date(2019, 11, 24),
             '20200229': _dt.date(2020, 2, 29), '20181028': _dt.date(2018, 10, 28), '20191231': _dt.date(2019, 12, 31)}
    table('open-ended markers map to None; YYYYMMDD decoded',
          [({f: k}, f, (lambda w: lambda v: v == w and type(v) is type(w))(w), str(w)) for f in ('efffrom', 'effto') for k, w in dates.items()],
          'effective dates', 'effective-date decoding changed')

    def tod(h, m):
        return lambda v: isinstance(v, _Rec) and v.cls == 'TimeOfDay' and v.fields == {'hour': h, 'minute': m}
    times = {'0905': (9, 5), '1130': (11, 30), '0000': (0, 0), '2359': (23, 59), '1737': (17, 37), '0010': (0, 10)}
    table('HHMM local times decoded; departure/arrival keep their roles',
          [({f: k}, f, tod(*w), f'{w[0]:02d}:{w[1]:02d}') for f in ('deptim', 'arrtim') for k, w in times.items()] +
          [({}, 'depapt', lambda v: v == 'ATL', 'ATL'), ({}, 'arrapt', lambda v: v == 'LAX', 'LAX'),
           ({'fltno': ''}, 'fltno', lambda v: v == 0, '0'), ({'fltno': '0042'}, 'fltno', lambda v: v == 42, '42'),
           ({'fltno': '1621'}, 'fltno', lambda v: v == 1621, '1621')],
          'times, end points, flight number', 'row decoding changed')


class _Tok:
    """an opaque repository object handed to interpreted code (an airport record, a cursor): what is read from it
    is opaque too; nothing can be computed or decided from it"""
    def __init__(self, path):
        self.path = path

    def __repr__(self):
        return f'<{self.path}>'


_GEOD_OBJECT = _Tok('Geod')


class _DistInterp(_Interp):
    """the interpreter with the one library call the plausibility rule depends on replaced by a known answer:
    `<geod>.inv(lat/lon x 4)` returns (azimuth, azimuth, `metres`).  Statements evaluated for their effect only
    (recording a warning) are skipped when they cannot be interpreted: what is *returned* does not depend on them."""

    def __init__(self, prog, metres):
        super().__init__(prog)
        self.metres = metres
        self.geod_calls = 0

    def eval(self, e, fi, sc):
        if isinstance(e, ast.Attribute):
            v = self.eval(e.value, fi, sc)
            if isinstance(v, _Tok):
                return _Tok(f'{v.path}.{e.attr}')
        return super().eval(e, fi, sc)

    def eval_call(self, e, fi, sc):
        if call_name(e).split('.')[-1] == 'Geod':
            return _GEOD_OBJECT
        if isinstance(e.func, ast.Attribute) and e.func.attr == 'inv':
            try:
                recv = self.eval(e.func.value, fi, sc)
            except _Undecidable:
                # an object the interpreter does not have (an attribute of the database): a geodesic by its name
                t = e.func.value
                recv = _GEOD_OBJECT if 'geod' in (t.attr if isinstance(t, ast.Attribute) else t.id if isinstance(t, ast.Name) else '').lower() \
                    else None
            if recv is _GEOD_OBJECT:
                # four coordinate slots in degrees, however they are written: positional, `*pair`, or by slot name
                n = 0
                for a in e.args:
                    if isinstance(a, ast.Starred):
                        n += len(self.iterate(self.eval(a.value, fi, sc)))
                    else:
                        self.eval(a, fi, sc)
                        n += 1
                for k in e.keywords:
                    if k.arg not in GEOD_SIG['inv'][1]:
                        raise _Undecidable(f'inverse-geodesic call with `{k.arg}=`')
                    self.eval(k.value, fi, sc)
                    n += 1
                if n != 4:
                    raise _Undecidable(f'inverse-geodesic call with {n} coordinate arguments')
                self.geod_calls += 1
                return (47.0, -131.0, self.metres)     # forward / back azimuth [deg], distance [m]
        return super().eval_call(e, fi, sc)

    def exec(self, st, fi, sc):
        if isinstance(st, ast.Expr):
            try:
                return super().exec(st, fi, sc)
            except _Undecidable:
                return None
        return super().exec(st, fi, sc)


def _calls_reaching(prog, root, target, depth: int = 3):
    """[(function, call, env)]: the calls of `target` written in `root` or in a repository function `root` calls (up to
    `depth` levels; the helpers `root` hands its values to), env: parameter of that function -> the expression `root`
    passed for it (locals of the frames in between replaced by their single definitions)"""
    out, seen = [], set()

    def visit(fi, env, d):
        if id(fi) in seen:
            return
        seen.add(id(fi))
        for c in calls_in(fi.node):
            try:
                callee = resolve_call(prog, fi, c)
            except Exception:
                callee = None
            if callee is None:
                continue
            if callee == target:
                out.append((fi, c, env))
            elif d < depth and getattr(callee, 'node', None) is not None and callee.module is not None \
                    and not any(isinstance(x, ast.Starred) for x in c.args) and not any(k.arg is None for k in c.keywords):
                cenv = {p_: _param_subst(_subst(fi.node, a_), env) for p_, a_ in _arg_map(callee, c).items()}
                visit(callee, cenv, d + 1)

    visit(root, {}, 0)
    return out


def _rule_r7(ctx, prog, add, dck):
    """the plausibility rule, decided by running _distance_check (the checker's interpreter, geodesic answer given)
    over a grid that has a point in every region of: geodesic distance against the zero threshold, stated distance
    against 0, absolute difference against its threshold, relative difference against its threshold — with the
    documented thresholds (the defaults) and with a second set passed explicitly"""
    given = next((p for p in dck.params if {'given', 'distance'} <= _tokens(p) or {'stated', 'distance'} <= _tokens(p)), None)
    kinds = {}
    for p in dck.params:
        t = _tokens(p)
        if 'threshold' in t:
            k = 'zero' if 'zero' in t else 'abs' if ('abs' in t or 'absolute' in t) else 'rel' if (t & {'percent', 'relative', 'rel', 'pct'}) else None
            if k:
                kinds[k] = p
    if given is None or set(kinds) != {'zero', 'abs', 'rel'} or dck.cls is None:
        ctx.undecided('C13-R7', dck, 'plausibility rule', 'stated-distance / threshold parameters not recognised')
    recv = _Rec(dck.cls.name, {}, dck.cls)
    others = [p for p in dck.params[1:] if p != given and p not in kinds.values()]
    bad = None
    n = 0
    try:
        for explicit in (None, {'zero': 3.0, 'abs': 60.0, 'rel': 20.0}):
            Z, A, P = (1.0, 50.0, 10.0) if explicit is None else (explicit['zero'], explicit['abs'], explicit['rel'])
            for G in (0.5, 0.99, 1.01, 2.0, 100.0, 400.0, 1000.0, 4096.0):
                for delta in (0.0, 8.0, 25.0, 49.0, 51.0, 64.0, 99.0, 101.0, 128.0, 512.0, 2048.0):
                    for D in {G + delta, G - delta, 0.0}:
                        want = not (G < Z or (D > 0 and abs(D - G) > A and 100 * abs(D - G) / G > P))
                        it = _DistInterp(prog, G * 1000.0)
                        kw = {p_: _Tok(p_) for p_ in others}
                        kw[given] = D
                        if explicit is not None:
                            kw.update({kinds[k]: v for k, v in explicit.items()})
                        got = it.call_fn(_Fn(dck, dck.node, []), [recv], kw)
                        n += 1
                        if it.geod_calls != 1 or not isinstance(got, bool):
                            raise _Undecidable(f'{it.geod_calls} inverse-geodesic calls, result {got!r}')
                        if got != want and (bad is None or (bad[0] and not want)):
                            bad = (want, G, D, (Z, A, P), explicit is not None)
    except (_Undecidable, _Raised) as ex:
        ctx.undecided('C13-R7', dck, 'plausibility rule', f'cannot run _distance_check on the case grid: {ex}')
    ctx.floor('C13-R7', n, 100, 'cases of the plausibility rule evaluated')
    ok = bad is None
    why = (f'in all {n} cases (documented and explicit thresholds): dropped iff the geodesic distance is below the zero threshold, or the '
           'stated distance is > 0 and |stated - geodesic| > abs threshold and 100*|…|/geodesic > percent threshold')
    if bad is not None:
        want, G, D, (Z, A, P), expl = bad
        why = (f'plausibility rule changed: geodesic {G:g} km, stated {D:g} km, thresholds zero {Z:g} km / abs {A:g} km / rel {P:g} %'
               f'{" (passed explicitly)" if expl else ""}: |diff| = {abs(D - G):g} km = {100 * abs(D - G) / G:.3g} % — the documented rule '
               + ('keeps the row, the code drops it (a plausible row is dropped)' if want else
                  'drops the row as implausible, the code imports it'))
    rejs = [n_ for n_ in walk_no_nested(dck.node) if isinstance(n_, ast.Return) and isinstance(n_.value, ast.Constant) and n_.value.value is False]
    ctx.ob('C13-R7', dck, 'dropped only if absolute AND relative difference exceed their thresholds', ok, why,
           line=(rejs[-1].lineno if rejs else dck.node.lineno))
    a = dck.node.args
    dflt = {x.arg: const_value(d) for x, d in zip((a.posonlyargs + a.args)[-len(a.defaults):], a.defaults)} if a.defaults else {}
    dflt.update({x.arg: const_value(d) for x, d in zip(a.kwonlyargs, a.kw_defaults) if d is not None})
    ok = dflt == {'zero_distance_threshold_km': 1.0, 'abs_difference_threshold_km': 50.0,
                  'relative_difference_threshold_percent': 10.0}
    ctx.ob('C13-R7', dck, f'thresholds {dflt}', ok, '±10 %, ignoring < 50 km' if ok else 'documented thresholds changed',
           nontrivial=False)
    dc = _calls_reaching(prog, add, dck)
    ok = False
    if dc and given is not None:
        site, call0, penv = dc[0]
        dc = [call0]
        arg = _arg_map(dck, dc[0]).get(given)
        if arg is not None:
            fa = _param_subst(_subst(site.node, arg), penv)
            # by value: <the row's distance> x 1.609344 (the statute mile in km), however the factor is named or written
            try:
                from ..algebra import AlgebraError, normal_form
                from .c12 import visible_constants
                nf = normal_form(fa, {}, visible_constants(prog, add.module))
                monos = list(nf.num.items())
                ok = nf.den == {(): 1} and len(monos) == 1 and monos[0][1] == Fraction('1.609344') and len(monos[0][0]) == 1 \
                    and monos[0][0][0][1] == 1 and 'distance' in _tokens(monos[0][0][0][0])
            except AlgebraError:
                ok = False
            thr = [p for p in _arg_map(dck, dc[0]) if 'threshold' in _tokens(p)]
            ok = bool(ok) and not thr
    ctx.ob('C13-R7', add, 'stated distance converted from statute miles to km', bool(ok),
           'distance * STATUTE_MILES_TO_KM, documented thresholds' if ok else
           'stated distance is compared in the wrong unit (or with other thresholds)')


def _rule_r8(ctx, prog):
    # every airport the shipped data names is known to the importer (a row is skipped as "unknown airport" only when the
    # data really lack that code: the reader admits every row that carries an IATA code — the historical airports of the
    # patch file are records of type `closed`)
    am = prog.module('utils/airports.py')
    rf = am.func('AirportsData._read_file')
    comps = [x for x in ast.walk(rf.node) if isinstance(x, (ast.DictComp, ast.ListComp, ast.GeneratorExp))
             and any(norm(g.iter) == 'reader' for g in x.generators)]
    loops = [x for x in ast.walk(rf.node) if isinstance(x, ast.For) and norm(x.iter) == 'reader']
    ctx.floor('C13-R8', len(comps) + len(loops), 1, 'row loops in AirportsData._read_file')
    for x in comps:
        ifs = [norm(i) for g in x.generators for i in g.ifs]
        ok = ifs == ["row['iata_code']"]
        ctx.ob('C13-R8', rf, f'airport rows kept when {ifs}', ok, 'every row with an IATA code is read' if ok else
               ('rows with an IATA code are filtered out of the airport table: schedule rows touching those airports '
                '(the patch file\'s historical airports are of type `closed`) are dropped as "unknown airport" although the '
                'shipped data name them'), line=x.lineno)
    for lp in loops:
        esc = [y for y in ast.walk(lp) if isinstance(y, ast.Continue)]
        conds = [norm(t) for y in esc for t, pol, o in guards_of(y) if any(a is lp for a in ancestors_(o))]
        ok = all('iata_code' in c_ and 'type' not in c_ for c_ in conds)
        ctx.ob('C13-R8', rf, f'airport rows skipped when {conds}', ok, 'only rows without an IATA code are skipped' if ok else
               'rows with an IATA code are skipped', line=lp.lineno)


# ----------------------------------------------------------------------------------------------------
# the writers as one function each: generators consumed in place, state objects dissolved
# ----------------------------------------------------------------------------------------------------

def _derived_state(ci):
    """`__post_init__` of a dataclass that only derives further attributes from the fields - every statement is
    `self.<d> = <expression>` with d not a field, stored once and nowhere else in the class - -> {d: expression over
    `self`}; {} without a `__post_init__`; None when it does anything else"""
    pi = ci.methods.get('__post_init__')
    if pi is None:
        return {}
    a = pi.node.args
    if len(a.args) != 1 or a.vararg or a.kwarg or a.kwonlyargs or a.posonlyargs:
        return None
    me, fields, out = a.args[0].arg, set(ci.annotated_fields()), {}
    for st in real_body_(pi.node.body):
        if not (isinstance(st, ast.Assign) and len(st.targets) == 1 and isinstance(st.targets[0], ast.Attribute)
                and isinstance(st.targets[0].value, ast.Name) and st.targets[0].value.id == me):
            return None
        d = st.targets[0].attr
        if d in fields or d in out or any(isinstance(x, (ast.NamedExpr, ast.Await, ast.Yield, ast.Lambda)) for x in ast.walk(st.value)):
            return None
        out[d] = st.value
    for x in ast.walk(ci.node):
        if isinstance(x, ast.Attribute) and isinstance(x.ctx, (ast.Store, ast.Del)) and x.attr in out and not is_within(x, pi.node):
            return None
    return out


def real_body_(body):
    return [s_ for s_ in body if not (isinstance(s_, ast.Expr) and isinstance(s_.value, ast.Constant)) and not isinstance(s_, ast.Pass)]


def _is_record_class(ci, derived: bool = False) -> bool:
    """a @dataclass / NamedTuple of the program whose construction only stores its arguments (no __init__ / __post_init__ /
    __new__, no field(default_factory=...) defaults, no bases of the program)"""
    if ci is None or ci.bases:
        return False
    deco = [d.split('(')[0].split('.')[-1] for d in ci.decorators()] if hasattr(ci, 'decorators') else \
        [norm(d).split('(')[0].split('.')[-1] for d in ci.node.decorator_list]
    named = any(b.split('.')[-1] == 'NamedTuple' for b in ci.base_exprs)
    if not (deco == ['dataclass'] and not ci.base_exprs or named and not deco):
        return False
    if any(m in ci.methods for m in ('__init__', '__new__', '__setattr__', '__getattr__', '__getattribute__')):
        return False
    if '__post_init__' in ci.methods and not (derived and not named and _derived_state(ci)):
        return False
    for s_ in ci.node.body:
        if isinstance(s_, ast.AnnAssign) and s_.value is not None and isinstance(s_.value, ast.Call):
            return False
        if isinstance(s_, ast.Assign):
            return False
    return bool(ci.annotated_fields())


def _record_arguments(ci, c: ast.Call):
    """field -> argument expression of a construction `K(...)` of a record class, in field order; None when not explicit"""
    fields = list(ci.annotated_fields())
    if any(isinstance(a, ast.Starred) for a in c.args) or any(k.arg is None for k in c.keywords) or len(c.args) > len(fields):
        return None
    out = dict(zip(fields, c.args))
    for k in c.keywords:
        if k.arg in out or k.arg not in fields:
            return None
        out[k.arg] = k.value
    dflt = ci.class_assignments()
    for f in fields:
        if f not in out:
            if dflt.get(f) is None:
                return None
            out[f] = dflt[f]
    return {f: out[f] for f in fields}


def _dissolve_record_parameters(prog, fi) -> list[str]:
    """A parameter of `fi` that is a record object of the program (annotated with a @dataclass / NamedTuple class that
    only stores its constructor arguments), of which `fi` reads fields and nothing else, and for which every call of `fi`
    in the program passes a construction `K(...)` - written at the call or held by a local bound once to it and used for
    nothing else - is one parameter per field: `p.f` reads the parameter `f`, the calls pass the constructor's arguments
    (effect-free expressions) in field order.  Changes `fi` and its callers in place; all-or-nothing per parameter.
    -> the parameters dissolved"""
    from ..resolve import _ann_class, callers_of, resolve_class_call
    done = []
    for arg in list(fi.node.args.args):
        ci = _ann_class(prog, fi.module, arg.annotation) if arg.annotation is not None else None
        if not _is_record_class(ci, derived=True):
            continue
        p = arg.arg
        fields = list(ci.annotated_fields())
        # attributes the object derives from its fields when it is built (`__post_init__`: self.d = <expression>) are
        # that expression of the fields wherever they are read
        state = _derived_state(ci) or {}
        for _ in range(4):
            reads = [x for x in ast.walk(fi.node) if isinstance(x, ast.Attribute) and isinstance(x.ctx, ast.Load)
                     and isinstance(x.value, ast.Name) and x.value.id == p and x.attr in state]
            if not reads:
                break
            me = ci.methods['__post_init__'].node.args.args[0].arg
            for x in reads:
                new = _clone(state[x.attr])
                for n_ in ast.walk(new):
                    if isinstance(n_, ast.Name) and n_.id == me:
                        n_.id = p
                new = ast.copy_location(new, x)
                pa = parent(x)
                for f_, val in ast.iter_fields(pa):
                    if val is x:
                        setattr(pa, f_, new)
                    elif isinstance(val, list):
                        for j, e_ in enumerate(val):
                            if e_ is x:
                                val[j] = new
            ast.fix_missing_locations(fi.node)
            set_parents(fi.node)
        uses = [x for x in ast.walk(fi.node) if isinstance(x, ast.Name) and x.id == p]
        if not uses or any(not (isinstance(parent(x), ast.Attribute) and parent(x).value is x and isinstance(parent(x).ctx, ast.Load)
                                and parent(x).attr in fields and isinstance(x.ctx, ast.Load)) for x in uses):
            continue
        taken = {x.id for x in ast.walk(fi.node) if isinstance(x, ast.Name)} | {a.arg for a in ast.walk(fi.node) if isinstance(a, ast.arg)}
        if any(f in taken for f in fields):
            continue
        sites = callers_of(prog, fi)
        plans = []
        for caller, c in sites:
            if any(isinstance(a, ast.Starred) for a in c.args) or any(k.arg is None for k in c.keywords):
                plans = None
                break
            pos = [a.arg for a in fi.node.args.args]
            off = 1 if fi.cls is not None and pos and pos[0] in ('self', 'cls') and isinstance(c.func, ast.Attribute) else 0
            idx = pos.index(p) - off
            kw = next((k for k in c.keywords if k.arg == p), None)
            val = c.args[idx] if 0 <= idx < len(c.args) else (kw.value if kw is not None else None)
            drop = None
            if isinstance(val, ast.Name):
                d = single_def_value(caller.node, val.id)
                reads = [x for x in ast.walk(caller.node) if isinstance(x, ast.Name) and x.id == val.id and isinstance(x.ctx, ast.Load)]
                if d is None or len(reads) != 1 or val.id in caller.params:
                    plans = None
                    break
                drop, val = stmt_of(d), d
            if not isinstance(val, ast.Call) or resolve_class_call(prog, caller, val) is not ci:
                plans = None
                break
            amap = _record_arguments(ci, val)
            if amap is None or any(isinstance(x, (ast.Call, ast.Await, ast.Yield, ast.NamedExpr)) for v in amap.values() for x in ast.walk(v)):
                plans = None
                break
            if drop is not None:
                # the arguments mean at the call what they meant at the construction
                between = {t_.id for t_, st, _ in stores_to(caller.node) if isinstance(t_, ast.Name)
                           and drop.lineno < st.lineno <= c.lineno}
                if any(n_ in between for v in amap.values() for n_ in names_in(v)):
                    plans = None
                    break
            plans.append((caller, c, idx, kw, amap, drop))
        if not plans:
            continue
        for caller, c, idx, kw, amap, drop in plans:
            vals = [amap[f] for f in fields]
            if kw is None:
                c.args[idx:idx + 1] = vals
            else:
                i = c.keywords.index(kw)
                c.keywords[i:i + 1] = [ast.keyword(arg=f, value=v) for f, v in zip(fields, vals)]
            if drop is not None:
                lst, _ = _stmt_list_of(drop)
                if lst is not None:
                    lst[:] = [x for x in lst if x is not drop] or [ast.copy_location(ast.Pass(), drop)]
            ast.fix_missing_locations(caller.node)
            set_parents(caller.node)
        ann = ci.annotated_fields()
        i = fi.node.args.args.index(arg)
        fi.node.args.args[i:i + 1] = [ast.copy_location(ast.arg(arg=f, annotation=ann[f]), arg) for f in fields]
        nd = len(fi.node.args.defaults)
        if nd and i >= len(fi.node.args.args) - len(fields) + 1 - nd:
            pass  # a defaulted record parameter is never dissolved: it has a construction at every call (checked above)
        for x in uses:
            a_ = parent(x)
            new = ast.copy_location(ast.Name(id=a_.attr, ctx=ast.Load()), a_)
            pa = parent(a_)
            for f_, val in ast.iter_fields(pa):
                if val is a_:
                    setattr(pa, f_, new)
                elif isinstance(val, list):
                    for j, e_ in enumerate(val):
                        if e_ is a_:
                            val[j] = new
        ast.fix_missing_locations(fi.node)
        set_parents(fi.node)
        done.append(p)
    return done


def _writers_as_written_once(prog, fns) -> list[str]:
    """The rules below read each writer as *one function over its parameters*.  A pull request that gathers the values of
    a flight's operating pattern in a state object (a dataclass built by the importer and handed to the writer) and turns
    the writer's loop into a generator method of that object computes the same thing in three places; this puts it back
    into one: a generator of the writer's own module consumed by one `for` loop of the writer - or drained on the spot
    into a list (`list(g(..))`, `[*g(..)]`, `.extend(g(..))`: astutil.drains_as_loops writes the loop) - runs in the
    place of that loop (astutil.splice_generator_loops), and a record parameter that is only read by field is one parameter per field
    (`_dissolve_record_parameters`).  Nothing is assumed about what the pieces are called; what cannot be put back
    faithfully is left as it is (and the rules then say what they cannot follow)."""
    notes = []
    for fi in fns:
        def resolve(call, fi=fi):
            try:
                r = resolve_call(prog, fi, call)
            except Exception:
                return None
            if r is None or r.module is not fi.module or r == fi:
                return None
            deco = [norm(d) for d in r.node.decorator_list]
            if deco not in ([], ['staticmethod']):
                return None
            recv = None
            if r.cls is not None and not deco:
                if not isinstance(call.func, ast.Attribute) or not isinstance(call.func.value, ast.Name):
                    return None
                recv = call.func.value
            node = r.node
            if not any(isinstance(x, ast.Yield) for x in walk_no_nested(node)):
                # a function that returns the list of what it appends is, for the loop that consumes it, its generator
                node = accumulator_as_generator(node)
                if node is None:
                    return None
            return node, r.qualname, recv
        drains_as_loops(fi.node, resolve)
        for tag in splice_generator_loops(fi.node, resolve):
            notes.append(f'{fi.qualname}: generator {tag} consumed in place')
        fold_drained_appends(fi.node)
        for p in _dissolve_record_parameters(prog, fi):
            notes.append(f'{fi.qualname}: record parameter {p} dissolved')
    return notes


def run(ctx):
    prog = ctx.prog
    om = prog.module(OAG)
    wm = prog.module(WDB)
    add = om.func('OAGDatabase.add')
    sch = wm.func('WritableDatabase._add_schedule')
    flt = wm.func('WritableDatabase._add_flight')
    dck = wm.func('WritableDatabase._distance_check')
    _writers_as_written_once(prog, [sch, flt])
    _RECORDS.clear()
    seen_names: dict[str, int] = {}
    for m in prog.modules.values():
        for ci in m.classes.values():
            seen_names[ci.name.split('.')[-1]] = seen_names.get(ci.name.split('.')[-1], 0) + 1
    for m in prog.modules.values():
        for ci in m.classes.values():
            if seen_names[ci.name.split('.')[-1]] == 1 and _is_record_class(ci):
                _RECORDS[ci.name.split('.')[-1]] = list(ci.annotated_fields())
    _rule_r1(ctx, prog, dck)
    _rule_r2(ctx, prog, add, flt, sch)
    _rule_r3(ctx, prog, add, flt, sch)
    _rule_r4(ctx, prog, wm, add, flt, sch)
    _rule_r5(ctx, prog, om, add)
    _rule_r6(ctx, prog, om, wm, sch)
    _rule_r7(ctx, prog, add, dck)
    _rule_r8(ctx, prog)
    ctx.assumptions += ['time-zone arithmetic (zoneinfo, DST) and pandas date_range semantics are trusted',
                        'identifier names carry their role',
                        'row decoding is decided on the documented field values (all weekday sets; arrival-day codes P/blank/0-2; '
                        'the two open-ended markers and a table of dates and times), by the checker\'s own evaluator of the '
                        'extracted functions']
