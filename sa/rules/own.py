"""T-OWN — a function must not write into objects its caller still owns.

Alias set of a function: its parameters (not self/cls) and every local bound to
a *view* of an alias: plain rebinding, `np.asarray / asanyarray / atleast_1d /
ravel / squeeze / reshape / view / .T`, basic slicing `a[i:j]`, tuple / list
elements and loop targets over lists of aliases.  `.copy()`, `np.array(...)`,
`astype`, arithmetic and fancy indexing produce fresh objects and end the chain.

A store `alias[...] = …`, `alias[...] op= …`, `alias.attr = …`, or an in-place
method (`fill`, `sort`, `resize`, …) on an alias changes the caller's object.

Whose object it is, is decided over the resolved call graph: the parameters of a
public function belong to its caller; a parameter of a private helper (`_name`)
belongs to a caller only if some call site hands it (a view of) a parameter that
itself belongs to a caller.  A private helper that zeroes an array its caller
has just built writes into nobody else's data.
"""

from __future__ import annotations

import ast

from ..astutil import call_name, norm, walk_no_nested

VIEW_FUNCS = {'np.asarray', 'np.asanyarray', 'np.atleast_1d', 'np.atleast_2d', 'np.ravel', 'np.squeeze', 'np.reshape',
              'np.ascontiguousarray', 'np.transpose', 'np.broadcast_to', 'numpy.asarray', 'np.ma.asarray'}
VIEW_METHODS = {'reshape', 'view', 'ravel', 'squeeze', 'transpose', 'swapaxes'}
INPLACE = {'fill', 'sort', 'resize', 'itemset', 'put', 'partition', 'update', 'append', 'extend', 'clear', 'pop', 'setdefault',
           'insert', 'remove', 'add', 'discard', 'popitem', 'reverse'}


def _is_basic_index(sl) -> bool:
    if isinstance(sl, ast.Slice):
        return True
    if isinstance(sl, ast.Tuple):
        return all(isinstance(e, ast.Slice) or (isinstance(e, ast.Constant) and (e.value is Ellipsis or e.value is None))
                   for e in sl.elts) and any(isinstance(e, ast.Slice) for e in sl.elts)
    return False


def alias_of(e, aliases) -> str | None:
    """the alias root e is a view of, or None when e is a fresh object / unknown"""
    if isinstance(e, ast.Name):
        return aliases.get(e.id)
    if isinstance(e, ast.Attribute) and e.attr == 'T':
        return alias_of(e.value, aliases)
    if isinstance(e, ast.Subscript) and _is_basic_index(e.slice):
        return alias_of(e.value, aliases)
    if isinstance(e, ast.Call):
        cn = call_name(e)
        if cn in VIEW_FUNCS and e.args:
            cp = next((k for k in e.keywords if k.arg == 'copy'), None)
            if cp is not None and isinstance(cp.value, ast.Constant) and cp.value.value is True:
                return None
            return alias_of(e.args[0], aliases)
        if isinstance(e.func, ast.Attribute) and e.func.attr in VIEW_METHODS:
            return alias_of(e.func.value, aliases)
        if isinstance(e.func, ast.Attribute) and e.func.attr == 'astype':
            cp = next((k for k in e.keywords if k.arg == 'copy'), None)
            if cp is not None and isinstance(cp.value, ast.Constant) and cp.value.value is False:
                return alias_of(e.func.value, aliases)
    if isinstance(e, ast.IfExp):
        return alias_of(e.body, aliases) or alias_of(e.orelse, aliases)
    return None


def _elements(e, aliases, lists):
    """alias roots among the elements of a list-like expression"""
    out = set()
    if isinstance(e, ast.Name) and e.id in lists:
        return set(lists[e.id])
    if isinstance(e, ast.Name) and aliases.get(e.id) == e.id:
        # iterating a parameter: its elements are the caller's objects too
        return {e.id}
    if isinstance(e, ast.Call) and isinstance(e.func, ast.Attribute) and e.func.attr in ('values', 'items') \
            and isinstance(e.func.value, ast.Name) and aliases.get(e.func.value.id) == e.func.value.id:
        return {e.func.value.id}
    if isinstance(e, (ast.List, ast.Tuple)):
        for x in e.elts:
            r = alias_of(x, aliases)
            if r:
                out.add(r)
    if isinstance(e, (ast.ListComp, ast.GeneratorExp)):
        # [f(v) for v in <aliases>]: element is an alias if elt is a view of the comprehension variable bound to one
        inner = dict(aliases)
        for g in e.generators:
            src = _elements(g.iter, inner, lists)
            if isinstance(g.target, ast.Name) and src:
                inner[g.target.id] = sorted(src)[0]
        r = alias_of(e.elt, inner)
        if r:
            out.add(r)
    if isinstance(e, ast.Call) and call_name(e) in ('zip', 'enumerate', 'list', 'tuple', 'reversed'):
        for a in e.args:
            out |= _elements(a, aliases, lists)
    return out


def param_writes(fi, skip_params=()):
    """[(node, alias root, description)] for every write through an alias of a parameter"""
    fn = fi.node
    aliases = {p: p for p in fi.params if p not in ('self', 'cls') and p not in skip_params}
    lists: dict[str, set] = {}
    # list-typed parameters hand out their elements
    changed = True
    rounds = 0
    while changed and rounds < 6:
        changed = False
        rounds += 1
        for n in walk_no_nested(fn):
            if isinstance(n, ast.Assign) and len(n.targets) == 1:
                t = n.targets[0]
                if isinstance(t, ast.Name):
                    r = alias_of(n.value, aliases)
                    if r and aliases.get(t.id) != r and t.id not in fi.params:
                        aliases[t.id] = r
                        changed = True
                    els = _elements(n.value, aliases, lists)
                    if els and lists.get(t.id) != els:
                        lists[t.id] = els
                        changed = True
                elif isinstance(t, ast.Tuple) and isinstance(n.value, ast.Tuple) and len(t.elts) == len(n.value.elts):
                    for a, b in zip(t.elts, n.value.elts):
                        r = alias_of(b, aliases)
                        if isinstance(a, ast.Name) and r and aliases.get(a.id) != r and a.id not in fi.params:
                            aliases[a.id] = r
                            changed = True
            if isinstance(n, (ast.For, ast.comprehension)):
                els = _elements(n.iter, aliases, lists)
                # also: iterating a parameter that is a list of arrays is not tracked (unknown element type)
                tg = n.target
                names = [tg] if isinstance(tg, ast.Name) else [x for x in ast.walk(tg) if isinstance(x, ast.Name)]
                if els:
                    for x in names:
                        if x.id not in aliases:
                            aliases[x.id] = sorted(els)[0]
                            changed = True
    out = []
    for n in walk_no_nested(fn):
        if isinstance(n, (ast.Subscript, ast.Attribute)) and isinstance(n.ctx, (ast.Store, ast.Del)):
            b = n.value
            r = alias_of(b, aliases) if not isinstance(b, ast.Name) else aliases.get(b.id)
            if r:
                out.append((n, r, f'store into `{norm(n)[:50]}`'))
        if isinstance(n, ast.Call) and isinstance(n.func, ast.Attribute) and n.func.attr in INPLACE:
            r = alias_of(n.func.value, aliases)
            if r:
                out.append((n, r, f'`{norm(n)[:50]}`'))
        if isinstance(n, ast.AugAssign) and isinstance(n.target, ast.Name) and n.target.id in aliases \
                and n.target.id not in fi.params:
            # in place for arrays when the local is a *view* (asarray / slice) of the parameter
            out.append((n, aliases[n.target.id], f'in-place `{norm(n)[:50]}` on a view'))
    return out, aliases


# property -> (module path fragments, consequence)
SCOPES = {
    'C01': (('/emissions/',), 'The caller\'s fuel-flow / index arrays are changed, so the next component computed from them (and the '
            'fuel totals) no longer belong to the same flight.'),
    'C04': (('/gridding/',), 'The per-segment amounts handed in are changed: the gridded total no longer equals the trajectory total the '
            'caller holds, and gridding the same arrays again gives a different total.'),
    'C05': (('/gridding/',), 'The way-points handed in are changed, so later segments are attributed from altered coordinates.'),
    'C06': (('/performance/',), 'The caller\'s state object is rewritten: a symbolic mass resolved against one table is then used '
            'as a number against the next.'),
    'C11': (('/emissions/',), 'Inputs shared between the enabled methods are changed by one of them.'),
    'C12': (('/emissions/', '/utils/standard_atmosphere.py', '/performance/types.py'), 'The fuel-flow array is shared by the EI '
            'routines: the next one (HC, CO, thrust category) is evaluated at the altered flows.'),
    'C13': (('/missions/', '/utils/airports.py'), 'Rows or lookup tables handed in are altered for the following rows.'),
    'C14': (('/missions/',), 'A filter or query object is altered by being used.'),
    'C15': (('/trajectories/ground_track.py',), 'The way-points of the caller are altered.'),
    'C16': (('/weather.py', '/utils/standard_atmosphere.py'), 'The caller\'s altitude / position data are altered.'),
    'C19': (('/BADA/',), 'Profile arrays passed in are altered, so the next evaluation sees other conditions.'),
}
# documented in/out parameters: (function qualname, parameter) -> reason
ALLOWED = {
    ('BaseFuelBurnModel.update_mass_vector', 'mass'): 'the mass vector is the documented in/out argument of the mass update',
    ('BaseFuelBurnModel.update_mass_vector_backward', 'mass'): 'the mass vector is the documented in/out argument of the mass update',
}


def _mutable_display(v) -> bool:
    return isinstance(v, (ast.Dict, ast.List, ast.Set, ast.ListComp, ast.DictComp, ast.SetComp)) or \
        (isinstance(v, ast.Call) and call_name(v) in ('dict', 'list', 'set', 'defaultdict', 'OrderedDict', 'collections.defaultdict',
                                                      'collections.OrderedDict', 'deque', 'collections.deque'))


def run_shared(ctx):
    """O2: a mutable object created in a class body exists once per process.  Writing into it through `self`
    (`self.X[k] = v`, `self.X.add(v)`, …) without an instance-level `self.X = …` in `__init__` makes every instance
    see what the others stored.  (pydantic models copy their defaults per instance and are exempt.)"""
    from .memo import SCOPES as MS
    scope, consequence = MS[ctx.prop]
    rule = f'{ctx.prop}-O2'
    src = ast.parse("class K:\n    cache = {}\n    def put(self, k, v):\n        self.cache[k] = v\n").body[0]
    ctl = [n for n in ast.walk(src) if isinstance(n, ast.Subscript) and isinstance(n.ctx, ast.Store) and norm(n.value) == 'self.cache']
    ctx.control(rule, _mutable_display(src.body[0].value) and len(ctl) == 1, 'embedded class-level dict written through self is recognised')
    n = 0
    for m in ctx.prog.src_modules():
        if not any(sf in m.relpath for sf in scope):
            continue
        for c in m.classes.values():
            if any(k.name in ('BaseModel', 'CIBaseModel') or 'BaseModel' in ' '.join(k.base_exprs) for k in c.mro()):
                continue
            for name, v in c.class_assignments().items():
                if v is None or not _mutable_display(v):
                    continue
                n += 1
                inst = False
                for k in c.mro():
                    ini = k.methods.get('__init__')
                    if ini is not None and any(isinstance(t, ast.Attribute) and norm(t) == f'self.{name}' and how == 'assign'
                                               for t, st, how in _stores(ini.node)):
                        inst = True
                writes = []
                for sub in [c] + [k for k in ctx.prog.all_classes() if c in k.mro() and k is not c]:
                    for meth in sub.methods.values():
                        for x in walk_no_nested(meth.node):
                            if isinstance(x, (ast.Subscript, ast.Attribute)) and isinstance(x.ctx, (ast.Store, ast.Del)) \
                                    and norm(x.value) == f'self.{name}':
                                writes.append((meth, x, f'`{norm(x)[:40]} = …`'))
                            if isinstance(x, ast.Call) and isinstance(x.func, ast.Attribute) and x.func.attr in INPLACE \
                                    and norm(x.func.value) == f'self.{name}':
                                writes.append((meth, x, f'`{norm(x)[:40]}`'))
                            # `self.name += [...]` on a list / set / dict changes the shared object in place (and then
                            # binds the same object on the instance)
                            if isinstance(x, ast.AugAssign) and isinstance(x.target, ast.Attribute) \
                                    and norm(x.target) == f'self.{name}' and meth.name not in ('__init__', '__post_init__'):
                                writes.append((meth, x, f'`{norm(x)[:40]}`'))
                ok = inst or not writes
                ctx.ob(rule, (c.file, c.name), f'class-level {c.name}.{name} = {norm(v)[:30]}', ok,
                       ('rebound per instance in __init__' if inst else 'never written through an instance') if ok else
                       (f'{writes[0][2]} in {writes[0][0].qualname} (line {writes[0][1].lineno}) writes into the one object shared '
                        f'by every {c.name} of the process: what one instance stores is seen by the next. {consequence}'),
                       line=(writes[0][1].lineno if writes else c.node.lineno))
    ctx.ob(rule, ('src/AEIC', '<scope>'), f'{n} class-level mutable attribute(s) in scope', True, 'each examined above', nontrivial=False)


def _stores(fn):
    from ..astutil import stores_to
    return stores_to(fn)


def _private(fi) -> bool:
    n = fi.name
    return n.startswith('_') and not (n.startswith('__') and n.endswith('__'))


def _new_function(fi) -> bool:
    """a function the reference tree does not have (a helper a refactoring introduced, whatever its name): nobody
    outside the program can call it yet, so what its parameters hold is what the program's call sites hand over"""
    try:
        from .. import alpha
        R = alpha._load_ref()
    except Exception:
        return False
    funcs = R.get('__funcs__')
    if not funcs:
        return False
    rel = fi.module.relpath
    if not rel.startswith('src/'):
        return False
    known = funcs.get(rel)
    q = fi.qualname
    if known is not None and q in known:
        return False
    # a function that moved (pass M) is known under its reference name
    if (rel, q) in getattr(alpha, '_MOVED_INV', {}):
        return False
    return True


def _call_sites(ctx):
    """(file, qualname) of callee -> [(caller FunctionInfo, call node)] over the resolved program, once per run"""
    cache = getattr(ctx.prog, '_own_call_sites', None)
    if cache is None:
        from ..resolve import callees
        cache = {}
        for f in ctx.prog.all_functions():
            for c, g in callees(ctx.prog, f):
                if g is not None:
                    cache.setdefault(id(g.node), []).append((f, c))
        ctx.prog._own_call_sites = cache
    return cache


def exposed(ctx, fi, param, seen=None) -> bool:
    """does `param` of fi hold an object that belongs to a caller outside the analysed helpers?"""
    if not _private(fi) and not _new_function(fi):
        return True
    seen = seen or set()
    key = (id(fi.node), param)
    if key in seen:
        return False
    seen.add(key)
    sites = _call_sites(ctx).get(id(fi.node), [])
    if not sites:
        return True
    ps = list(fi.params)
    for caller, call in sites:
        off = 1 if ps[:1] in (['self'], ['cls']) and isinstance(call.func, ast.Attribute) else 0
        arg = None
        if param in ps:
            i = ps.index(param) - off
            if 0 <= i < len(call.args):
                arg = call.args[i]
        for k in call.keywords:
            if k.arg == param:
                arg = k.value
        if arg is None:
            if any(isinstance(a, ast.Starred) for a in call.args) or any(k.arg is None for k in call.keywords):
                return True
            continue
        _, aliases = param_writes(caller)
        roots = set()
        r = alias_of(arg, aliases)
        if r:
            roots.add(r)
        roots |= _elements(arg, aliases, {})
        for r in roots:
            if r in caller.params and exposed(ctx, caller, r, seen):
                return True
    return False


def run_own(ctx):
    run_shared(ctx)
    if ctx.prop not in SCOPES:
        return
    scope, consequence = SCOPES[ctx.prop]
    rule = f'{ctx.prop}-O1'
    # positive control
    import textwrap
    src = textwrap.dedent("""
        def f(self, xs, k):
            tails = [np.asarray(x[k:], dtype=float) for x in xs]
            for t in tails:
                t[0] *= 2
    """)

    class _FI:
        pass
    fi = _FI()
    fi.node = ast.parse(src).body[0]
    fi.params = ['self', 'xs', 'k']
    ws, _ = param_writes(fi)
    ctx.control(rule, len(ws) == 1 and ws[0][1] == 'xs', 'embedded write through a view of an element of a parameter is recognised')
    n = 0
    for m in ctx.prog.src_modules():
        if not any(sf in m.relpath for sf in scope):
            continue
        for fi in m.functions.values():
            ws, _ = param_writes(fi)
            n += 1
            for node, root, what in ws:
                if (fi.qualname, root) in ALLOWED:
                    ctx.ob(rule, fi, f'{what} (parameter {root})', True, ALLOWED[(fi.qualname, root)], line=node.lineno, nontrivial=False)
                    continue
                if not exposed(ctx, fi, root):
                    ctx.ob(rule, fi, f'{what} (parameter {root} of a private helper)', True,
                           'every resolved call site hands this helper an object its caller created itself', line=node.lineno)
                    continue
                ctx.ob(rule, fi, f'{what} writes into the caller\'s `{root}`', False,
                       f'`{root}` is a parameter and the written object is a view of it (no copy in between): the caller\'s data '
                       f'change as a side effect of the call. {consequence}', line=node.lineno)
    ctx.ob(rule, ('src/AEIC', '<scope>'), f'{n} function(s) in {list(scope)} write to no caller-owned object', True,
           'no store through a parameter alias (other than the documented in/out arguments)')
