"""C01 — emissions inventory balances (bookkeeping shape, not numbers).

R1  sum over sources (T-AGREE), decided by following sum_total_emissions and compute_emissions *path by path* (a
    partial evaluator over the AST: known values - strings, tuples, dict displays, records of repository NamedTuple /
    dataclass classes with their methods and properties, module-level dispatch tables, lambdas, private helpers - are
    computed, everything else is a symbol denoting its canonical expression; every test on a symbol is enumerated with
    both outcomes, one value per test text and path; `for species in Species` is run for a generic member; a loop over
    a source map itself - `for k in apu` / `.keys()` / `for k, v in apu.items()`, the map's declared type saying that
    its keys are Species members - is the loop over Species restricted to `k in apu`, and successive loops share the one
    generic member, so a total built in two passes (flight sources for every species, then each ground source over its
    own keys, under guard clauses or not) is judged like the single loop; a local that a finished loop leaves behind is
    not the generic member's in a later loop; an ordinary helper class of the package is instantiated by running its
    __init__, its methods / properties are followed, a class-level value is one object shared by all reads).  On every
    path of sum_total_emissions the total stored for the generic species is a sum in which each source parameter's
    `<source>[species]` occurs exactly once, reduced the way that source's declared value shape demands (array:
    np.sum / sum / .sum(); per-mode values: .sum() or a sum over .values() / .as_array(); scalar: itself; float()
    looked through), exactly when `species in <source>` was tested true on that path (`m.get(k)` / `.get(k, 0.0)` /
    `is not None` read as that test) - unless a configuration switch under which compute_emissions computes that very
    source is off.  A source that is left out on a path where it can have the species (a test on another source, on
    another source's switch, on enabled_species, an `elif`, an early `continue`, a dispatch-table row with the wrong
    name or flag) is reported with the fewest tests that decide it; so are a source added twice, a term that is no
    source's amount, a non-zero start, a total stored under a constant key, a species without a stored total, and an
    accumulator that survives into the next iteration (a second generic iteration is run before the judged one).
    In compute_emissions, on every path, each parameter of the sum receives the amount map of a component (the
    `.emissions` of a producer's result - of its own producer get_<source>_emissions when it is a direct call - or of
    an EmissionsSubset record), the returned Emissions record reports those very maps as <source>_emissions and the
    same component's indices as <source>_indices, total_emissions is the result of that call, and the only change of
    the totals afterwards is `[Species.CO2] += x` with the same x reported as lifecycle_co2 (nothing reported where
    nothing is added), exactly on the paths where the CO2 and life-cycle switches were tested true.
R2  fuel for exactly those components (T-PAIR), same evaluation: on every path of compute_emissions the value
    reported as total_fuel_burn (float() looked through; a running total, a sum written out, sum() of a list or
    generator, a property of a record of the parts) equals, as a linear form over symbols, the sum of the
    `.fuel_burn` of exactly the components whose `.emissions` are passed to sum_total_emissions - each once, a
    component that was left as the empty EmissionsSubset counting its 0.0.  Anything else that is added (the end-to-end
    fuel-mass difference, the sum of the whole per-segment array, another component's fuel twice) and any component
    fuel that is missing on some path (added under another switch than its computation) is named in the report.
R3  amount = EI × component fuel (T-PAIR + def-use): per producer, the index
    map, the amount map and the reported fuel are read off the EmissionsSubset
    it returns (whatever the locals are called), and the variable that
    multiplies the indices must be the one whose value (APU) or sum (LTO; over
    the counted slice for the trajectory) is reported as fuel_burn (the same
    local, or an expression that stands for the same value; a reported fuel
    that is something else - a rate, another attribute - is a violation, not
    an unknown).  Every place
    that fills the emissions map under a variable key stores a product whose
    factors are the index map's element at that key and the component fuel F,
    for a key that walks the index map's own keys with nothing (guard, filter,
    continue/break) that lets a key go without an amount.  The element may be
    spelt `indices[k]`, the value variable of `for k, v in indices.items()`,
    or a local standing for either; the loop may be a statement or a dict
    comprehension passed to `.update` / the constructor.  The returned
    fuel_burn derives from the same F (sum / slice-sum), and zeroing stores
    into elements of the two maps come as index/emission twins over one slice
    (or the index element is zeroed, unconditionally, before the statement of
    the same iteration that evaluates the product for that key: the amount is
    then masked by its factor)
    value - however the element is reached (`m[k][a:b]`, the value variable of
    an .items()/.values() loop, a local, the variable of a loop over a literal
    collection of such elements or of the two maps, itertools.chain of their
    values) and however the window is spelt (`[:w.start]`, slice(None,
    w.start), np.s_[…], a named slice or bound, a loop over such; lower 0 /
    upper len(traj) / None read as open).  In compute_emissions the array
    passed as the trajectory producer's multiplier (through any alias) is
    zeros_like(fuel_mass) with the single store [1:] = fuel_mass[:-1] -
    fuel_mass[1:] (or -np.diff(fuel_mass)).
R4  windows complementary (T-AGREE, finite): for every member of
    ClimbDescentMode exactly one of "trajectory excludes climb/descent" and
    "LTO keeps approach/climb fuel" holds; LTO zeroes exactly approach and
    climb of its per-mode fuel (stores under ThrustMode keys, or a loop over a
    literal / named constant collection of modes); the trajectory's fuel total
    and its zeroing use one slice: the zeroed windows are exactly [:w.start]
    and [w.stop:] of the slice w whose sum is reported (stores made by a
    resolved helper on its parameter count as made on what the caller passes).
    Both sides are evaluated per mode: _trajectory_slice by partial evaluation
    of its tests (if/elif, guard clauses, match, conditional expression, dict
    dispatch) down to the slice it returns - "full" = [0 | open, len(traj) |
    open), "cruise" = [n_climb, len(traj) - n_descent), bounds compared as
    exact normal forms - and the LTO zeroing stores by the tests that govern
    them (enclosing ifs, match arms, earlier guard clauses).
R5  speciation identities (T-ALG): for every member of ThrustMode the NO, NO2
    and HONO fractions that NOx_speciation() returns add up to 1 as an exact
    identity over the function's own definitions (locals, nested helpers,
    lambdas and one-line helpers of the module expanded; ThrustModeValues read
    per mode from four positional values, a dict keyed by ThrustMode or one
    number); the constant shares of GSE NOx given to NO, NO2 and
    HONO (written out per species, or rows of a constant table walked by a
    loop; literals or named constants) sum to exactly 1; APU takes its three
    fractions at one thrust mode; SOx = SO2 + SO4 wherever both are set (a sum
    of two terms, each the element kept under SO2 / SO4 - read from the map, or
    from the staging map merged into it by one update that receives every store
    of that species - or the very value stored there - one local, or one
    call-free expression, used for both); in
    lto.py, wherever the NOx family is written (helper or producer), NO, NO2
    and HONO are the one stored NOx index times their own fraction of a
    NOx_speciation() result; BFFM2's NO / NO2 / HONO results are its returned
    NOx index times a per-point array of the species' own fraction (np.array /
    np.fromiter over `[X.f[c] for c in C]`, or `X.f.broadcast(C)`), all three
    looked up by one category array.  The stored NOx index may be an
    unmodified copy (`x.copy()`, copy.copy, np.array) of the value that is
    speciated.  Stores under constant Species keys are
    collected whether written out or made by a loop over a constant table.
R6  memoised mutables: a local bound from a call of a functools.cache'd function
    of the emissions package is not stored into in place unless it was rebound
    to a copy first (the generic form, including results kept in containers
    and aliases, is T-MEMO M2).
R7  caller-held data are not written (ownership by abstract interpretation):
    every in-place store a function of the emissions package makes (`x[k] =`,
    `x[a:b] =`, `x.a =`, `x[k] op=`, `del x[k]`, update / append / fill / …)
    is made on an object this computation created on *every* path that
    reaches the store - constructed, computed, or copied (.copy(), dict(),
    np.array(), deepcopy) - never on one that can still be held by somebody
    else: a parameter, anything reached from one by attribute / element /
    iteration / view (the LTO data of the performance model), a module-level
    object, a memoised result, or a wrapper whose constructor keeps its
    argument by reference.  The functions' own statements are run over these
    descriptions: containers remember what was put into them, branches are
    joined (a copy made under a condition - a mutability flag, a type or
    emptiness test - leaves the object foreign on the other branch), the two
    outcomes of a test that the function repeats unchanged are kept apart, loops
    run to a fixed point, `for k in m: m[k] = <copy>` / m.update({k: … for k
    in m}) over every key replaces what m holds, and resolved functions of the
    package are entered with the caller's values (private helpers are judged
    with what their callers hand them); a repository `copy` method is read
    before it is believed (one that returns the receiver itself on some path
    copies nothing there); attributes are separate slots: what is stored into
    `x.a` is not what `x.b` holds.  Objects of unknown origin (results of library
    calls, of methods other than copy) are never reported; copy.copy() of a
    repository object, nested functions and aliases of a container under a
    second name are not modelled.
Not decided: finiteness, sign, float rounding, numeric content of any EI.
"""

from __future__ import annotations

import ast
import copy as _copy
import operator as _operator
from fractions import Fraction

from ..algebra import AlgebraError, normal_form, poly_equal
from ..astutil import (ancestors, is_within, call_name, calls_in, const_value, enclosing_iterations, eval_pred, guards_of, iterated_mapping,
                       kwarg, local_defs, map_iteration, names_in, norm, single_def_value, stmt_of, stores_to, tuple_def_component,
                       walk_no_nested)
from ..conform import _inline_env

EM = 'emissions/emission.py'
TR = 'emissions/trajectory.py'
LTO = 'emissions/lto.py'
APU = 'emissions/apu.py'
GSE = 'emissions/gse.py'


# ---------------------------------------------------------------------------------------------------------------------
# Path-wise partial evaluation of the two bookkeeping functions (R1, R2).
#
# compute_emissions and sum_total_emissions are *run* over descriptions of values, one path at a time: what is known
# (strings, numbers, tuples, dict displays, records of repository NamedTuple / dataclass classes, functions, lambdas,
# module-level tables) is computed, everything else is a symbol that denotes itself by its canonical expression (locals
# replaced by what they stand for).  A test on a symbol is decided by an oracle and the function is re-run for the other
# outcome, so every path is enumerated with the truth value of every test it evaluated; the same test (same canonical
# text) has one value per path.  Private helpers, record methods / properties, dispatch tables, comprehensions and loops
# over known sequences are executed; a loop over a symbol (`for species in Species`) is executed once for a generic
# element.  Nothing of the repository is imported: this is an interpreter over the AST with a white-list of constructs;
# anything outside it is _Undecidable (exit 2), never a guess.

class _Undecidable(Exception):
    pass


class _Ret(Exception):
    def __init__(self, v):
        self.v = v


class _Cont(Exception):
    pass


class _Brk(Exception):
    pass


class _Raised(Exception):
    pass


class _Sym:
    """a value known only by the canonical expression that denotes it; `callee` / `args` when it is the result of a
    call (args bound to the callee's parameter names when the callee is a repository function)"""

    def __init__(self, e, callee=None, args=None, fresh=False, empty=False, fname=None):
        self.e, self.text = e, norm(e)
        self.callee, self.args, self.fresh, self.empty, self.fname = callee, args, fresh, empty, fname
        self.owner = None

    def __repr__(self):
        return f'<{self.text}>'


class _Lin:
    """a sum of symbols with numeric coefficients plus a number"""

    def __init__(self, terms=(), const=0):
        self.terms, self.const = list(terms), const

    def coefs(self):
        out = {}
        for c, s in self.terms:
            out[s.text] = out.get(s.text, 0) + c
        return {k: v for k, v in out.items() if v != 0}

    def sym_of(self, text):
        return next(s for _c, s in self.terms if s.text == text)


class _Rec:
    """an instance of a repository record class (NamedTuple / dataclass without __init__)"""

    def __init__(self, cls, fields):
        self.cls, self.fields = cls, fields


class _Map:
    """a dict whose keys are known"""

    def __init__(self):
        self.k, self.v = {}, {}

    def set(self, key, val):
        kk = _pe_key(key)
        self.k[kk], self.v[kk] = key, val

    def has(self, key):
        return _pe_key(key) in self.v

    def get(self, key):
        return self.v[_pe_key(key)]

    def items(self):
        return [(self.k[kk], self.v[kk]) for kk in self.k]


class _Fn:
    """a callable: repository function ('repo', fi[, recv]), lambda / nested def ('code', node, frame), repository class
    ('cls', cls), external dotted name ('ext', name), method of a known python value ('py', recv, name)"""

    def __init__(self, kind, fi=None, node=None, frame=None, recv=None, cls=None, name=None):
        self.kind, self.fi, self.node, self.frame, self.recv, self.cls, self.name = kind, fi, node, frame, recv, cls, name


class _PEFrame:
    def __init__(self, module, env, parent=None):
        self.module, self.env, self.parent = module, env, parent

    def find(self, name):
        f = self
        while f is not None:
            if name in f.env:
                return f
            f = f.parent
        return None


def _pe_key(v):
    if v is None or isinstance(v, (str, int, float, bool)):
        return ('c', type(v).__name__, v)
    if isinstance(v, tuple):
        return ('t',) + tuple(_pe_key(x) for x in v)
    if isinstance(v, _Sym):
        return ('s', v.text)
    if isinstance(v, (_Fn, _Rec)):
        return ('o', id(v))
    raise _Undecidable('a key that is neither a constant nor a symbol')


def _pe_ast(v):
    """canonical expression of a value"""
    if isinstance(v, _Sym):
        return v.e
    if isinstance(v, _Lin):
        parts = [(c, s.e) for c, s in v.terms]
        e = ast.Constant(v.const) if (v.const != 0 or not parts) else None
        for c, x in parts:
            if c in (1, -1):
                t = x
            else:
                t = ast.BinOp(ast.Constant(abs(c)), ast.Mult(), x)
            if e is None:
                e = t if c > 0 else ast.UnaryOp(ast.USub(), t)
            else:
                e = ast.BinOp(e, ast.Add() if c > 0 else ast.Sub(), t)
        return e
    if isinstance(v, _Rec):
        return ast.Call(ast.Name(v.cls.name, ast.Load()), [], [ast.keyword(k, _pe_ast(x)) for k, x in v.fields.items()])
    if isinstance(v, _Map):
        return ast.Dict([_pe_ast(k) for k, _x in v.items()], [_pe_ast(x) for _k, x in v.items()])
    if isinstance(v, tuple):
        return ast.Tuple([_pe_ast(x) for x in v], ast.Load())
    if isinstance(v, list):
        return ast.List([_pe_ast(x) for x in v], ast.Load())
    if isinstance(v, _Fn):
        if v.kind == 'repo':
            return ast.Name(v.fi.name, ast.Load())
        if v.kind == 'cls':
            return ast.Name(v.cls.name, ast.Load())
        if v.kind == 'ext':
            return ast.parse(v.name, mode='eval').body
        if v.kind == 'code' and isinstance(v.node, ast.Lambda):
            return v.node
        return ast.Name(getattr(v.node, 'name', v.name or 'function'), ast.Load())
    if v is None or isinstance(v, (str, int, float, bool)):
        return ast.Constant(v)
    raise _Undecidable(f'no expression for {type(v).__name__}')


_PE_BINOPS = {ast.Add: _operator.add, ast.Sub: _operator.sub, ast.Mult: _operator.mul, ast.Div: _operator.truediv,
              ast.FloorDiv: _operator.floordiv, ast.Mod: _operator.mod, ast.Pow: _operator.pow}
_PE_CMPOPS = {ast.Eq: _operator.eq, ast.NotEq: _operator.ne, ast.Lt: _operator.lt, ast.LtE: _operator.le,
              ast.Gt: _operator.gt, ast.GtE: _operator.ge}
_PE_MUTATORS = {'update', 'append', 'extend', 'insert', 'pop', 'popitem', 'clear', 'setdefault', 'fill', 'sort', 'remove',
                'add', 'discard', 'resize', 'put', 'itemset', 'setflags', '__setitem__', '__delitem__'}
_PE_CONST = (str, int, float, bool, type(None))


def _pe_lin(v):
    if isinstance(v, _Lin):
        return v
    if isinstance(v, _Sym):
        return _Lin([(1, v)], 0)
    if isinstance(v, (int, float)) and not isinstance(v, bool):
        return _Lin([], v)
    return None


def _pe_binop(a, op, b):
    num = lambda x: isinstance(x, (int, float)) and not isinstance(x, bool)
    if type(op) in _PE_BINOPS:
        if (num(a) and num(b)) or (isinstance(a, str) and isinstance(b, str) and isinstance(op, ast.Add)):
            try:
                return _PE_BINOPS[type(op)](a, b)
            except ArithmeticError:
                raise _Undecidable('arithmetic error in a constant expression')
        if isinstance(op, ast.Add) and type(a) is type(b) and isinstance(a, (list, tuple)):
            return a + b
        la, lb = _pe_lin(a), _pe_lin(b)
        if isinstance(op, (ast.Add, ast.Sub)) and la is not None and lb is not None:
            sg = 1 if isinstance(op, ast.Add) else -1
            return _Lin(la.terms + [(sg * c, s) for c, s in lb.terms], la.const + sg * lb.const)
        if isinstance(op, ast.Mult) and la is not None and lb is not None and (num(a) or num(b)):
            k, l_ = (a, lb) if num(a) else (b, la)
            return _Lin([(k * c, s) for c, s in l_.terms], k * l_.const)
    return _Sym(ast.BinOp(_pe_ast(a), op, _pe_ast(b)))


class _Mut:
    """one in-place change of a symbol: op '=' / '+=' … on [key], 'attr=' on .key, 'call' of mutator `key`"""

    def __init__(self, obj, op, key, value, node, decided):
        self.obj, self.op, self.key, self.value, self.node, self.decided = obj, op, key, value, node, decided


class _Path:
    """one run: decisions (canonical test text -> bool, in the order taken), the outcome ('return', value) /
    ('raise', None), the in-place changes of symbols, the generic loops, local names of call results"""

    def __init__(self, run, outcome):
        self.decisions = {t: v for t, v, _f in run.taken}
        self.order = [(t, v) for t, v, _f in run.taken]
        self.outcome, self.muts, self.loops, self.labels, self.calls = outcome, run.muts, run.loops, run.labels, run.calls

    def show(self, x):
        s = x if isinstance(x, str) else norm(_pe_ast(x))
        for t in sorted(self.labels, key=len, reverse=True):
            s = s.replace(t, self.labels[t])
        return s


class _PE:
    def __init__(self, prog, opaque=(), prime=False, scope='/emissions/', keyed=None):
        self.prog, self.opaque, self.prime, self.scope = prog, set(opaque), prime, scope
        # canonical text of a mapping -> text of the enum its keys are members of (from its declared type): a loop over
        # such a mapping is the loop over the enum restricted to the keys the mapping has
        self.keyed = dict(keyed or {})

    def explore(self, fi, limit=5000):
        todo, out = [[]], []
        while todo:
            prefix = todo.pop()
            if len(out) >= limit:
                raise _Undecidable(f'more than {limit} paths')
            run = _Run(self, prefix)
            out.append(run.start(fi))
            for i in range(len(prefix), len(run.taken)):
                if run.taken[i][2]:
                    todo.append([t[1] for t in run.taken[:i]] + [False])
        return out


class _Run:
    def __init__(self, pe, prefix):
        self.pe, self.prog, self.prefix = pe, pe.prog, prefix
        self.taken, self.known = [], {}
        self.muts, self.loops, self.labels, self.calls = [], [], {}, []
        self.depth, self.nofork, self.consts, self.clsattrs = 0, False, {}, {}

    # ----- driver
    def start(self, fi):
        fr = _PEFrame(fi.module, {p: _Sym(ast.Name(p, ast.Load())) for p in fi.params})
        try:
            self.block(fi.node.body, fr)
            out = ('return', None)
        except _Ret as r:
            out = ('return', r.v)
        except _Raised:
            out = ('raise', None)
        except (_Cont, _Brk):
            raise _Undecidable('continue / break outside a loop')
        except RecursionError:
            raise _Undecidable('recursion too deep')
        return _Path(self, out)

    # ----- decisions
    def truth(self, v):
        if isinstance(v, _Lin):
            if not v.terms:
                return bool(v.const)
            v = _Sym(_pe_ast(v))
        if isinstance(v, _Map):
            return bool(v.v)
        if isinstance(v, (_Rec, _Fn)):
            return True
        if not isinstance(v, _Sym):
            return bool(v)
        e, pol = v.e, True
        while True:
            if isinstance(e, ast.UnaryOp) and isinstance(e.op, ast.Not):
                e, pol = e.operand, not pol
            elif isinstance(e, ast.Compare) and len(e.ops) == 1 and isinstance(e.ops[0], (ast.NotIn, ast.IsNot, ast.NotEq)):
                op = {ast.NotIn: ast.In, ast.IsNot: ast.Is, ast.NotEq: ast.Eq}[type(e.ops[0])]()
                e, pol = ast.Compare(e.left, [op], e.comparators), not pol
            elif isinstance(e, ast.Call) and call_name(e) == 'bool' and len(e.args) == 1 and not e.keywords:
                e = e.args[0]
            else:
                break
        text = norm(e)
        if text not in self.known:
            i = len(self.taken)
            val = self.prefix[i] if i < len(self.prefix) else True
            self.taken.append((text, val, not self.nofork))
            self.known[text] = val
        return self.known[text] == pol

    # ----- names
    def name(self, n, fr):
        f = fr.find(n)
        if f is not None:
            return f.env[n]
        return self.global_name(n, fr.module)

    def global_name(self, n, module):
        r = self.prog.resolve_name(module, n) if module is not None else None
        if r is None:
            return _Fn('ext', name=n)
        if hasattr(r, 'qualname'):
            return _Fn('repo', fi=r)
        if hasattr(r, 'methods'):
            return _Fn('cls', cls=r)
        if isinstance(r, tuple) and r[0] == 'const':
            key = (r[1].relpath, r[2])
            if key not in self.consts:
                self.consts[key] = _Sym(ast.Name(n, ast.Load()))          # cycles
                saved = (len(self.taken), dict(self.known), len(self.muts), len(self.calls))
                try:
                    v = self.eval(r[1].constants[r[2]], _PEFrame(r[1], {}))
                    if isinstance(v, (_Sym, _Lin)):
                        v = _Sym(ast.Name(n, ast.Load()))
                except _Undecidable:
                    del self.taken[saved[0]:], self.muts[saved[2]:], self.calls[saved[3]:]
                    self.known = saved[1]
                    v = _Sym(ast.Name(n, ast.Load()))
                self.consts[key] = v
            return self.consts[key]
        return _Sym(ast.Name(n, ast.Load()))

    # ----- expressions
    def subst(self, e, fr):
        """e with the locals it reads replaced by what they stand for (names bound inside e left alone)"""
        inner = {x.id for x in ast.walk(e) if isinstance(x, ast.Name) and isinstance(x.ctx, ast.Store)}
        inner |= {a.arg for x in ast.walk(e) if isinstance(x, ast.Lambda) for a in x.args.args + x.args.kwonlyargs + x.args.posonlyargs}
        class T(ast.NodeTransformer):
            def visit_Name(self, n):
                if n.id in inner or fr.find(n.id) is None:
                    return n
                return _pe_ast(fr.find(n.id).env[n.id])
        return T().visit(_copy.deepcopy(e))

    def eval(self, e, fr):
        m = getattr(self, 'e_' + type(e).__name__, None)
        if m is None:
            return _Sym(self.subst(e, fr))
        return m(e, fr)

    def e_Constant(self, e, fr):
        return e.value

    def e_Name(self, e, fr):
        return self.name(e.id, fr)

    def e_Attribute(self, e, fr):
        return self.getattr(self.eval(e.value, fr), e.attr)

    def e_Tuple(self, e, fr):
        return tuple(self.elts(e.elts, fr))

    def e_List(self, e, fr):
        return self.elts(e.elts, fr)

    def e_Set(self, e, fr):
        return tuple(self.elts(e.elts, fr))

    def elts(self, es, fr):
        out = []
        for x in es:
            if isinstance(x, ast.Starred):
                out += self.sequence(self.eval(x.value, fr))
            else:
                out.append(self.eval(x, fr))
        return out

    def e_Dict(self, e, fr):
        m = _Map()
        for k, v in zip(e.keys, e.values):
            if k is None:
                src = self.eval(v, fr)
                if not isinstance(src, _Map):
                    raise _Undecidable('** of an unknown mapping')
                for kk, vv in src.items():
                    m.set(kk, vv)
            else:
                m.set(self.eval(k, fr), self.eval(v, fr))
        return m

    def e_Lambda(self, e, fr):
        return _Fn('code', node=e, frame=fr)

    def e_IfExp(self, e, fr):
        return self.eval(e.body if self.truth(self.eval(e.test, fr)) else e.orelse, fr)

    def e_NamedExpr(self, e, fr):
        v = self.eval(e.value, fr)
        self.bind(e.target, v, fr, e)
        return v

    def e_BoolOp(self, e, fr):
        v = None
        for x in e.values:
            v = self.eval(x, fr)
            t = self.truth(v)
            if t != isinstance(e.op, ast.And):
                return v
        return v

    def e_UnaryOp(self, e, fr):
        v = self.eval(e.operand, fr)
        if isinstance(e.op, ast.Not):
            if isinstance(v, _Sym):
                return _Sym(ast.UnaryOp(ast.Not(), v.e))
            return not self.truth(v)
        if isinstance(v, (int, float)) and not isinstance(v, bool):
            return -v if isinstance(e.op, ast.USub) else +v if isinstance(e.op, ast.UAdd) else ~v
        if isinstance(e.op, ast.USub) and isinstance(v, (_Sym, _Lin)):
            lin = _pe_lin(v)
            return _Lin([(-c, s) for c, s in lin.terms], -lin.const)
        return _Sym(ast.UnaryOp(e.op, _pe_ast(v)))

    def binop(self, a, op, b):
        return _pe_binop(a, op, b)

    def e_BinOp(self, e, fr):
        return self.binop(self.eval(e.left, fr), e.op, self.eval(e.right, fr))

    def e_Compare(self, e, fr):
        left = self.eval(e.left, fr)
        for op, c in zip(e.ops, e.comparators):
            right = self.eval(c, fr)
            r = self.compare(left, op, right)
            if len(e.ops) == 1:
                return r
            if not self.truth(r):
                return False
            left = right
        return True

    def compare(self, a, op, b):
        ca, cb = isinstance(a, _PE_CONST), isinstance(b, _PE_CONST)
        if isinstance(op, (ast.Is, ast.IsNot)):
            pos = isinstance(op, ast.Is)
            if a is None or b is None:
                other = b if a is None else a
                if other is None:
                    return pos
                if not isinstance(other, (_Sym, _Lin)) or getattr(other, 'notnone', False):
                    return not pos
            elif not isinstance(a, (_Sym, _Lin)) and not isinstance(b, (_Sym, _Lin)):
                return (a is b) == pos if not (ca and cb) else (a == b and type(a) is type(b)) == pos
        elif isinstance(op, (ast.In, ast.NotIn)):
            pos = isinstance(op, ast.In)
            if isinstance(b, _Sym) and isinstance(b.e, ast.Call) and isinstance(b.e.func, ast.Attribute) and b.e.func.attr == 'keys' \
                    and not b.e.args and not b.e.keywords:
                b = _Sym(b.e.func.value)
            if isinstance(b, _Map):
                return b.has(a) == pos
            if isinstance(b, str) and isinstance(a, str):
                return (a in b) == pos
            if isinstance(b, (list, tuple)):
                ks = [_pe_key(x) for x in b]
                if _pe_key(a) in ks:
                    return pos
                if not isinstance(a, _Sym) and not any(isinstance(x, _Sym) for x in b):
                    return not pos
        elif type(op) in _PE_CMPOPS:
            if ca and cb:
                try:
                    return _PE_CMPOPS[type(op)](a, b)
                except TypeError:
                    raise _Undecidable('comparison of unlike constants')
            if isinstance(op, (ast.Eq, ast.NotEq)) and isinstance(a, _Sym) and isinstance(b, _Sym) and a.text == b.text:
                return isinstance(op, ast.Eq)
        return _Sym(ast.Compare(_pe_ast(a), [op], [_pe_ast(b)]))

    def e_Subscript(self, e, fr):
        base = self.eval(e.value, fr)
        if isinstance(base, _Fn) and base.kind in ('cls', 'ext'):
            return base                                                   # a generic alias: SpeciesValues[float]
        return self.index(base, self.eval(e.slice, fr))

    def e_Slice(self, e, fr):
        parts = [None if x is None else self.eval(x, fr) for x in (e.lower, e.upper, e.step)]
        if all(x is None or (isinstance(x, int) and not isinstance(x, bool)) for x in parts):
            return slice(*parts)
        return _Sym(ast.Slice(*[None if x is None else _pe_ast(x) for x in parts]))

    def index(self, base, key):
        if isinstance(base, (list, tuple, str)) and (isinstance(key, slice) or (isinstance(key, int) and not isinstance(key, bool))):
            try:
                return base[key]
            except IndexError:
                raise _Undecidable('index out of range in a known sequence')
        if isinstance(base, _Map):
            if base.has(key):
                return base.get(key)
            raise _Undecidable(f'key `{norm(_pe_ast(key))}` is not in a known mapping')
        if isinstance(base, _Rec) and isinstance(key, int) and not isinstance(key, bool):
            return list(base.fields.values())[key]
        if isinstance(base, (_Sym, _Lin)):
            k = None if isinstance(key, slice) else _pe_ast(key)
            if isinstance(key, slice):
                k = ast.Slice(*[None if x is None else ast.Constant(x) for x in (key.start, key.stop, key.step)])
            return _Sym(ast.Subscript(_pe_ast(base), k, ast.Load()))
        raise _Undecidable('subscript of a value that is neither a known container nor a symbol')

    @staticmethod
    def iterable(v):
        """an enum class (or any other class / external name) that is iterated is a symbol"""
        return _Sym(_pe_ast(v)) if isinstance(v, _Fn) and v.kind in ('cls', 'ext') else v

    def sequence(self, v):
        """the elements of a known sequence"""
        if isinstance(v, (list, tuple)):
            return list(v)
        if isinstance(v, _Map):
            return [k for k, _x in v.items()]
        if isinstance(v, _Rec) and 'NamedTuple' in ' '.join(v.cls.base_exprs):
            return list(v.fields.values())
        raise _Undecidable('iteration over something that is not a known sequence')

    def comp(self, gens, fr, emit, first):
        def go(i, f):
            if i == len(gens):
                emit(f)
                return
            g = gens[i]
            for item in self.sequence(first if i == 0 else self.eval(g.iter, f)):
                f2 = _PEFrame(f.module, {}, f)
                self.bind(g.target, item, f2, g)
                if all(self.truth(self.eval(c, f2)) for c in g.ifs):
                    go(i + 1, f2)
        go(0, fr)

    def e_ListComp(self, e, fr):
        first = self.iterable(self.eval(e.generators[0].iter, fr))
        if isinstance(first, (_Sym, _Lin)):
            return _Sym(self.subst(e, fr))
        out = []
        self.comp(e.generators, fr, lambda f: out.append(self.eval(e.elt, f)), first)
        return out

    e_GeneratorExp = e_ListComp

    def e_SetComp(self, e, fr):
        return tuple(self.e_ListComp(e, fr))

    def e_DictComp(self, e, fr):
        first = self.iterable(self.eval(e.generators[0].iter, fr))
        if not isinstance(first, (_Sym, _Lin)):
            m = _Map()
            self.comp(e.generators, fr, lambda f: m.set(self.eval(e.key, f), self.eval(e.value, f)), first)
            return m
        if len(e.generators) != 1:
            return _Sym(self.subst(e, fr))
        # a map built over a generic element: a fresh map and one generic iteration that stores into it
        g = e.generators[0]
        m = _Sym(ast.Dict([], []), fresh=True, empty=True)
        f2 = _PEFrame(fr.module, {}, fr)
        self.generic_bind(g.target, first, f2, e)
        if all(self.truth(self.eval(c, f2)) for c in g.ifs):
            self.muts.append(_Mut(m, '=', self.eval(e.key, f2), self.eval(e.value, f2), e, dict(self.known)))
        return m

    def e_JoinedStr(self, e, fr):
        out = []
        for v in e.values:
            if isinstance(v, ast.Constant) and isinstance(v.value, str):
                out.append(v.value)
                continue
            x = self.eval(v.value, fr) if isinstance(v, ast.FormattedValue) and v.conversion == -1 and v.format_spec is None else None
            if not isinstance(x, (str, int)) or isinstance(x, bool):
                return _Sym(self.subst(e, fr))
            out.append(str(x))
        return ''.join(out)

    def e_Starred(self, e, fr):
        raise _Undecidable('* outside a call or display')

    # ----- attributes
    def getattr(self, v, attr, default=_Undecidable):
        if isinstance(v, _Rec):
            if attr in v.fields:
                return v.fields[attr]
            if attr in ('_replace', '_asdict'):
                return _Fn('py', recv=v, name=attr)
            meth = v.cls.find_method(attr)
            if meth is not None:
                if any(d.split('.')[-1] in ('property', 'cached_property') for d in meth.decorators()):
                    return self.enter(meth.node, meth.module, [v], {}, None)
                return _Fn('repo', fi=meth, recv=v)
            for c in v.cls.mro():
                ca = c.class_assignments()
                if ca.get(attr) is not None:
                    # a class-level value is one object, shared by every instance (and by every read)
                    if (id(c.node), attr) not in self.clsattrs:
                        self.clsattrs[(id(c.node), attr)] = self.eval(ca[attr], _PEFrame(c.module, {}))
                    return self.clsattrs[(id(c.node), attr)]
            if default is not _Undecidable:
                return default
            raise _Undecidable(f'record {v.cls.name} has no attribute {attr}')
        if isinstance(v, (_Sym, _Lin)):
            return _Sym(ast.Attribute(_pe_ast(v), attr, ast.Load()))
        if isinstance(v, _Fn):
            if v.kind == 'ext':
                return _Fn('ext', name=f'{v.name}.{attr}')
            if v.kind == 'cls':
                meth = v.cls.find_method(attr)
                if meth is not None:
                    return _Fn('repo', fi=meth)
                return _Sym(ast.Attribute(ast.Name(v.cls.name, ast.Load()), attr, ast.Load()))
            return _Sym(ast.Attribute(_pe_ast(v), attr, ast.Load()))
        if isinstance(v, (list, tuple, str, _Map)):
            return _Fn('py', recv=v, name=attr)
        raise _Undecidable(f'attribute {attr} of a constant')

    # ----- calls
    def e_Call(self, e, fr):
        f = e.func
        pos = self.elts(e.args, fr)
        kw = {}
        for k in e.keywords:
            if k.arg is None:
                src = self.eval(k.value, fr)
                if not isinstance(src, _Map) or not all(isinstance(kk, str) for kk, _v in src.items()):
                    raise _Undecidable('** of an unknown mapping')
                kw.update(dict(src.items()))
            else:
                kw[k.arg] = self.eval(k.value, fr)
        if isinstance(f, ast.Attribute):
            recv = self.eval(f.value, fr)
            if isinstance(recv, (_Sym, _Lin)):
                return self.sym_method(recv if isinstance(recv, _Sym) else _Sym(_pe_ast(recv)), f.attr, pos, kw, e)
            fv = self.getattr(recv, f.attr)
        else:
            fv = self.eval(f, fr)
        return self.apply(fv, pos, kw, e)

    def sym_method(self, recv, attr, pos, kw, node):
        if attr == 'get' and 1 <= len(pos) <= 2 and not kw:
            if self.truth(_Sym(ast.Compare(_pe_ast(pos[0]), [ast.In()], [recv.e]))):
                got = _Sym(ast.Subscript(recv.e, _pe_ast(pos[0]), ast.Load()))
                got.notnone = len(pos) == 1           # `m.get(k) is not None` is how the membership test is spelt
                return got
            return pos[1] if len(pos) == 2 else None
        call = ast.Call(ast.Attribute(recv.e, attr, ast.Load()), [_pe_ast(a) for a in pos], [ast.keyword(k, _pe_ast(v)) for k, v in kw.items()])
        if attr in _PE_MUTATORS:
            self.muts.append(_Mut(recv, 'call', attr, (pos, kw), node, dict(self.known)))
            return _Sym(call)
        if attr in ('copy', 'deepcopy', 'astype'):
            return _Sym(call, fresh=True)
        return _Sym(call)

    def opaque(self, fv, pos, kw, node, fi=None):
        bound = None
        if fi is not None:
            bound, names = {}, [p.arg for p in fi.node.args.posonlyargs + fi.node.args.args]
            if fi.cls is not None and names and names[0] in ('self', 'cls') and not any(
                    d.split('.')[-1] == 'staticmethod' for d in fi.decorators()):
                names = names[1:]
            for i, a in enumerate(pos):
                if i < len(names):
                    bound[names[i]] = a
            bound.update(kw)
        e = ast.Call(_pe_ast(fv), [_pe_ast(a) for a in pos], [ast.keyword(k, _pe_ast(v)) for k, v in kw.items()])
        s = _Sym(e, callee=fi, args=bound if bound is not None else {'*': list(pos), **kw}, fresh=True,
                 empty=(not pos and not kw and isinstance(fv, _Fn) and (fv.kind == 'cls' or fv.name in ('dict', 'list', 'set'))),
                 fname=norm(_pe_ast(fv)))
        s.node = node
        self.calls.append(s)
        return s

    def apply(self, fv, pos, kw, node):
        if isinstance(fv, _Sym):
            return self.opaque(fv, pos, kw, node)
        if not isinstance(fv, _Fn):
            raise _Undecidable('call of a value that is not callable')
        if fv.kind == 'repo':
            fi = fv.fi
            enter = fi.name not in self.pe.opaque and self.pe.scope in fi.module.relpath and self.depth < 8 \
                and (fi.cls is None or fv.recv is not None) \
                and not any(d.split('(')[0].split('.')[-1] in ('cache', 'lru_cache', 'cached_property') for d in fi.decorators())
            if enter:
                saved = (len(self.taken), dict(self.known), len(self.muts), len(self.calls), len(self.loops))
                try:
                    return self.enter(fi.node, fi.module, ([fv.recv] if fv.recv is not None else []) + list(pos), kw, None)
                except _Undecidable:
                    if fv.recv is not None:
                        raise
                    del self.taken[saved[0]:], self.muts[saved[2]:], self.calls[saved[3]:], self.loops[saved[4]:]
                    self.known = saved[1]
            if fv.recv is not None:
                raise _Undecidable(f'method {fi.qualname} of a record cannot be followed')
            return self.opaque(fv, pos, kw, node, fi)
        if fv.kind == 'code':
            return self.enter(fv.node, fv.frame.module, pos, kw, fv.frame)
        if fv.kind == 'cls':
            return self.construct(fv, pos, kw, node)
        if fv.kind == 'py':
            return self.py_method(fv.recv, fv.name, pos, kw)
        return self.builtin(fv, pos, kw, node)

    def enter(self, node, module, pos, kw, closure):
        a = node.args
        names = [p.arg for p in a.posonlyargs + a.args]
        if len(pos) > len(names) and not a.vararg:
            raise _Undecidable('too many positional arguments')
        env = dict(zip(names, pos))
        if a.vararg:
            env[a.vararg.arg] = tuple(pos[len(names):])
        extra = _Map()
        for k, v in kw.items():
            if k in env:
                raise _Undecidable(f'argument {k} given twice')
            if k not in names + [p.arg for p in a.kwonlyargs]:
                if not a.kwarg:
                    raise _Undecidable(f'unexpected keyword {k}')
                extra.set(k, v)
            else:
                env[k] = v
        if a.kwarg:
            env[a.kwarg.arg] = extra
        dfr = _PEFrame(module, {}, closure)
        for p, d in zip(names[len(names) - len(a.defaults):], a.defaults):
            if p not in env:
                env[p] = self.eval(d, dfr)
        for p, d in zip(a.kwonlyargs, a.kw_defaults):
            if p.arg not in env and d is not None:
                env[p.arg] = self.eval(d, dfr)
        missing = [p for p in names + [p.arg for p in a.kwonlyargs] if p not in env]
        if missing:
            raise _Undecidable(f'argument {missing[0]} not bound')
        fr = _PEFrame(module, env, closure)
        self.depth += 1
        try:
            if isinstance(node, ast.Lambda):
                return self.eval(node.body, fr)
            try:
                self.block(node.body, fr)
            except _Ret as r:
                return r.v
            except (_Cont, _Brk):
                raise _Undecidable('continue / break outside a loop')
            return None
        finally:
            self.depth -= 1

    @staticmethod
    def record_class(ci):
        if any(c.find_method(x) for c in [ci] for x in ('__init__', '__new__', '__post_init__')):
            return False
        deco = ' '.join(ast.unparse(d) for d in ci.node.decorator_list)
        return 'dataclass' in deco or any('NamedTuple' in b for c in ci.mro() for b in c.base_exprs)

    def construct(self, fv, pos, kw, node):
        ci = fv.cls
        if not self.record_class(ci):
            # an ordinary class of the package whose constructor can be followed: an object whose attributes are what
            # __init__ (run here, with the caller's values) stores on it; its methods and properties are then followed
            # like a record's.  Anything else (bases outside the repository, __new__, a metaclass, a constructor that
            # cannot be followed) stays a symbol.
            init = ci.find_method('__init__')
            plain = init is not None and self.pe.scope in ci.module.relpath and self.depth < 8 \
                and not any(c.find_method(x) for c in [ci] for x in ('__new__', '__post_init__', '__setattr__', '__getattr__', '__getattribute__')) \
                and all(len(c.bases) == len([b for b in c.base_exprs if b != 'object']) for c in ci.mro()) \
                and not ci.node.keywords and not ci.node.decorator_list and not init.node.decorator_list
            if plain:
                obj = _Rec(ci, {})
                obj.node = node
                saved = (len(self.taken), dict(self.known), len(self.muts), len(self.calls), len(self.loops))
                try:
                    self.enter(init.node, init.module, [obj] + list(pos), kw, None)
                    return obj
                except _Undecidable:
                    del self.taken[saved[0]:], self.muts[saved[2]:], self.calls[saved[3]:], self.loops[saved[4]:]
                    self.known = saved[1]
            return self.opaque(fv, pos, kw, node)
        order, defaults = [], {}
        for c in reversed(ci.mro()):
            for s in c.node.body:
                if isinstance(s, ast.AnnAssign) and isinstance(s.target, ast.Name) and 'ClassVar' not in ast.unparse(s.annotation):
                    if s.target.id not in order:
                        order.append(s.target.id)
                    if s.value is not None:
                        defaults[s.target.id] = (s.value, c.module)
        if len(pos) > len(order):
            raise _Undecidable('too many arguments for a record')
        fields = dict(zip(order, pos))
        for k, v in kw.items():
            if k not in order or k in fields:
                raise _Undecidable(f'unexpected field {k}')
            fields[k] = v
        for k in order:
            if k in fields:
                continue
            if k not in defaults:
                raise _Undecidable(f'field {k} of {ci.name} not given')
            d, mod = defaults[k]
            fr = _PEFrame(mod, {})
            if isinstance(d, ast.Call) and call_name(d).split('.')[-1] == 'field':
                fac, dv = kwarg(d, 'default_factory'), kwarg(d, 'default')
                if fac is not None:
                    fields[k] = self.apply(self.eval(fac, fr), [], {}, d)
                elif dv is not None:
                    fields[k] = self.eval(dv, fr)
                else:
                    raise _Undecidable(f'field {k} of {ci.name} not given')
            else:
                fields[k] = self.eval(d, fr)
        rec = _Rec(ci, {k: fields[k] for k in order})
        for k, v in rec.fields.items():
            if isinstance(v, _Sym) and v.owner is None:
                v.owner = (rec, k)
        rec.node = node
        return rec

    def py_method(self, recv, name, pos, kw):
        if isinstance(recv, _Rec):
            if name == '_replace' and not pos and all(k in recv.fields for k in kw):
                return _Rec(recv.cls, {**recv.fields, **kw})
            if name == '_asdict' and not pos and not kw:
                m = _Map()
                for k, v in recv.fields.items():
                    m.set(k, v)
                return m
            raise _Undecidable(f'method {name} of a record')
        if kw:
            raise _Undecidable('keyword call of a builtin method')
        if isinstance(recv, list):
            if name == 'append' and len(pos) == 1:
                recv.append(pos[0])
                return None
            if name == 'extend' and len(pos) == 1:
                recv.extend(self.sequence(pos[0]))
                return None
            if name == 'insert' and len(pos) == 2 and isinstance(pos[0], int):
                recv.insert(pos[0], pos[1])
                return None
            if name == 'pop' and len(pos) <= 1 and recv:
                return recv.pop(*pos)
            if name == 'copy' and not pos:
                return list(recv)
        if isinstance(recv, _Map):
            if name == 'get' and 1 <= len(pos) <= 2:
                return recv.get(pos[0]) if recv.has(pos[0]) else (pos[1] if len(pos) == 2 else None)
            if name == 'items' and not pos:
                return [(k, v) for k, v in recv.items()]
            if name == 'keys' and not pos:
                return [k for k, _v in recv.items()]
            if name == 'values' and not pos:
                return [v for _k, v in recv.items()]
            if name == 'copy' and not pos:
                m = _Map()
                for k, v in recv.items():
                    m.set(k, v)
                return m
            if name == 'update' and len(pos) == 1 and isinstance(pos[0], _Map):
                for k, v in pos[0].items():
                    recv.set(k, v)
                return None
            if name == 'setdefault' and len(pos) == 2:
                if not recv.has(pos[0]):
                    recv.set(pos[0], pos[1])
                return recv.get(pos[0])
        if isinstance(recv, str) and all(isinstance(a, _PE_CONST) for a in pos) and name in (
                'lower', 'upper', 'strip', 'lstrip', 'rstrip', 'startswith', 'endswith', 'format', 'replace', 'removeprefix',
                'removesuffix', 'split', 'join', 'title', 'capitalize'):
            r = getattr(recv, name)(*pos)
            return tuple(r) if isinstance(r, list) else r
        if isinstance(recv, tuple) and name in ('index', 'count') and len(pos) == 1:
            ks = [_pe_key(x) for x in recv]
            return ks.index(_pe_key(pos[0])) if name == 'index' and _pe_key(pos[0]) in ks else ks.count(_pe_key(pos[0]))
        raise _Undecidable(f'method {name} of a known {type(recv).__name__}')

    def builtin(self, fv, pos, kw, node):
        n = fv.name
        num = lambda x: isinstance(x, (int, float)) and not isinstance(x, bool)
        if n in ('float', 'int') and len(pos) == 1 and not kw:
            if isinstance(pos[0], (int, float, str)):
                try:
                    return float(pos[0]) if n == 'float' else int(pos[0])
                except ValueError:
                    raise _Undecidable('conversion of a constant fails')
            if n == 'float' and isinstance(pos[0], (_Sym, _Lin)):
                return pos[0]                                             # float() of a number is that number
        if n == 'bool' and len(pos) == 1 and not kw:
            return self.truth(pos[0])
        if n == 'len' and len(pos) == 1 and isinstance(pos[0], (list, tuple, str, _Map)):
            return len(pos[0].v) if isinstance(pos[0], _Map) else len(pos[0])
        if n in ('sum', 'math.fsum', 'fsum') and 1 <= len(pos) <= 2 and isinstance(pos[0], (list, tuple)):
            acc = pos[1] if len(pos) == 2 else kw.get('start', 0)
            for x in pos[0]:
                acc = self.binop(acc, ast.Add(), x)
            return acc
        if n == 'getattr' and 2 <= len(pos) <= 3 and isinstance(pos[1], str) and not kw:
            return self.getattr(pos[0], pos[1], *pos[2:])
        if n in ('replace', 'dataclasses.replace') and len(pos) == 1 and isinstance(pos[0], _Rec) and all(k in pos[0].fields for k in kw):
            return _Rec(pos[0].cls, {**pos[0].fields, **kw})
        if n == 'hasattr' and len(pos) == 2 and isinstance(pos[1], str) and isinstance(pos[0], _Rec):
            return self.getattr(pos[0], pos[1], None) is not None
        if n in ('list', 'tuple', 'set', 'frozenset') and len(pos) <= 1 and not kw:
            if not pos:
                return [] if n == 'list' else ()
            if not isinstance(pos[0], (_Sym, _Lin)):
                seq = self.sequence(pos[0])
                return seq if n == 'list' else tuple(seq)
        if n == 'dict' and len(pos) <= 1:
            m = _Map()
            if pos:
                if isinstance(pos[0], (_Sym, _Lin)):
                    return self.opaque(fv, pos, kw, node)
                for it in (pos[0].items() if isinstance(pos[0], _Map) else self.sequence(pos[0])):
                    k, v = self.sequence(it) if not isinstance(it, tuple) else it
                    m.set(k, v)
            for k, v in kw.items():
                m.set(k, v)
            return m
        if n == 'zip' and not kw and pos and all(not isinstance(a, (_Sym, _Lin)) for a in pos):
            return [tuple(t) for t in zip(*[self.sequence(a) for a in pos])]
        if n == 'enumerate' and 1 <= len(pos) <= 2 and not isinstance(pos[0], (_Sym, _Lin)):
            start = pos[1] if len(pos) == 2 else kw.get('start', 0)
            return [(i, x) for i, x in enumerate(self.sequence(pos[0]), start)]
        if n == 'reversed' and len(pos) == 1 and not isinstance(pos[0], (_Sym, _Lin)):
            return list(reversed(self.sequence(pos[0])))
        if n == 'range' and pos and all(isinstance(a, int) and not isinstance(a, bool) for a in pos) and not kw:
            r = range(*pos)
            if len(r) > 64:
                raise _Undecidable('a long range')
            return list(r)
        if n in ('abs', 'min', 'max', 'round') and pos and all(num(a) for a in pos) and not kw:
            return {'abs': abs, 'min': min, 'max': max, 'round': round}[n](*pos)
        if n in ('isinstance', 'issubclass', 'type', 'id', 'iter', 'next', 'setattr', 'delattr', 'exec', 'eval', 'vars', 'globals', 'locals'):
            raise _Undecidable(f'{n}() is not followed')
        if n == 'print':
            return None
        return self.opaque(fv, pos, kw, node)

    # ----- statements
    def block(self, stmts, fr):
        for s in stmts:
            m = getattr(self, 's_' + type(s).__name__, None)
            if m is None:
                raise _Undecidable(f'statement {type(s).__name__} (line {getattr(s, "lineno", 0)}) is not followed')
            m(s, fr)

    def s_Pass(self, s, fr):
        pass

    s_Import = s_ImportFrom = s_Assert = s_Pass

    def s_Expr(self, s, fr):
        if isinstance(s.value, ast.Constant):
            return
        self.eval(s.value, fr)

    def s_Return(self, s, fr):
        raise _Ret(self.eval(s.value, fr) if s.value is not None else None)

    def s_Raise(self, s, fr):
        raise _Raised()

    def s_Continue(self, s, fr):
        raise _Cont()

    def s_Break(self, s, fr):
        raise _Brk()

    def s_FunctionDef(self, s, fr):
        fr.env[s.name] = _Fn('code', node=s, frame=fr, name=s.name)

    def s_If(self, s, fr):
        self.block(s.body if self.truth(self.eval(s.test, fr)) else s.orelse, fr)

    def s_Match(self, s, fr):
        subj = self.eval(s.subject, fr)
        for c in s.cases:
            if self.pattern(c.pattern, subj, fr) and (c.guard is None or self.truth(self.eval(c.guard, fr))):
                self.block(c.body, fr)
                return

    def pattern(self, p, subj, fr):
        if isinstance(p, ast.MatchAs) and p.pattern is None:
            if p.name:
                fr.env[p.name] = subj
            return True
        if isinstance(p, ast.MatchOr):
            return any(self.pattern(q, subj, fr) for q in p.patterns)
        if isinstance(p, ast.MatchValue):
            return self.truth(self.compare(subj, ast.Eq(), self.eval(p.value, fr)))
        if isinstance(p, ast.MatchSingleton):
            return self.truth(self.compare(subj, ast.Is(), p.value))
        raise _Undecidable('a structural pattern')

    def s_Assign(self, s, fr):
        v = self.eval(s.value, fr)
        for t in s.targets:
            self.bind(t, v, fr, s)

    def s_AnnAssign(self, s, fr):
        if s.value is not None:
            self.bind(s.target, self.eval(s.value, fr), fr, s)

    def bind(self, t, v, fr, node):
        if isinstance(t, ast.Name):
            if isinstance(v, _Sym) and v.fresh and v.text not in self.labels and v.fname is not None and len(v.text) > len(t.id):
                self.labels[v.text] = t.id
            fr.env[t.id] = v
        elif isinstance(t, (ast.Tuple, ast.List)):
            if any(isinstance(x, ast.Starred) for x in t.elts):
                raise _Undecidable('starred unpacking')
            if isinstance(v, (_Sym, _Lin)):
                items = [_Sym(ast.Subscript(_pe_ast(v), ast.Constant(i), ast.Load())) for i in range(len(t.elts))]
            else:
                items = self.sequence(v)
            if len(items) != len(t.elts):
                raise _Undecidable('unpacking of a sequence of another length')
            for x, i in zip(t.elts, items):
                self.bind(x, i, fr, node)
        elif isinstance(t, ast.Attribute):
            obj = self.eval(t.value, fr)
            if isinstance(obj, _Rec):
                obj.fields[t.attr] = v
            elif isinstance(obj, _Sym):
                self.muts.append(_Mut(obj, 'attr=', t.attr, v, node, dict(self.known)))
            else:
                raise _Undecidable('attribute store on a value that is neither a record nor a symbol')
        elif isinstance(t, ast.Subscript):
            obj, key = self.eval(t.value, fr), self.eval(t.slice, fr)
            self.store(obj, key, '=', v, node)
        else:
            raise _Undecidable('assignment target')

    def store(self, obj, key, op, v, node):
        if isinstance(obj, _Map):
            obj.set(key, v)
        elif isinstance(obj, list) and isinstance(key, int) and not isinstance(key, bool) and -len(obj) <= key < len(obj):
            obj[key] = v
        elif isinstance(obj, _Sym):
            self.muts.append(_Mut(obj, op, key, v, node, dict(self.known)))
        else:
            raise _Undecidable('element store into a value that is neither a known container nor a symbol')

    def s_AugAssign(self, s, fr):
        v = self.eval(s.value, fr)
        t = s.target
        if isinstance(t, ast.Name):
            cur = self.name(t.id, fr)
            if isinstance(cur, list) and isinstance(s.op, ast.Add):
                cur.extend(self.sequence(v))
                return
            (fr.find(t.id) or fr).env[t.id] = self.binop(cur, s.op, v)
        elif isinstance(t, ast.Attribute):
            obj = self.eval(t.value, fr)
            if isinstance(obj, _Rec) and t.attr in obj.fields:
                obj.fields[t.attr] = self.binop(obj.fields[t.attr], s.op, v)
            elif isinstance(obj, _Sym):
                self.muts.append(_Mut(obj, 'attr' + type(s.op).__name__, t.attr, v, s, dict(self.known)))
            else:
                raise _Undecidable('augmented attribute store')
        elif isinstance(t, ast.Subscript):
            obj, key = self.eval(t.value, fr), self.eval(t.slice, fr)
            if isinstance(obj, (_Map, list)):
                self.store(obj, key, '=', self.binop(self.index(obj, key), s.op, v), s)
            else:
                self.store(obj, key, {ast.Add: '+=', ast.Sub: '-='}.get(type(s.op), type(s.op).__name__ + '='), v, s)
        else:
            raise _Undecidable('augmented assignment target')

    def generic_bind(self, target, it, fr, node, prime=False):
        """bind the target of a loop over the symbol `it` to a generic element; records the loop.  A loop over a mapping
        whose declared key type is an enum E (`for k in m` / `m.keys()` / `for k, v in m.items()`) is the loop over E
        restricted to the members m has: it is recorded as a loop over E with `member` = m (the caller decides
        `k in m` before it runs the body).  Successive loops over one E share one generic element (whatever the loop
        variables are called): what they store under it is what the generic member ends up with."""
        if not isinstance(it, _Sym):
            raise _Undecidable('iteration over a symbolic sum')
        how, base = 'elements', it
        if isinstance(it.e, ast.Call) and isinstance(it.e.func, ast.Attribute) and not it.e.args and not it.e.keywords \
                and it.e.func.attr in ('items', 'keys', 'values'):
            how, base = it.e.func.attr, _Sym(it.e.func.value)
        elif isinstance(it.e, ast.Call) and call_name(it.e) in ('list', 'tuple', 'iter', 'sorted') and len(it.e.args) == 1 and not it.e.keywords:
            base = _Sym(it.e.args[0])
        pre = 'other_' if prime else ''
        over, member = base.text, None
        if base.text in self.pe.keyed and how in ('elements', 'keys', 'items'):
            over, member = self.pe.keyed[base.text], base.text
        shared = next((l_['key'] for l_ in self.loops if l_['over'] == over and l_['prime'] == prime and over in self.pe.keyed.values()), None)

        def keysym(name):
            return _Sym(ast.Name(shared if shared is not None else pre + name, ast.Load()))
        if how == 'items' and isinstance(target, (ast.Tuple, ast.List)) and len(target.elts) == 2 and isinstance(target.elts[0], ast.Name):
            key = keysym(target.elts[0].id)
            fr.env[target.elts[0].id] = key
            self.bind(target.elts[1], _Sym(ast.Subscript(base.e, key.e, ast.Load())), fr, node)
        elif how in ('elements', 'keys') and isinstance(target, ast.Name):
            key = keysym(target.id)
            fr.env[target.id] = key
        else:
            raise _Undecidable('the target of a loop over a symbol')
        self.loops.append({'over': over, 'how': how, 'key': key.text, 'node': node, 'prime': prime, 'member': member})
        return key

    def forget_iteration(self, s, fr, key):
        """after a loop over a symbol: a local the body bound to something of the generic element holds, from here on,
        what the *last* iteration left - which is not the generic element of a later loop"""
        bound = {x.id for b in s.body for x in ast.walk(b) if isinstance(x, ast.Name) and isinstance(x.ctx, ast.Store)}
        bound |= {x.id for x in ast.walk(s.target) if isinstance(x, ast.Name)}
        for n in bound:
            f = fr.find(n)
            if f is None or not isinstance(f.env[n], (_Sym, _Lin)):
                continue
            try:
                e = _pe_ast(f.env[n])
            except _Undecidable:
                continue
            if any(isinstance(x, ast.Name) and x.id == key.text for x in ast.walk(e)):
                f.env[n] = _Sym(ast.Name(f'{n}_left_by_the_last_iteration', ast.Load()))

    def s_For(self, s, fr):
        it = self.iterable(self.eval(s.iter, fr))
        if isinstance(it, (_Sym, _Lin)):
            if s.orelse:
                raise _Undecidable('for/else over a symbol')
            rounds = [True, False] if self.pe.prime else [False]
            keys = []
            for prime in rounds:
                key = self.generic_bind(s.target, it, fr, s, prime)
                member = self.loops[-1]['member']
                old = self.nofork
                self.nofork = old or (self.pe.prime and not prime)
                try:
                    if member is None or self.truth(_Sym(ast.Compare(key.e, [ast.In()], [ast.parse(member, mode='eval').body]))):
                        self.block(s.body, fr)
                except _Cont:
                    pass
                except _Brk:
                    raise _Undecidable('break out of a loop over a symbol')
                except _Ret:
                    raise _Undecidable('return out of a loop over a symbol')
                finally:
                    self.nofork = old
                keys.append(key)
            for key in keys if self.pe.keyed else ():
                self.forget_iteration(s, fr, key)
            return
        broke = False
        for item in self.sequence(it):
            self.bind(s.target, item, fr, s)
            try:
                self.block(s.body, fr)
            except _Cont:
                continue
            except _Brk:
                broke = True
                break
        if not broke:
            self.block(s.orelse, fr)


_ANCHORS = ('get_trajectory_emissions', 'get_LTO_emissions', 'get_APU_emissions', 'get_GSE_emissions', 'get_lifecycle_emissions',
            'sum_total_emissions')
_CO2_ON = 'Species.CO2 in config.emissions.enabled_species'
_LC_ON = 'config.emissions.lifecycle_enabled'


def _explore(ctx, rule, fi, **kw):
    try:
        return [p for p in _PE(ctx.prog, **kw).explore(fi) if p.outcome[0] == 'return']
    except _Undecidable as e:
        ctx.undecided(rule, fi, f'{fi.name}(…) followed path by path', f'cannot follow the function: {e}')


def _when(path, texts=None, skip=()):
    """the tests of a path (those in `texts`, or all) as words"""
    parts = [f'`{path.show(t)}` is {"true" if v else "false"}' for t, v in path.order if (texts is None or t in texts) and t not in skip]
    return ' and '.join(parts) if parts else 'always'


def _strip_float(v):
    while isinstance(v, _Sym) and isinstance(v.e, ast.Call) and call_name(v.e) == 'float' and len(v.e.args) == 1 and not v.e.keywords:
        v = _Sym(v.e.args[0])
    return v


def _component_of(path, a):
    """(reported fuel, index map, producer) of the component whose `.emissions` the value a is: `<c>.emissions` of a
    symbol c (producer = the repository function whose result c is, when it is one), or the amounts held by a record
    that also has a fuel_burn field (producer 'empty' while those amounts are a new, unwritten, empty map).  None when a
    is nothing of the kind."""
    if isinstance(a, _Sym) and isinstance(a.e, ast.Attribute) and a.e.attr == 'emissions' and a.owner is None:
        base = a.e.value
        prod = next((c for c in path.calls if c.text == norm(base)), None)
        return (_Sym(ast.Attribute(base, 'fuel_burn', ast.Load())), _Sym(ast.Attribute(base, 'indices', ast.Load())),
                prod.callee.name if prod is not None and prod.callee is not None else None)
    if isinstance(a, _Sym) and a.owner is not None and a.owner[1] == 'emissions' and 'fuel_burn' in a.owner[0].fields:
        rec = a.owner[0]
        untouched = a.empty and not any(m.obj is a for m in path.muts)
        return rec.fields['fuel_burn'], rec.fields.get('indices'), 'empty' if untouched else None
    return None


def _same(path, a, b):
    """one value: the same object, or symbols with one canonical text (two new empty maps only while nothing was written
    into either: then they are equal by content, which is what the reported parts are compared by)"""
    if a is b:
        return True
    if isinstance(a, (_Sym, _Lin)) and isinstance(b, (_Sym, _Lin)):
        if norm(_pe_ast(a)) != norm(_pe_ast(b)):
            return False
        return not any(getattr(x, 'empty', False) and any(m.obj is x for m in path.muts) for x in (a, b))
    if isinstance(a, _PE_CONST) and isinstance(b, _PE_CONST):
        return a == b
    return False


def _inventory(ctx):
    """compute_emissions followed path by path: per returning path the Emissions record it returns, the call of
    sum_total_emissions behind its totals, and per summed source the component it belongs to"""
    if 'inv' in _INV_CACHE and _INV_CACHE['inv'][0] is ctx:
        return _INV_CACHE['inv'][1]
    prog = ctx.prog
    m = prog.module(EM)
    ce, st = m.func('compute_emissions'), m.func('sum_total_emissions')
    out = []
    for path in _explore(ctx, 'C01-R1', ce, opaque=_ANCHORS):
        ret = path.outcome[1]
        if not (isinstance(ret, _Rec) and ret.cls.name == 'Emissions'):
            ctx.undecided('C01-R1', ce, 'return Emissions(…)', f'a path returns `{path.show(ret) if ret is not None else None}`, not an Emissions record')
        tot = ret.fields.get('total_emissions')
        out.append({'path': path, 'ret': ret, 'tot': tot, 'sum': isinstance(tot, _Sym) and tot.callee is not None and tot.callee.node is st.node})
    _INV_CACHE['inv'] = (ctx, (ce, st, out))
    return ce, st, out


_INV_CACHE = {}


def rule_sum(ctx):
    ce, st, inv = _inventory(ctx)
    params = st.params
    # ---- the call site: every source parameter receives the amounts of its own component, the same maps are reported
    line_of = lambda rec, k: next((kw_.value.lineno for kw_ in getattr(getattr(rec, 'node', None), 'keywords', []) if kw_.arg == k),
                                  getattr(getattr(rec, 'node', None), 'lineno', ce.node.lineno))
    bad, nonempty, unknown, fbad = {}, {p: [] for p in params}, set(), {}

    def arg_line(tot, p):
        node = getattr(tot, 'node', None)
        return next((k.value.lineno for k in getattr(node, 'keywords', []) if k.arg == p), getattr(node, 'lineno', ce.node.lineno))
    for r in inv:
        path, ret, tot = r['path'], r['ret'], r['tot']
        if not r['sum']:
            bad.setdefault(('Emissions.total_emissions', f'field `total_emissions` reports `{path.show(tot)}`, which is not the result of '
                            'sum_total_emissions over the components'), line_of(ret, 'total_emissions'))
            continue
        for p in params:
            a = tot.args.get(p)
            if a is None:
                bad.setdefault((f'sum_total_emissions({p}=…)', f'source `{p}` is not passed to the sum: its amounts are missing from every total'),
                               arg_line(tot, p))
                continue
            comp = _component_of(path, a)
            if comp is None:
                bad.setdefault((f'{p}={path.show(a)}', f'parameter `{p}` receives `{path.show(a)}`, which is not the amount map of a component'),
                               arg_line(tot, p))
                continue
            fuel, idx, prod = comp
            r.setdefault('comps', {})[p] = comp
            if prod != 'empty':
                nonempty[p].append(path)
            if prod is None:
                unknown.add(p)
            if prod not in (None, 'empty') and prod.lower() != f'get_{p}_emissions'.lower() and prod.lower().startswith('get_'):
                bad.setdefault((f'{p}={path.show(a)}', f'parameter `{p}` receives `{path.show(a)}`, the amounts produced by {prod}'), arg_line(tot, p))
            for fld, want in ((f'{p}_emissions', a), (f'{p}_indices', idx)):
                if fld in ret.fields and want is not None and not _same(path, ret.fields[fld], want):
                    got_empty = bool(getattr(ret.fields[fld], 'empty', False))
                    if fld in fbad and (got_empty or not fbad[fld][3]):
                        continue
                    fbad[fld] = (f'Emissions.{fld} = {path.show(ret.fields[fld])}',
                                 f'field `{fld}` reports `{path.show(ret.fields[fld])}` while the amounts summed as `{p}` are `{path.show(a)}`'
                                 + (f' (indices `{path.show(idx)}`)' if fld.endswith('indices') else '')
                                 + ': the reported parts are not the parts of the total', line_of(ret, fld), got_empty)
    for construct, why, line, _e in fbad.values():
        bad.setdefault((construct, why), line)
    for (construct, why), line in bad.items():
        ctx.ob('C01-R1', ce, construct, False, why, line=line)
    _INV_CACHE['miswired'] = bool(bad)
    if not bad:
        ctx.ob('C01-R1', ce, f'sum_total_emissions({", ".join(params)}) and the Emissions fields', True,
               f'on each of {len(inv)} path(s) every source parameter receives the amount map of its own component and the record reports '
               'those very maps (and that component\'s indices)')
    ctx.floor('C01-R1', len(params), 4, 'sources summed')
    # ---- the switches that decide whether a source can have amounts at all
    cfg = {}
    for p in params:
        atoms = {t for r in inv for t in r['path'].decisions if 'config.emissions' in t}
        cfg[p] = {t for t in atoms if nonempty[p] and all(path.decisions.get(t) is True for path in nonempty[p])}
        if p in unknown or bad:
            cfg[p] = None           # made by something that is not followed: any configuration switch may be what gates it
    # ---- the life-cycle adjustment
    lc_bad = {}
    n_adj = 0
    for r in inv:
        if not r['sum']:
            continue
        path, ret, tot = r['path'], r['ret'], r['tot']
        srcs = [a for a in tot.args.values() if isinstance(a, _Sym)]
        for mt in path.muts:
            if any(mt.obj is a or (not a.empty and mt.obj.text == a.text) for a in srcs):
                lc_bad.setdefault((norm(mt.node)[:60], f'the amounts of a component (`{path.show(mt.obj)}`) are changed in compute_emissions after their '
                                   'producer formed them as index × fuel'), mt.node.lineno)
        adj = [mt for mt in path.muts if mt.obj is tot]
        total_adj = 0
        for mt in adj:
            if mt.op == '+=' and isinstance(mt.key, _Sym) and mt.key.text == 'Species.CO2':
                total_adj = _lin_add(total_adj, mt.value)
            else:
                lc_bad.setdefault((norm(mt.node)[:60], 'totals are modified after the sum other than by adding the life-cycle adjustment to CO2'),
                                  mt.node.lineno)
        rep = ret.fields.get('lifecycle_co2')
        rep_l, adj_l = _lin_of(rep), _lin_of(total_adj)
        line = adj[0].node.lineno if adj else line_of(ret, 'lifecycle_co2')
        if rep_l is None or adj_l is None:
            ctx.undecided('C01-R1', ce, 'life-cycle adjustment', f'cannot compare `{path.show(rep)}` with what is added to the CO2 total')
        if rep_l.coefs() != adj_l.coefs() or (not rep_l.terms and rep_l.const != adj_l.const):
            lc_bad.setdefault(('lifecycle_co2 vs. total[CO2]', f'when {_when(path, (_CO2_ON, _LC_ON))} the record reports lifecycle_co2 = '
                               f'`{path.show(rep)}` but the CO2 total is adjusted by `{path.show(total_adj)}`: total CO2 ≠ parts + reported '
                               'life-cycle adjustment'), line)
        applied = bool(adj_l.terms) or adj_l.const != 0
        on = path.decisions.get(_CO2_ON) is True and path.decisions.get(_LC_ON) is True
        n_adj += applied
        if applied != on:
            lc_bad.setdefault(('life-cycle adjustment under its switches', (f'the adjustment is applied when {_when(path, (_CO2_ON, _LC_ON))}' if applied
                               else 'the adjustment is not applied although CO2 is enabled and the life-cycle switch is on')
                               + ' (it belongs to the paths on which CO2 is an enabled species and the life-cycle switch is on)'), line)
    for (construct, why), line in lc_bad.items():
        ctx.ob('C01-R1', ce, construct, False, why, line=line)
    if not lc_bad:
        ctx.ob('C01-R1', ce, 'only CO2 gets the life-cycle adjustment, and it is reported', n_adj > 0,
               'total[CO2] += x with the same x reported as lifecycle_co2, exactly on the paths with the CO2 and life-cycle switches on'
               if n_adj else 'no path applies the life-cycle adjustment')
    # ---- sum_total_emissions itself, path by path
    _rule_sum_function(ctx, st, cfg)
    return {}, None


def _lin_of(v):
    if v is None:
        return _Lin([], 0)
    return _pe_lin(_strip_float(v) if isinstance(v, _Sym) else v)


def _lin_add(a, b):
    la, lb = _lin_of(a), _lin_of(b)
    if la is None or lb is None:
        return _Sym(ast.BinOp(_pe_ast(a), ast.Add(), _pe_ast(b)))
    return _Lin(la.terms + lb.terms, la.const + lb.const)


def _final_entries(path, res):
    """{key class: value} - what the map `res` holds at the end of the path: ('each', <what the loop ranges over>, primed)
    for a store under the variable of a loop over a symbol, ('const', text) otherwise.  A constructor call that copies
    one map is looked through."""
    chain = [res]
    while True:
        x = chain[-1]
        a = x.args.get('*') if isinstance(x.args, dict) else None
        if x.callee is None and a and len(a) == 1 and len(x.args) == 1 and isinstance(a[0], _Sym) and a[0].fresh \
                and (x.fname or '')[:1].isupper() or (x.callee is None and a and len(a) == 1 and len(x.args) == 1
                                                     and isinstance(a[0], _Sym) and a[0].fresh and x.fname == 'dict'):
            chain.append(a[0])
        else:
            break
    keys = {l_['key']: ('each', l_['over'], l_['prime']) for l_ in path.loops}
    state = {}
    for obj in reversed(chain):
        for mt in path.muts:
            if mt.obj is not obj:
                continue
            if mt.op in ('=', '+=', '-=') and isinstance(mt.key, (_Sym,) + _PE_CONST):
                kc = keys.get(mt.key.text, ('const', mt.key.text)) if isinstance(mt.key, _Sym) else ('const', repr(mt.key))
                if mt.op == '=':
                    state[kc] = mt.value
                else:
                    cur = state.get(kc, _Sym(ast.Subscript(obj.e, _pe_ast(mt.key), ast.Load())))
                    state[kc] = _pe_binop(cur, ast.Add() if mt.op == '+=' else ast.Sub(), mt.value)
            else:
                raise _Undecidable(f'the result is changed by `{norm(mt.node)[:50]}`')
    return state


def _reduction(e, base):
    """how the source's value for the species (`base`) enters: 'itself', 'sum' (np.sum / sum / math.fsum of it),
    'method-sum' (its own .sum()), 'sum-of-values' (sum over .values() / .as_array()); None for anything else"""
    while isinstance(e, ast.Call) and call_name(e) == 'float' and len(e.args) == 1 and not e.keywords:
        e = e.args[0]
    if norm(e) == base:
        return 'itself'
    inner = None
    if isinstance(e, ast.Call) and call_name(e) in ('np.sum', 'numpy.sum', 'sum', 'math.fsum', 'fsum') and len(e.args) == 1 and not e.keywords:
        inner, how = e.args[0], 'sum'
    elif isinstance(e, ast.Call) and isinstance(e.func, ast.Attribute) and e.func.attr == 'sum' and not e.args and not e.keywords:
        inner, how = e.func.value, 'method-sum'
    if inner is None:
        return None
    if norm(inner) == base:
        return how
    while isinstance(inner, ast.Call) and call_name(inner) in ('list', 'tuple') and len(inner.args) == 1:
        inner = inner.args[0]
    if isinstance(inner, ast.Call) and isinstance(inner.func, ast.Attribute) and inner.func.attr in ('values', 'as_array') \
            and not inner.args and norm(inner.func.value) == base:
        return 'sum-of-values'
    return None


def _key_enum(prog, module, ann):
    """name of the repository enum whose members are the keys of a mapping declared as `ann`: `dict[E, …]` /
    `Mapping[E, …]`, or a repository mapping class (`SpeciesValues[float]`) whose own __getitem__ / __setitem__ /
    __contains__ declares its key as an E.  None when the declaration does not say."""
    def enum_name(e):
        if not isinstance(e, ast.Name):
            return None
        ci = prog.resolve_name(module, e.id)
        return e.id if hasattr(ci, 'mro') and any('Enum' in b for c in ci.mro() for b in c.base_exprs) else None

    if isinstance(ann, ast.Constant) and isinstance(ann.value, str):
        try:
            ann = ast.parse(ann.value, mode='eval').body
        except SyntaxError:
            return None
    if not isinstance(ann, ast.Subscript):
        return None
    head = ann.value
    if norm(head).split('.')[-1] in ('dict', 'Dict', 'Mapping', 'MutableMapping', 'OrderedDict', 'defaultdict'):
        return enum_name(ann.slice.elts[0]) if isinstance(ann.slice, ast.Tuple) and ann.slice.elts else None
    ci = prog.resolve_name(module, head.id) if isinstance(head, ast.Name) else None
    if not hasattr(ci, 'find_method'):
        return None
    found = set()
    for mname in ('__getitem__', '__setitem__', '__contains__'):
        meth = ci.find_method(mname)
        args = meth.node.args.args if meth is not None else []
        if len(args) >= 2 and args[1].annotation is not None:
            ci2 = prog.resolve_name(meth.module, norm(args[1].annotation))
            if hasattr(ci2, 'mro') and any('Enum' in b for c in ci2.mro() for b in c.base_exprs):
                found.add(ci2.name)
    return found.pop() if len(found) == 1 else None


def _rule_sum_function(ctx, st, cfg):
    import re
    params = st.params
    shape_of = {}
    keyed = {}
    for arg in st.node.args.posonlyargs + st.node.args.args + st.node.args.kwonlyargs:
        en = _key_enum(ctx.prog, st.module, arg.annotation) if arg.annotation is not None else None
        if en is not None:
            keyed[arg.arg] = en
    for arg in st.node.args.posonlyargs + st.node.args.args + st.node.args.kwonlyargs:
        an = norm(arg.annotation) if arg.annotation is not None else ''
        shape_of[arg.arg] = 'array' if 'ndarray' in an else 'modes' if 'ThrustModeValues' in an else 'scalar' if 'float' in an else None
    fallback = {'trajectory': 'array', 'lto': 'modes', 'apu': 'scalar', 'gse': 'scalar'}
    allowed = {'array': {'sum', 'method-sum'}, 'modes': {'method-sum', 'sum-of-values'}, 'scalar': {'itself'}}
    paths = _explore(ctx, 'C01-R1', st, opaque=(), keyed=keyed)
    if not paths:
        ctx.undecided('C01-R1', st, 'sum_total_emissions', 'no path returns')
    viol = {}            # (construct, kind) -> (score, why, line)

    def report(construct, kind, score, why, line):
        k = (construct, kind)
        if k not in viol or score < viol[k][0]:
            viol[k] = (score, why, line)

    n_each, over_seen, judged, left, status = 0, set(), {p: 0 for p in params}, {}, {p: [] for p in params}
    for path in paths:
        res = path.outcome[1]
        if not (isinstance(res, _Sym) and res.fresh):
            ctx.undecided('C01-R1', st, 'return <totals>', f'a path returns `{path.show(res) if res is not None else None}`, not a map built here')
        try:
            state = _final_entries(path, res)
        except _Undecidable as e:
            ctx.undecided('C01-R1', st, 'return <totals>', str(e))
        over_seen |= {l_['over'] for l_ in path.loops}
        main = [(kc, v) for kc, v in state.items() if kc[0] == 'each' and kc[1] == 'Species']
        for kc, v in state.items():
            if kc[0] != 'each':
                report(f'<totals>[{kc[1]}]', 'const', 0, f'the total of `{kc[1]}` is written separately (`{path.show(v)}`) instead of being the sum of '
                       'the sources', st.node.lineno)
        loop = next((l_ for l_ in path.loops if l_['over'] == 'Species' and not l_['prime']), None)
        if loop is None:
            continue
        kv, line = loop['key'], loop['node'].lineno
        memb = {p: path.decisions.get(f'{kv} in {p}') for p in params}
        own = {f'{kv} in {p}' for p in params}
        if not main:
            report('<totals>[species]', 'none', len(path.order), f'no total is stored for a species when {_when(path)}: the inventory reports parts '
                   'for it but no total', line)
            continue
        n_each += 1
        v = main[0][1]
        lin = _lin_of(v)
        if lin is None:
            ctx.undecided('C01-R1', st, f'<totals>[{kv}]', f'the stored total `{path.show(v)}` is not a sum')
        seen = {p: [] for p in params}
        for c, s in lin.terms:
            src = [p for p in params if re.search(rf'(?<![\w.]){re.escape(p)}\[{re.escape(kv)}\]', s.text)]
            if len(src) == 1:
                seen[src[0]].append((c, s))
            elif re.search(r'(?<![\w.])other_' + re.escape(kv) + r'\b', s.text):
                report(f'<totals>[{kv}]', 'leak', 0, f'the total of one species contains `{s.text}`, an amount of another species: the accumulator is '
                       'not reset for each species (totals leak between species)', line)
            else:
                report(f'extra term {path.show(s)}', 'extra', 0, f'`{path.show(s)}` is added to the species total: something other than the amounts '
                       f'of the four sources for that species', line)
        if lin.const != 0:
            report(f'<totals>[{kv}] starts from {lin.const}', 'const0', 0, f'the species total starts from {lin.const}, not from zero', line)
        for p in params:
            gates = cfg.get(p) if cfg.get(p) is not None else {t for t in path.decisions if t.startswith('config.emissions.')}
            off = [t for t in gates if path.decisions.get(t) is False]
            terms = seen[p]
            n = sum(c for c, _s in terms)
            blame = [(t, val) for t, val in path.order if t != f'{kv} in {p}' and t not in gates]
            blame.sort(key=lambda tv: (tv[0] not in own, tv[0].startswith('config.')))       # dropped in this order
            if len(terms) > 1 or n not in (0, 1):
                report(f'source {p} enters the total', 'count', len(path.order), f'source `{p}` is added {n} times to the species total '
                       f'(when {_when(path)})', line)
                continue
            if terms:
                base = f'{p}[{kv}]'
                red = _reduction(terms[0][1].e, base)
                shape = shape_of.get(p) or fallback.get(p)
                if red is None or red not in allowed.get(shape, ()):
                    report(f'{p} reduced by `{terms[0][1].text}`', 'shape', 0, f'a per-species {shape} value must enter as '
                           f'{sorted(allowed.get(shape, ()))}, not as `{terms[0][1].text[:50]}`', line)
                if memb[p] is not True:
                    report(f'{p} read only when it has the species', 'memb', len(path.order),
                           f'{base} is read without a membership test (when {_when(path)})', line)
                judged[p] += 1
                status[p].append((path, 'in', line))
            elif memb[p] is not False and not off:
                status[p].append((path, 'out', line))
                score = len(path.order)
                if p not in left or score < left[p][0]:
                    left[p] = (score, blame, line, path)
            else:
                judged[p] += 1
    by_words = {}
    for p, (_score, blame, line, path) in left.items():
        # the fewest tests that already decide it: a test is dropped from the blame while every path that agrees on the
        # remaining ones (and on which the source has to be there) still leaves the source out
        blame = list(blame)
        for t, val in list(blame):
            rest = [(t2, v2) for t2, v2 in blame if t2 != t]
            agree = [(q, how) for q, how, _l in status[p] if all(q.decisions.get(t2) == v2 for t2, v2 in rest)]
            if agree and all(how == 'out' for _q, how in agree):
                blame = rest
        if not any(how == 'in' for _q, how, _l in status[p]):
            words = 'on every path (it is never added)'
        else:
            words = 'when ' + (' and '.join(f'`{t}` is {"true" if val else "false"}' for t, val in blame) or 'always')
        by_words.setdefault(words, []).append((p, line))
    for words, ps in by_words.items():
        names = [p for p, _l in ps]
        sw = {p: sorted(cfg.get(p) or ()) for p in names}
        computed = '; '.join(f'`{p}` is computed (and its fuel counted) ' + (f'under {sw[p]}' if sw[p] else 'always') for p in names)
        report(f'{", ".join(names)} added for every species {"it has" if len(names) == 1 else "they have"}', 'left-out', 0,
               f'source{"s" if len(names) > 1 else ""} {", ".join(f"`{p}`" for p in names)} {"are" if len(names) > 1 else "is"} left out of the '
               f'species total {words}, although {computed}: a species such a source has then keeps its part but the total does not '
               'contain it - total ≠ sum of the parts', ps[0][1])
    ok = n_each > 0
    ctx.ob('C01-R1', st, f'totals computed for every member of {"Species" if ok else (sorted(over_seen) or ["?"])[0]}', ok,
           'whole Species enum' if ok else 'the total is not formed for every species', line=st.node.lineno)
    if not ok:
        return
    for (construct, kind), (_score, why, line) in sorted(viol.items(), key=lambda kv_: (kv_[1][2], kv_[0])):
        ctx.ob('C01-R1', st, construct, False, why, line=line)
    for p in params:
        if p not in left and not any(c.startswith(f'source {p} ') or c.startswith(f'{p} re') for c, _k in viol):
            sw = sorted(cfg.get(p) or ())
            ctx.ob('C01-R1', st, f'source {p} enters the total', True,
                   f'on {len(paths)} paths: added exactly once, reduced as its shape demands, exactly when the species is a key of `{p}`'
                   + (f' (and {sw} - the switch under which it is computed - is on)' if sw else ''))
    # the accumulator is per species: a second generic iteration must not see anything of the first
    for path in _explore(ctx, 'C01-R1', st, opaque=(), prime=True, keyed=keyed):
        res = path.outcome[1]
        try:
            state = _final_entries(path, res) if isinstance(res, _Sym) else {}
        except _Undecidable:
            state = {}
        leak = None
        for kc, v in state.items():
            if kc[0] == 'each' and kc[1] == 'Species' and not kc[2]:
                lin = _lin_of(v)
                for _c, s in (lin.terms if lin is not None else []):
                    if 'other_' in s.text:
                        leak = s.text
        if leak:
            ctx.ob('C01-R1', st, 'accumulator reset per species', False, f'the total of one species contains `{leak}`, an amount of the species '
                   'handled before it: the accumulator is not reset for each species (totals leak between species)', line=st.node.lineno)
            break
    else:
        ctx.ob('C01-R1', st, 'accumulator reset per species', True, 'nothing of one generic iteration reaches the total of the next')


def _rule_total_fuel(ctx):
    """R2: on every path the reported total fuel is the sum of the reported fuel of exactly the components whose amounts
    are summed."""
    ce, st, inv = _inventory(ctx)
    if _INV_CACHE.get('miswired'):
        ctx.note('C01-R2 not judged: the sources of the sum are not the components (see C01-R1)')
        return inv
    bad, n, count = {}, 0, {}
    for r in inv:
        path, ret = r['path'], r['ret']
        comps = r.get('comps', {})
        if not r['sum'] or len(comps) < len(st.params):
            continue
        n += 1
        tf = ret.fields.get('total_fuel_burn')
        got = _lin_of(tf)
        want = _Lin([], 0)
        for p in st.params:
            f = _lin_of(comps[p][0])
            if f is None:
                ctx.undecided('C01-R2', ce, f'{p}.fuel_burn', f'the reported fuel `{path.show(comps[p][0])}` of `{p}` is not a number or a symbol')
            want = _Lin(want.terms + f.terms, want.const + f.const)
        if got is None:
            ctx.undecided('C01-R2', ce, 'Emissions.total_fuel_burn', f'`{path.show(tf)}` is not a sum')
        g, w = got.coefs(), want.coefs()
        if g == w and abs(got.const - want.const) < 1e-300:
            continue
        why = []
        for p in st.params:
            for t, c in _lin_of(comps[p][0]).coefs().items():
                if g.get(t, 0) != w[t]:
                    why.append(f'the fuel of `{p}` (`{path.show(t)}`) is counted {g.get(t, 0)} time(s) although its emissions are summed once')
        foreign = _Lin([(c, s) for c, s in got.terms if s.text not in w], 0)
        if foreign.coefs():
            why.append(f'`{path.show(foreign)}` is added, which is not the reported fuel of any summed component')
        if got.const != want.const:
            why.append(f'a constant {got.const - want.const} is added')
        line = next((kw_.value.lineno for kw_ in getattr(getattr(ret, 'node', None), 'keywords', []) if kw_.arg == 'total_fuel_burn'),
                    getattr(getattr(ret, 'node', None), 'lineno', ce.node.lineno))
        key = '; '.join(why)
        count[key] = count.get(key, 0) + 1
        if key not in bad or len(path.order) < bad[key][0]:
            bad[key] = (len(path.order), path, tf, want, line)
    for key, (_n, path, tf, want, line) in bad.items():
        where = 'on every path' if count[key] == n else f'on {count[key]} of {n} paths, e.g. when {_when(path)}'
        ctx.ob('C01-R2', ce, f'Emissions.total_fuel_burn = {path.show(tf)}'[:110], False,
               f'total fuel burn is `{path.show(tf)}` but the components whose emissions are summed report `{path.show(want)}` '
               f'({where}): {key} - total_fuel_burn ≠ fuel burned by exactly the summed components', line=line)
    if not bad:
        ctx.ob('C01-R2', ce, 'Emissions.total_fuel_burn = Σ fuel_burn of the summed components', n > 0,
               f'on each of {n} path(s) the reported total is the sum of the reported fuel of trajectory, LTO, APU and GSE - each once, an '
               'unset component counting zero' if n else 'no path could be judged')
    return inv


def rule_fuel(ctx):
    prog = ctx.prog
    m = prog.module(EM)
    ce = m.func('compute_emissions')
    _rule_total_fuel(ctx)
    # the array handed to the trajectory producer as its per-segment fuel - under whatever local name(s) - is
    # zeros_like(fuel_mass) with exactly one store, [1:] = fuel_mass[:-1] - fuel_mass[1:]
    tc = next((c for c in calls_in(ce.node) if call_name(c) == 'get_trajectory_emissions'), None)
    tfi = prog.func(TR, 'get_trajectory_emissions')
    t_fuel = _producer_names(ctx, tfi, record=False)[3]
    arg = None
    if tc is not None and t_fuel in tfi.params:
        i = tfi.params.index(t_fuel)
        arg = kwarg(tc, t_fuel) or (tc.args[i] if i < len(tc.args) and not any(isinstance(a, ast.Starred) for a in tc.args) else None)
    ok = arg is not None
    ctx.ob('C01-R3', ce, 'trajectory producer receives that per-segment fuel', ok,
           f'`{norm(arg)}` is passed as `{t_fuel}`, the array that multiplies the indices' if ok else
           'cannot find what is passed as the per-segment fuel', nontrivial=False)
    # ... and it is the array the record reports as fuel_burn_per_segment (path by path, whatever it is called)
    _ce, _st, inv = _inventory(ctx)
    bad_seg, n_seg = None, 0
    for r in inv:
        path, ret = r['path'], r['ret']
        call = next((c for c in path.calls if c.callee is not None and c.callee.node is tfi.node), None)
        given = call.args.get(t_fuel) if call is not None and isinstance(call.args, dict) else None
        if given is None or 'fuel_burn_per_segment' not in ret.fields:
            continue
        n_seg += 1
        if not _same(path, ret.fields['fuel_burn_per_segment'], given) and bad_seg is None:
            bad_seg = (path.show(ret.fields['fuel_burn_per_segment']), path.show(given),
                       next((k.value.lineno for k in getattr(getattr(ret, 'node', None), 'keywords', []) if k.arg == 'fuel_burn_per_segment'), ce.node.lineno))
    if n_seg:
        ctx.ob('C01-R3', ce, 'Emissions.fuel_burn_per_segment is the array the trajectory amounts were formed with', bad_seg is None,
               f'the array passed as `{t_fuel}` on each of {n_seg} path(s)' if bad_seg is None else
               f'field `fuel_burn_per_segment` reports `{bad_seg[0]}` while the trajectory amounts are the indices times `{bad_seg[1]}`: '
               'per-segment amount ≠ index × reported segment fuel', line=(bad_seg[2] if bad_seg else ce.node.lineno), nontrivial=False)
    chain = _stands_for(ce.node, arg) if arg is not None else []
    names = {x.id for x in chain if isinstance(x, ast.Name)}

    def mass(e):
        return any(norm(x) == 'traj.fuel_mass' for x in _stands_for(ce.node, e))

    init = chain[-1] if chain else None
    ok = isinstance(init, ast.Call) and call_name(init) in ('np.zeros_like', 'numpy.zeros_like') and len(init.args) == 1 and mass(init.args[0])
    fb = [(t, s) for t, s, how in stores_to(ce.node) if isinstance(t, ast.Subscript) and isinstance(t.value, ast.Name) and t.value.id in names]
    if ok and len(fb) == 1 and isinstance(fb[0][1], ast.Assign):
        t, s = fb[0]
        v = s.value
        diff = isinstance(v, ast.BinOp) and isinstance(v.op, ast.Sub) \
            and isinstance(v.left, ast.Subscript) and norm(v.left.slice) == ':-1' and mass(v.left.value) \
            and isinstance(v.right, ast.Subscript) and norm(v.right.slice) == '1:' and mass(v.right.value)
        # the same differences as -np.diff(fuel_mass)
        neg = isinstance(v, ast.UnaryOp) and isinstance(v.op, ast.USub) and isinstance(v.operand, ast.Call) \
            and call_name(v.operand) in ('np.diff', 'numpy.diff') and len(v.operand.args) == 1 and not v.operand.keywords and mass(v.operand.args[0])
        ok = norm(t.slice) == '1:' and (diff or neg)
    else:
        ok = False
    ctx.ob('C01-R3', ce, 'per-segment fuel = fuel-mass differences, booked at the segment end', ok,
           'fuel_burn[1:] = fuel_mass[:-1] - fuel_mass[1:], fuel_burn[0] = 0' if ok else 'per-segment fuel burn definition changed',
           line=(fb[0][1].lineno if fb else ce.node.lineno))


def _stands_for(fn, e):
    """e, then what it stands for through single-definition locals (outermost first)"""
    out, seen = [e], set()
    while isinstance(e, ast.Name) and e.id not in seen:
        seen.add(e.id)
        v = single_def_value(fn, e.id)
        if v is None:
            break
        out.append(v)
        e = v
    return out


def _writes_map(owner, m, before):
    """a statement of `owner` that stores into mapping m (element store / update / setdefault) above line `before`"""
    for t, st, how in stores_to(owner):
        if isinstance(t, ast.Subscript) and norm(t.value) == m and st.lineno < before:
            return st
    for c in calls_in(owner):
        if isinstance(c.func, ast.Attribute) and norm(c.func.value) == m and c.func.attr in ('update', 'setdefault', 'pop', 'clear') \
                and c.lineno < before:
            return stmt_of(c)
    return None


def _element_of(fn, e, at):
    """(mapping text, key text or None) when expression e, evaluated at node `at`, is an element of a mapping:
    `m[k]`; the value variable of a governing `for k, v in m.items()` / `for v in m.values()` (as long as the loop
    has not stored into m before `at`, which would make the variable stale); or a single-definition local that
    stands for one of those.  None otherwise."""
    for x in _stands_for(fn, e):
        if isinstance(x, ast.Subscript) and isinstance(x.value, (ast.Name, ast.Attribute)):
            return norm(x.value), norm(x.slice)
        if isinstance(x, ast.Name):
            for owner, tgt, it in enclosing_iterations(at):
                mi = map_iteration(tgt, it)
                if mi and mi[2] == x.id:
                    if isinstance(owner, ast.For) and _writes_map(owner, mi[0], getattr(at, 'lineno', 0)) is not None:
                        return None
                    return mi[0], mi[1]
    return None


def _loop_items(fn, it):
    """the expressions a `for v in it` walks when `it` is a literal collection - a tuple / list / set display written
    in place or reached through a single-definition local, or itertools.chain(a, b, …) (each argument then counts as
    the starred item `*a`); None for anything else"""
    for x in _stands_for(fn, it):
        if isinstance(x, (ast.Tuple, ast.List, ast.Set)):
            return list(x.elts)
        if isinstance(x, ast.Call) and call_name(x) in ('chain', 'itertools.chain') and not x.keywords:
            return [a if isinstance(a, ast.Starred) else ast.Starred(value=a, ctx=ast.Load()) for a in x.args]
    return None


def _denotations(fn, e, at, depth=0, name=False):
    """[(expression, node in whose context it is read)]: everything e may denote at node `at`, looking through
    single-definition locals and through loop variables that walk a literal collection (`for v in (a, b)`: v denotes
    a and b, each read in the context of the loop).  With name=True a chain of locals is followed to its last *name*
    (the object's own local name) instead of the expression that created it."""
    chain = _stands_for(fn, e)
    last = chain[-1]
    if name:
        last = next((x for x in reversed(chain) if isinstance(x, ast.Name)), last)
    if isinstance(last, ast.Name) and depth < 6:
        for owner, tgt, it in enclosing_iterations(at):
            if isinstance(tgt, ast.Name) and tgt.id == last.id:
                items = _loop_items(fn, it)
                if items is None:
                    break
                return [d for i in items for d in _denotations(fn, i, owner, depth + 1, name)]
    return [(last, at)]


def _elements_of(fn, e, at):
    """[(mapping text, key text or None), …]: every element of a mapping that expression e may be at node `at` -
    `m[k]`, the value variable of a governing `for k, v in m.items()` / `for v in m.values()` (not after the loop
    stored into m), a local standing for either, or the variable of a loop over a literal collection of such things
    (`for a in (m[k], n[k])`, `for a in (*m.values(), *n.values())`); the mapping itself may be the variable of a loop
    over a literal collection of mappings (`for m in (p, q): m[k]…`).  None when some possibility is no element of a
    mapping."""
    out = []
    for x, cx in _denotations(fn, e, at):
        maps, key = None, None
        if isinstance(x, ast.Starred):
            im = iterated_mapping(x.value)
            if im is None or im[1] != 'values':
                return None
            maps = im[0]
        elif isinstance(x, ast.Subscript) and isinstance(x.value, (ast.Name, ast.Attribute)):
            maps, key = x.value, norm(x.slice)
        elif isinstance(x, ast.Name):
            for owner, tgt, it in enclosing_iterations(cx):
                mi = map_iteration(tgt, it)
                if mi and mi[2] == x.id:
                    if isinstance(owner, ast.For) and _writes_map(owner, mi[0], getattr(at, 'lineno', 0)) is not None:
                        return None
                    maps, key, cx = iterated_mapping(it)[0], mi[1], owner
                    break
        if maps is None:
            return None
        out += [(norm(m), key) for m, _c in _denotations(fn, maps, cx, name=True)]
    return out


def _slice_alternatives(fn, sl, at, whole=()):
    """{(lower, upper), …} - canonical bounds of every slice the subscript `sl` may be at node `at`: `a:b`,
    slice(a, b), slice(b), np.s_[a:b], a local standing for one of those, or the variable of a loop over a literal
    collection of them.  A bound is None when it is absent / None / a lower 0 / an upper len(x) for x in `whole`;
    otherwise the text of what it stands for.  None when the subscript is anything else (a mask, an index array)."""
    def bound(e, cx, lower):
        if e is None:
            return None
        for x in _stands_for(fn, e):
            if isinstance(x, ast.Constant) and (x.value is None or (lower and x.value == 0 and not isinstance(x.value, bool))):
                return None
            if not lower and isinstance(x, ast.Call) and call_name(x) == 'len' and len(x.args) == 1 and norm(x.args[0]) in whole:
                return None
            if isinstance(x, ast.Name):
                td = tuple_def_component(fn, x.id)
                if td is not None and isinstance(td[0], (ast.Tuple, ast.List)) and td[1] < len(td[0].elts):
                    return bound(td[0].elts[td[1]], cx, lower)
            if isinstance(x, ast.Attribute) and x.attr in ('start', 'stop'):
                names = [y for y in _stands_for(fn, x.value) if isinstance(y, ast.Name)]
                return f'{names[-1].id}.{x.attr}' if names else norm(x)
            last = x
        return norm(last)

    out = set()
    for x, cx in ([(sl, at)] if isinstance(sl, ast.Slice) else _denotations(fn, sl, at)):
        if isinstance(x, ast.Subscript) and norm(x.value) in ('np.s_', 'numpy.s_', 'np.index_exp'):
            x = x.slice
        if isinstance(x, ast.Name):
            td = tuple_def_component(fn, x.id)
            if td is not None and isinstance(td[0], (ast.Tuple, ast.List)) and td[1] < len(td[0].elts):
                r = _slice_alternatives(fn, td[0].elts[td[1]], cx, whole)
                if r is None:
                    return None
                out |= r
                continue
        if isinstance(x, ast.Slice) and x.step is None:
            out.add((bound(x.lower, cx, True), bound(x.upper, cx, False)))
        elif isinstance(x, ast.Call) and call_name(x) == 'slice' and not x.keywords and 1 <= len(x.args) <= 2:
            lo, hi = (None, x.args[0]) if len(x.args) == 1 else x.args
            out.add((bound(lo, cx, True), bound(hi, cx, False)))
        else:
            return None
    return out


def _call_arg(callee, call, pname):
    """the argument of `call` bound to parameter pname of the resolved function callee (None when it cannot be told)"""
    if pname is None or any(isinstance(a, ast.Starred) for a in call.args) or any(k.arg is None for k in call.keywords):
        return None
    k = kwarg(call, pname)
    if k is not None:
        return k
    a = callee.node.args
    names = [p.arg for p in a.posonlyargs + a.args]
    if pname in names and names.index(pname) < len(call.args):
        return call.args[names.index(pname)]
    return None


def _product_operands(fn, v):
    """the two factors when v (through single-definition locals) is a product `a * b` / np.multiply(a, b)"""
    for x in _stands_for(fn, v):
        if isinstance(x, ast.BinOp):
            return (x.left, x.right) if isinstance(x.op, ast.Mult) else ()
        if isinstance(x, ast.Call) and call_name(x) in ('np.multiply', 'numpy.multiply') and len(x.args) == 2 and not x.keywords:
            return x.args[0], x.args[1]
    return None


def _amount_sites(fn, emis):
    """every place where amounts are put into the map `emis` under a *variable* key:
    (key expr, value expr, node whose context decides loops and guards, statement)"""
    out = []
    for t, s, how in stores_to(fn):
        if isinstance(t, ast.Subscript) and norm(t.value) == emis and isinstance(t.slice, ast.Name) and how in ('assign', 'ann') \
                and not (isinstance(s.value, ast.Constant)):
            out.append((t.slice, s.value, s, s))
    for c in calls_in(fn):
        comp = None
        if isinstance(c.func, ast.Attribute) and c.func.attr == 'update' and norm(c.func.value) == emis and len(c.args) == 1:
            comp = c.args[0]
        else:
            st = stmt_of(c)
            if isinstance(st, (ast.Assign, ast.AnnAssign)) and st.value is c and len(c.args) == 1 \
                    and any(isinstance(t, ast.Name) and t.id == emis for t in (st.targets if isinstance(st, ast.Assign) else [st.target])):
                comp = c.args[0]
        if isinstance(comp, ast.DictComp):
            out.append((comp.key, comp.value, comp.value, stmt_of(c)))
    for st in walk_no_nested(fn):
        if isinstance(st, ast.Assign) and isinstance(st.value, ast.DictComp) \
                and any(isinstance(t, ast.Name) and t.id == emis for t in st.targets):
            out.append((st.value.key, st.value.value, st.value.value, st))
    return sorted(out, key=lambda r: r[3].lineno)


def _producer(ctx, fi, emis, idx, fuel_var, ret_fuel_ok):
    """amount = emission index × component fuel, for every key of the index map.  Decided on content: the key ranges
    over the index map's own keys (`for k in idx` / `.keys()` / `for k, v in idx.items()` / a dict comprehension over
    any of those), the stored value is a product whose factors are the index map's element at that key (as
    `idx[k]`, the `.items()` value variable, or a local standing for either) and the component's fuel, and nothing
    (guard, comprehension filter, continue/break) lets a key of the index map go without an amount."""
    fn = fi.node
    label = f'{emis}[k] = {idx}[k] * {fuel_var} over the keys of {idx}'
    sites = _amount_sites(fn, emis)
    if not sites:
        ctx.undecided('C01-R3', fi, label, f'no statement that fills `{emis}` under a variable key was recognised')
    mult = []
    for key, val, at, st in sites:
        ops = _product_operands(fn, val)
        if ops is None:
            ctx.undecided('C01-R3', fi, label, f'`{norm(val)[:60]}` at line {st.lineno} is not recognisably a product')
        why = None
        it = next(((o, mi) for o, tg, itx in enclosing_iterations(at)
                   for mi in [map_iteration(tg, itx)] if mi and mi[1] == key.id), None) if isinstance(key, ast.Name) else None
        if it is None:
            why = f'the key `{norm(key)}` of line {st.lineno} does not range over the keys of a map'
        elif it[1][0] != idx:
            why = f'the amounts are formed for the keys of `{it[1][0]}`, not for the keys of the index map `{idx}`'
        elif len(ops) != 2:
            why = f'`{norm(val)[:60]}` is not a product'
        else:
            is_fuel = [any(isinstance(x, ast.Name) and x.id == fuel_var for x in _stands_for(fn, o)) for o in ops]
            is_elem = [_element_of(fn, o, at) == (idx, key.id) for o in ops]
            if not ((is_fuel[0] and is_elem[1]) or (is_fuel[1] and is_elem[0])):
                why = (f'`{norm(val)[:60]}` is not (index of that species) × `{fuel_var}`: factors '
                       f'{[norm(o)[:30] for o in ops]}')
        if why is None:
            owner = it[0]
            if guards_of(at, stop=owner):
                why = f'the amount is formed only under `{norm(guards_of(at, stop=owner)[0][0])[:50]}`: some species of the index map get no amount'
            elif isinstance(owner, ast.For) and any(isinstance(x, (ast.Continue, ast.Break)) and x.lineno < st.lineno for x in walk_no_nested(owner)):
                why = 'the loop can skip a key (continue/break) before its amount is formed'
        if why is None:
            mult.append(st)
        ctx.ob('C01-R3', fi, label, why is None,
               'amount = emission index × component fuel for every species of the index map' if why is None else
               f'amounts are not formed as index × component fuel over all keys of the index map: {why}', line=st.lineno)
    others = [s for t, s, how in stores_to(fn) if isinstance(t, ast.Subscript) and norm(t.value) == emis and s not in mult]
    return mult, others


def _zeroed_before_product(fn, s, els, mult, emis, idx):
    """the store `s` zeroes a window of the index map's element at the key of the running iteration (every element it
    may denote, `els`, is `idx[k]`), unconditionally, and the amount of that same key is formed afterwards in the same
    iteration as a product with that element (one of the verified amount sites `mult`; what counts is where the
    product is *evaluated*, not where it is stored): the amount is then masked over the same window by its factor - no
    store of its own is needed."""
    for key, val, at, st in _amount_sites(fn, emis):
        if st not in mult or not isinstance(key, ast.Name) or not els or any(e_ != (idx, key.id) for e_ in els):
            continue
        owner = next((o for o, tg, itx in enclosing_iterations(at) for mi in [map_iteration(tg, itx)] if mi and mi[1] == key.id), None)
        # the statement that evaluates the product (the store itself, or the definition of the local that is stored)
        e, ev = val, st
        while isinstance(e, ast.Name) and single_def_value(fn, e.id) is not None:
            e, ev = single_def_value(fn, e.id), local_defs(fn, e.id)[0]
        if isinstance(e, ast.Name) or not isinstance(owner, ast.For) or not is_within(s, owner) or not is_within(ev, owner) \
                or s.lineno >= ev.lineno:
            continue
        if guards_of(s, stop=owner) or guards_of(at, stop=owner) or guards_of(ev, stop=owner):
            continue
        inner = [o for o, _tg, _it in enclosing_iterations(s) if o is not owner and is_within(o, owner)]
        if any(_loop_items(fn, o.iter) is None for o in inner if isinstance(o, ast.For)) or any(not isinstance(o, ast.For) for o in inner):
            continue                    # a loop around the store other than one over a literal collection may run zero times
        if any(isinstance(x, (ast.Continue, ast.Break)) and x.lineno < st.lineno for x in walk_no_nested(owner)):
            continue
        return True
    return False


def _subset_fields(prog, fi):
    """field -> expression of the EmissionsSubset the producer returns (positional arguments mapped through the
    dataclass's own field order); None when the function does not end in one such return"""
    rets = [r for r in walk_no_nested(fi.node) if isinstance(r, ast.Return)]
    if len(rets) != 1 or not isinstance(rets[0].value, ast.Call) or call_name(rets[0].value).split('[')[0] != 'EmissionsSubset':
        return None
    order = list(prog.cls('emissions/types.py', 'EmissionsSubset').annotated_fields())
    c = rets[0].value
    out = {order[i]: a for i, a in enumerate(c.args) if i < len(order) and not isinstance(a, ast.Starred)}
    out.update({k.arg: k.value for k in c.keywords if k.arg})
    return out


def _fuel_source(fn, e):
    """(variable, how, slice expr or None): the local whose content the reported component fuel `e` is - the variable
    itself ('scalar'), or its sum `v.sum()` / `np.sum(v)` / `np.sum(v[s])` / `v[s].sum()` ('sum') - looking through
    single-definition locals and float()"""
    last = None
    for x in _stands_for(fn, e):
        while isinstance(x, ast.Call) and call_name(x) == 'float' and len(x.args) == 1:
            x = x.args[0]
        arg = None
        if isinstance(x, ast.Call) and call_name(x) in ('np.sum', 'numpy.sum', 'sum', 'np.nansum') and len(x.args) == 1 and not x.keywords:
            arg = x.args[0]
        elif isinstance(x, ast.Call) and isinstance(x.func, ast.Attribute) and x.func.attr == 'sum' and not x.args and not x.keywords:
            arg = x.func.value
        if arg is not None:
            sl = None
            if isinstance(arg, ast.Subscript):
                arg, sl = arg.value, arg.slice
            names = [y for y in _stands_for(fn, arg) if isinstance(y, ast.Name)]
            return (names[-1].id, 'sum', sl) if names else None
        if isinstance(x, ast.Name):
            last = x.id
    if last is None and e is not None:
        # not a local at all (an attribute, a product written out, …): the value is known by its text only
        return (f'<{norm(e)}>', 'scalar', None)
    return (last, 'scalar', None) if last else None


def _same_value(fn, a, b):
    """do expressions a and b denote the same value?  Yes when what they stand for - through single-definition locals,
    float() looked through - meets in one text (`x` and `y = x`; `f * t` written out and `burn = f * t`)"""
    def texts(e):
        out = set()
        for x in _stands_for(fn, e):
            while isinstance(x, ast.Call) and call_name(x) == 'float' and len(x.args) == 1 and not x.keywords:
                x = x.args[0]
                out |= {norm(y) for y in _stands_for(fn, x)}
            out.add(norm(x))
        return out
    return bool(texts(a) & texts(b))


def _seq_elts(prog, fi, e):
    """elements of e when it is a literal list / tuple / set, written in place or reached through a single-definition
    local, a module-level or an imported constant"""
    for x in _stands_for(fi.node, e):
        if isinstance(x, ast.Name) and not local_defs(fi.node, x.id) and x.id not in fi.params:
            r = prog.resolve_name(fi.module, x.id)
            if isinstance(r, tuple) and r[0] == 'const':
                x = r[1].constants[r[2]]
        if isinstance(x, (ast.List, ast.Tuple, ast.Set)):
            return list(x.elts)
    return None


def _producer_names(ctx, fi, record=True):
    """(index map, amount map, (fuel variable, how, slice)) of a producer, read off what it returns"""
    f = _subset_fields(ctx.prog, fi)
    if f is None or not all(k in f for k in ('indices', 'emissions', 'fuel_burn')) \
            or not isinstance(f['indices'], ast.Name) or not isinstance(f['emissions'], ast.Name):
        ctx.undecided('C01-R3', fi, 'return EmissionsSubset(indices, emissions, fuel_burn)', 'the producer\'s return is not recognised')
    src = _fuel_source(fi.node, f['fuel_burn'])
    if src is None:
        ctx.undecided('C01-R3', fi, f'fuel_burn={norm(f["fuel_burn"])[:50]}', 'cannot tell which local the reported fuel is (the sum of)')
    # the variable that multiplies the indices where the amounts are formed
    mult = None
    for key, val, at, st in _amount_sites(fi.node, f['emissions'].id):
        ops = _product_operands(fi.node, val)
        if ops and len(ops) == 2 and isinstance(key, ast.Name):
            for a_, b_ in (ops, ops[::-1]):
                el = _element_of(fi.node, a_, at)
                if el is not None and el[0] == f['indices'].id:
                    names = [x.id for x in _stands_for(fi.node, b_) if isinstance(x, ast.Name)]
                    mult = mult or (names[-1] if names else None)
    if mult is None:
        ctx.undecided('C01-R3', fi, f'{f["emissions"].id}[k] = {f["indices"].id}[k] * fuel',
                      'cannot tell which variable multiplies the indices where the amounts are formed')
    ok = f['indices'].id != f['emissions'].id
    if record:
        ctx.ob('C01-R3', fi, f'returns indices={f["indices"].id}, emissions={f["emissions"].id}, fuel_burn={norm(f["fuel_burn"])[:40]}', ok,
               'index map, amount map and fuel are three different things' if ok else 'the producer returns one map as both indices and amounts')
    return f['indices'].id, f['emissions'].id, src, mult


def rule_amounts(ctx):
    prog = ctx.prog
    # trajectory
    tf = prog.func(TR, 'get_trajectory_emissions')
    t_idx, t_em, (t_fuel, t_how, t_slice), t_mult = _producer_names(ctx, tf)
    mult, others = _producer(ctx, tf, t_em, t_idx, t_mult, None)
    ok = t_how == 'sum' and isinstance(t_slice, ast.Name) and t_fuel == t_mult
    ctx.ob('C01-R3', tf, f'trajectory fuel = {norm(_subset_fields(prog, tf)["fuel_burn"])}, amounts use {t_mult}', ok,
           'sum of the same per-segment fuel the amounts use, over the counted slice' if ok else
           ('the component\'s fuel total is not the sum of the per-segment fuel that multiplies the indices: '
            'segments can have emissions whose fuel is missing from total fuel burn (or vice versa)'))
    win = t_slice.id if isinstance(t_slice, ast.Name) else 'idx_slice'
    # window masking: constant stores into a slice of an *element* of the index / amount map, however the element is
    # reached (`m[k][a:b]`, the value variable of `for k, v in m.items()` / `m.values()`, a local standing for it, or
    # the variable of a loop over a literal collection of such elements / of the two maps) and however the slice is
    # spelt (`[:w.start]`, slice(None, w.start), np.s_[...], a named slice, the variable of a loop over such)
    wcall = single_def_value(tf.node, win)
    whole = {norm(a_) for a_ in wcall.args} if isinstance(wcall, ast.Call) else set()
    by_slice = {}
    for t, s, how in stores_to(tf.node):
        if isinstance(t, ast.Subscript) and isinstance(getattr(s, 'value', None), ast.Constant) and how in ('assign', 'ann'):
            els = _elements_of(tf.node, t.value, s)
            which = {'indices' if m_ == t_idx else 'emissions' for m_, _k in (els or []) if m_ in (t_idx, t_em)}
            if not which and isinstance(t.value, ast.Name):
                # a local that is masked first and stored into the amount map afterwards (`a = ei * fuel; a[:w] = 0;
                # amounts[k] = a`) is that element of the amount map: bound once, stored once, in the same block
                nm = t.value.id
                binds = [x for x in ast.walk(tf.node) if isinstance(x, ast.Name) and x.id == nm and isinstance(x.ctx, ast.Store)]
                sites = [(key, val, at, st) for key, val, at, st in _amount_sites(tf.node, t_em)
                         if isinstance(val, ast.Name) and val.id == nm]
                if len(binds) == 1 and len(sites) == 1 and getattr(sites[0][3], 'lineno', 0) > s.lineno:
                    blk = next((b for b in ast.walk(tf.node) if isinstance(getattr(b, 'body', None), list)
                                and s in b.body and sites[0][3] in b.body), None)
                    if blk is not None:
                        which = {'emissions'}
            if not which:
                continue
            if which == {'indices'} and s.value.value == 0.0 and _zeroed_before_product(tf.node, s, els, mult, t_em, t_idx):
                # the index element is masked before the amount of the same key is formed from it: the product is zero
                # over the window because its factor is
                which = {'indices', 'emissions'}
            if s.value.value != 0.0:
                ctx.ob('C01-R3', tf, norm(s), False, 'window masking writes a non-zero constant', line=s.lineno)
            sls = _slice_alternatives(tf.node, t.slice, s, whole)
            if sls is None:
                ctx.undecided('C01-R4', tf, norm(s)[:60], 'cannot tell which window this zeroing store covers')
            for sl in sls:
                by_slice.setdefault(sl, set()).update(which)
    # the same stores made by a resolved repository function on one of its parameters (a blanking helper in another
    # module): the parameter stands for what the caller passes, its window parameter for the caller's slice
    from ..resolve import resolve_call
    for c in calls_in(tf.node):
        callee = resolve_call(prog, tf, c)
        if callee is None or callee.cls is not None or callee.node.decorator_list or callee.node is tf.node:
            continue
        for t, s, how in stores_to(callee.node):
            if not (isinstance(t, ast.Subscript) and isinstance(getattr(s, 'value', None), ast.Constant) and how in ('assign', 'ann')):
                continue
            root = [x for x in _stands_for(callee.node, t.value) if isinstance(x, ast.Name)]
            pname = root[-1].id if root and root[-1].id in callee.params and not local_defs(callee.node, root[-1].id) else None
            arg = _call_arg(callee, c, pname) if pname else None
            els = _elements_of(tf.node, arg, stmt_of(c)) if arg is not None else None
            which = {'indices' if m_ == t_idx else 'emissions' for m_, _k in (els or []) if m_ in (t_idx, t_em)}
            if not which:
                continue
            if s.value.value != 0.0:
                ctx.ob('C01-R3', tf, f'{callee.name}: {norm(s)}', False, 'window masking writes a non-zero constant', line=c.lineno)
            sls = _slice_alternatives(callee.node, t.slice, s, {pname})
            out = set()
            for sl in sls or ():
                tr = []
                for b_ in sl:
                    if b_ is not None and b_.rsplit('.', 1)[-1] in ('start', 'stop') and b_.rsplit('.', 1)[0] in callee.params:
                        a_ = _call_arg(callee, c, b_.rsplit('.', 1)[0])
                        names = [y for y in _stands_for(tf.node, a_) if isinstance(y, ast.Name)] if a_ is not None else []
                        b_ = f'{names[-1].id}.{b_.rsplit(".", 1)[-1]}' if names else '?'
                    elif b_ is not None:
                        b_ = '?'
                    tr.append(b_)
                out.add(tuple(tr))
            if sls is None or any('?' in sl for sl in out):
                ctx.undecided('C01-R4', tf, f'{callee.name}: {norm(s)[:50]}', 'cannot tell which window this zeroing store of a helper covers')
            for sl in out:
                by_slice.setdefault(sl, set()).update(which)

    def show(sl):
        return f'{sl[0] or ""}:{sl[1] or ""}'

    for sl, who in sorted(by_slice.items(), key=lambda kv: show(kv[0])):
        ok = who == {'indices', 'emissions'}
        ctx.ob('C01-R3', tf, f'zeroing over [{show(sl)}] applied to {sorted(who)}', ok,
               'index and amount are masked together' if ok else
               'only one of index/amount is masked: amount ≠ index × fuel inside the masked window')
    ok = set(by_slice) == {(None, f'{win}.start'), (f'{win}.stop', None)}
    ctx.ob('C01-R4', tf, f'masked windows {sorted(show(k) for k in by_slice)}', ok, f'everything outside {win}' if ok else
           'the masked windows are not the complement of the counted slice')
    late = [s for t, s in [(t, s) for t, s, how in stores_to(tf.node) if isinstance(t, ast.Subscript) and norm(t.value) == t_idx]
            if mult and s.lineno > mult[0].lineno]
    ctx.ob('C01-R3', tf, 'no index is rewritten after the amounts were formed', not late,
           'indices final before the multiplication' if not late else
           f'`{norm(late[0])[:60]}` changes an index after its amount was computed', line=(late[0].lineno if late else tf.node.lineno))
    ids = single_def_value(tf.node, win)
    ok = ids is not None and isinstance(ids, ast.Call) and call_name(ids) == '_trajectory_slice' and [norm(a) for a in ids.args] == ['traj']
    ctx.ob('C01-R4', tf, 'one slice value drives masking and fuel total', ok, f'{win} = _trajectory_slice(traj)' if ok else
           'masking and fuel total use different windows')
    # LTO
    lf = prog.func(LTO, 'get_LTO_emissions')
    l_idx, l_em, (l_fuel, l_how, l_slice), l_mult = _producer_names(ctx, lf)
    _producer(ctx, lf, l_em, l_idx, l_mult, None)
    ops = _product_operands(lf.node, ast.Name(id=l_mult, ctx=ast.Load())) or ()
    ok = len(ops) == 2 and any(
        isinstance(a_, ast.Name) and a_.id == '_LTO_TIMS' and isinstance(b_, ast.Attribute) and b_.attr == 'fuel_flow'
        and any(norm(x) == 'performance_model.lto' for x in _stands_for(lf.node, b_.value)) for a_, b_ in (ops, ops[::-1]))
    ctx.ob('C01-R3', lf, 'LTO fuel = time in mode × fuel flow', ok, f'{l_mult} = _LTO_TIMS × performance_model.lto.fuel_flow' if ok
           else 'LTO fuel per mode changed')
    ok = l_how == 'sum' and l_slice is None and l_fuel == l_mult
    ctx.ob('C01-R3', lf, 'LTO returns indices, amounts and the sum of the same per-mode fuel', ok,
           f'{l_fuel}.sum()' if ok else 'reported LTO fuel is not the sum of the fuel that multiplies the indices')
    # APU
    af = prog.func(APU, 'get_APU_emissions')
    a_idx, a_em, (a_fuel, a_how, a_slice), a_mult = _producer_names(ctx, af)
    _producer(ctx, af, a_em, a_idx, a_mult, None)
    ok = a_how == 'scalar' and (a_fuel == a_mult or _same_value(af.node, _subset_fields(prog, af)['fuel_burn'], ast.Name(id=a_mult, ctx=ast.Load())))
    ctx.ob('C01-R3', af, 'APU returns indices, amounts and the same fuel', ok, a_fuel if ok else
           f'the APU reports `{norm(_subset_fields(prog, af)["fuel_burn"])[:50]}` as its fuel burn, but its amounts are the indices times `{a_mult}`: '
           'amount ≠ EI × reported fuel, and total fuel burn does not contain the fuel the APU amounts stand for')
    fb = single_def_value(af.node, a_mult)
    ok = fb is not None and norm(fb) in ('apu.fuel_kg_per_s * apu_time', 'apu_time * apu.fuel_kg_per_s')
    ctx.ob('C01-R3', af, 'APU fuel = fuel flow × time', ok, norm(fb) if ok else 'APU fuel changed', nontrivial=False)
    # GSE: CO2 amount and fuel are tied by the fuel's CO2 index
    gf = prog.func(GSE, 'get_GSE_emissions')
    gfl = _subset_fields(prog, gf) or {}
    gmap = gfl['emissions'].id if isinstance(gfl.get('emissions'), ast.Name) else None
    if gmap is None or 'fuel_burn' not in gfl:
        ctx.undecided('C01-R3', gf, 'return EmissionsSubset(emissions=…, fuel_burn=…)', 'the GSE producer\'s return is not recognised')
    # the reported fuel - under whatever local name - is the CO2 amount over the fuel's CO2 index; H2O uses that value
    fchain = _stands_for(gf.node, gfl['fuel_burn'])
    fnames = {x.id for x in fchain if isinstance(x, ast.Name)}
    ok = any(norm(x) == f'{gmap}[Species.CO2] / fuel.EI_CO2' for x in fchain)
    h = [s for t, s, how in stores_to(gf.node) if norm(t) == f'{gmap}[Species.H2O]']
    ops = _product_operands(gf.node, h[0].value) if len(h) == 1 else None
    ok = ok and bool(ops) and len(ops) == 2 and any(
        norm(a_) == 'fuel.EI_H2O' and ((isinstance(b_, ast.Name) and b_.id in fnames) or _same_value(gf.node, b_, gfl['fuel_burn']))
        for a_, b_ in (ops, ops[::-1]))
    ctx.ob('C01-R3', gf, 'GSE fuel = CO2 / EI_CO2 and H2O = EI_H2O × that fuel', ok,
           'CO2 and H2O amounts equal the fuel\'s EI times the GSE fuel' if ok else 'GSE fuel and its CO2/H2O amounts are inconsistent')
    kw = {k: norm(v) for k, v in gfl.items()}
    ok = set(kw) == {'emissions', 'fuel_burn'} and norm(gfl['fuel_burn']) != gmap
    ctx.ob('C01-R3', gf, f'GSE returns {kw}', ok, 'amounts and fuel' if ok else 'GSE returns crossed fields', nontrivial=False)


class _EnumVal:
    """a member of an enum during finite evaluation: one object per member (so `is` works); equal to itself and - the
    configuration enums are string enums - to its value"""

    def __init__(self, name, value):
        self.name, self.value = name, value

    def __eq__(self, other):
        return self is other or (isinstance(other, str) and other == self.value)

    def __ne__(self, other):
        return not self.__eq__(other)

    def __hash__(self):
        return hash(self.name)

    def __repr__(self):
        return self.name


def _pattern_hit(p, subj, env):
    if isinstance(p, ast.MatchAs) and p.pattern is None:
        return True
    if isinstance(p, ast.MatchOr):
        return any(_pattern_hit(q, subj, env) for q in p.patterns)
    if isinstance(p, ast.MatchValue):
        return subj == eval_pred(p.value, env)
    raise ValueError('pattern')


def _returned_under(fn, env):
    """the expression fn returns when every test is evaluated in env: if/elif/else, guard clauses, match, conditional
    expressions, a dict display indexed by an evaluable key.  ValueError when a test cannot be evaluated; None when
    the function falls off its end."""
    env = dict(env)

    def pick(e):
        while True:
            if isinstance(e, ast.IfExp):
                e = e.body if eval_pred(e.test, env) else e.orelse
            elif isinstance(e, ast.Subscript) and isinstance(e.value, ast.Dict) and all(k is not None for k in e.value.keys):
                k = eval_pred(e.slice, env)
                hit = [v for kk, v in zip(e.value.keys, e.value.values) if eval_pred(kk, env) == k]
                if len(hit) != 1:
                    raise ValueError('dict dispatch without exactly one matching key')
                e = hit[0]
            else:
                return e

    def run(stmts):
        for st in stmts:
            if isinstance(st, ast.Return):
                return ('return', pick(st.value) if st.value is not None else None)
            if isinstance(st, ast.Raise):
                return ('raise', None)
            if isinstance(st, ast.If):
                r = run(st.body if eval_pred(st.test, env) else st.orelse)
                if r is not None:
                    return r
            elif isinstance(st, ast.Match):
                subj = eval_pred(st.subject, env)
                for c in st.cases:
                    if _pattern_hit(c.pattern, subj, env) and (c.guard is None or eval_pred(c.guard, env)):
                        r = run(c.body)
                        if r is not None:
                            return r
                        break
            elif isinstance(st, (ast.Assign, ast.AnnAssign)) and st.value is not None:
                tg = st.targets if isinstance(st, ast.Assign) else [st.target]
                for t in tg:
                    for nn in ast.walk(t):
                        if isinstance(nn, ast.Name):
                            env.pop(nn.id, None)
                if len(tg) == 1 and isinstance(tg[0], ast.Name):
                    try:
                        env[tg[0].id] = eval_pred(st.value, env)
                    except ValueError:
                        pass
            elif isinstance(st, (ast.For, ast.While, ast.Try, ast.With)) and any(isinstance(x, ast.Return) for x in walk_no_nested(st)):
                raise ValueError('a return inside a loop / try / with')
        return None

    r = run(fn.body)
    return r[1] if r is not None and r[0] == 'return' else None


def _executed_under(fn, stmt, env):
    """is stmt reached when the tests that govern it (enclosing if / match arms, earlier guard clauses of the enclosing
    blocks) are evaluated in env?  ValueError when one of them cannot be evaluated."""
    for test, pol, owner in guards_of(stmt):
        if bool(eval_pred(test, env)) != pol:
            return False
    child = stmt
    for a in ancestors(stmt):
        if isinstance(a, ast.match_case):
            m = getattr(a, '_parent', None)
            subj = eval_pred(m.subject, env)
            for c in m.cases:
                hit = _pattern_hit(c.pattern, subj, env) and (c.guard is None or eval_pred(c.guard, env))
                if c is a:
                    if not hit:
                        return False
                    break
                if hit:
                    return False
        for f in ('body', 'orelse', 'finalbody'):
            bl = getattr(a, f, None)
            if isinstance(bl, list) and any(child is x for x in bl):
                for x in bl:
                    if x is child:
                        break
                    if isinstance(x, ast.If) and x.body and isinstance(x.body[-1], (ast.Return, ast.Raise, ast.Continue, ast.Break)) \
                            and bool(eval_pred(x.test, env)):
                        return False
        if a is fn:
            break
        child = a
    return True


def _window_kind(prog, ts, e):
    """'full' when the returned window covers the whole trajectory ([0 or open, len(traj) or open)), 'cruise' when it is
    [traj.n_climb, len(traj) - traj.n_descent) (bounds compared as exact normal forms), None otherwise"""
    traj = ts.params[0] if ts.params else 'traj'
    e = _expand(ts, e, prog) if e is not None else None
    if not (isinstance(e, ast.Call) and call_name(e) == 'slice' and not e.keywords and 1 <= len(e.args) <= 2):
        return None
    lo, hi = (ast.Constant(None), e.args[0]) if len(e.args) == 1 else e.args

    def is_none(x):
        return isinstance(x, ast.Constant) and x.value is None
    full_lo = is_none(lo) or (isinstance(lo, ast.Constant) and lo.value == 0 and not isinstance(lo.value, bool))
    full_hi = is_none(hi) or norm(hi) == f'len({traj})'
    if full_lo and full_hi:
        return 'full'
    if is_none(lo) or is_none(hi):
        return None
    try:
        want_lo = normal_form(ast.parse(f'{traj}.n_climb', mode='eval').body, {})
        want_hi = normal_form(ast.parse(f'len({traj}) - {traj}.n_descent', mode='eval').body, {})
        if poly_equal(normal_form(lo, {}), want_lo) and poly_equal(normal_form(hi, {}), want_hi):
            return 'cruise'
    except AlgebraError:
        return None
    return None


def rule_windows(ctx):
    prog = ctx.prog
    cm = prog.module('config/emissions.py')
    members = {k: _EnumVal(k, v.value) for k, v in cm.cls('ClimbDescentMode').class_assignments().items() if isinstance(v, ast.Constant)}
    ctx.floor('C01-R4', len(members), 2, 'climb/descent accounting modes')
    ts = prog.func(TR, '_trajectory_slice')
    lf = prog.func(LTO, 'get_LTO_emissions')
    # the per-mode fuel (the variable whose sum the producer reports) and the constant stores into it
    l_idx, l_em, _src, l_fuel = _producer_names(ctx, lf, record=False)
    zero = []           # (statement, [mode texts])
    for t, s, how in stores_to(lf.node):
        if not (isinstance(t, ast.Subscript) and norm(t.value) == l_fuel and how == 'assign'):
            continue
        if const_value(s.value) != 0:
            ctx.ob('C01-R4', lf, norm(s)[:60], False, 'the per-mode LTO fuel is overwritten with something other than zero', line=s.lineno)
            continue
        if isinstance(t.slice, ast.Attribute):
            zero.append((s, [norm(t.slice)]))
        elif isinstance(t.slice, ast.Name):
            lp = next((o for o, tg, it_ in enclosing_iterations(s) if isinstance(tg, ast.Name) and tg.id == t.slice.id), None)
            elts = _seq_elts(prog, lf, lp.iter) if isinstance(lp, ast.For) else None
            if elts is None:
                ctx.undecided('C01-R4', lf, norm(s)[:60], 'cannot tell which thrust modes the loop walks')
            zero.append((s, [norm(e) for e in elts]))
        else:
            ctx.undecided('C01-R4', lf, norm(s)[:60], 'cannot tell which thrust mode is zeroed')
    ctx.floor('C01-R4/lto', len(zero), 1, 'zeroing stores into the per-mode LTO fuel')
    shapes_ok = True
    for mem, val in members.items():
        env = {'config.emissions.climb_descent_mode': val}
        env.update({f'ClimbDescentMode.{k}': v for k, v in members.items()})
        try:
            ret = _returned_under(ts.node, env)
            kind = _window_kind(prog, ts, ret)
            dropped = sorted({m for s, modes in zero if _executed_under(lf.node, s, env) for m in modes})
        except ValueError as e:
            ctx.undecided('C01-R4', ts, f'mode {mem}', f'cannot evaluate the guards: {e}')
        if kind is None:
            shapes_ok = False
            ctx.ob('C01-R4', ts, f'mode {mem}: window {norm(ret) if ret is not None else None}', False,
                   'the cruise-only window is not [n_climb, len − n_descent) or the full window is not [0, len)', line=ts.node.lineno)
            continue
        traj_excludes = kind == 'cruise'
        if dropped not in ([], ['ThrustMode.APPROACH', 'ThrustMode.CLIMB']):
            ctx.ob('C01-R4', lf, f'mode {mem}: LTO fuel zeroed for {dropped}', False,
                   'the LTO modes whose fuel is dropped are not approach and climb', line=zero[0][0].lineno)
            continue
        lto_zeroes = bool(dropped)
        ok = traj_excludes != lto_zeroes
        ctx.ob('C01-R4', ts, f'mode {mem}: trajectory excludes climb/descent={traj_excludes}, LTO drops approach/climb fuel={lto_zeroes}', ok,
               'every kilogram of climb/descent fuel is counted exactly once' if ok else
               ('climb/descent fuel is counted twice' if not traj_excludes and not lto_zeroes else
                'climb/descent fuel is counted nowhere'), line=ts.node.lineno)
    if shapes_ok:
        ctx.ob('C01-R4', ts, 'cruise-only window = [n_climb, len − n_descent); full window = [0, len)', True, 'window shapes', line=ts.node.lineno)
    # the zeroing must precede the multiplication
    mult = [st for _k, _v, _at, st in _amount_sites(lf.node, l_em)]
    ok = bool(mult) and all(s.lineno < mult[0].lineno for s, _m in zero)
    ctx.ob('C01-R4', lf, 'fuel is zeroed before the amounts are formed', ok, 'order' if ok else 'amounts are formed from unzeroed fuel', nontrivial=False)


def _const_number(prog, fi, e):
    """numeric value of e when it is a literal, or a name that stands for one (single-definition local, module-level
    or imported constant); None otherwise"""
    for x in _stands_for(fi.node, e):
        v = const_value(x)
        if isinstance(v, (int, float)) and not isinstance(v, bool):
            return v
        if isinstance(x, ast.Name) and single_def_value(fi.node, x.id) is None and not local_defs(fi.node, x.id):
            r = prog.resolve_name(fi.module, x.id)
            if isinstance(r, tuple) and r[0] == 'const':
                v = const_value(r[1].constants[r[2]])
                if isinstance(v, (int, float)) and not isinstance(v, bool):
                    return v
    return None


def _table_rows(prog, fi, e, kind):
    """[(key expr, value expr)] when e is a literal table - a dict display (kind 'dict') or a list / tuple of pairs
    (kind 'pairs') - written in place or reached through a single-definition local, a module-level or an imported
    constant"""
    for x in _stands_for(fi.node, e):
        if isinstance(x, ast.Name) and not local_defs(fi.node, x.id) and x.id not in fi.params:
            r = prog.resolve_name(fi.module, x.id)
            if isinstance(r, tuple) and r[0] == 'const':
                x = r[1].constants[r[2]]
        if isinstance(x, ast.Call) and len(x.args) == 1 and not x.keywords and call_name(x).split('[')[0] in (
                'dict', 'OrderedDict', 'collections.OrderedDict', 'MappingProxyType', 'types.MappingProxyType', 'SpeciesValues'):
            x = x.args[0]
        if kind == 'dict' and isinstance(x, ast.Dict) and all(k is not None for k in x.keys):
            return list(zip(x.keys, x.values))
        if kind == 'pairs' and isinstance(x, (ast.List, ast.Tuple)) and x.elts and all(isinstance(r, (ast.Tuple, ast.List)) and len(r.elts) == 2 for r in x.elts):
            return [(r.elts[0], r.elts[1]) for r in x.elts]
    return None


def _constant_shares(prog, fi, mp, base_key):
    """species name -> [share, …] for every store `mp[Species.X] = mp[base_key] * c` of the function: written out per
    species, or produced by a loop over a constant table of (species, share) rows.  A share that is not a known
    number is recorded as None."""
    fn = fi.node
    maps = {mp, *_staging_maps(fn, mp)}
    # the base value: the element kept under base_key (of the map or of a staging map merged into it), or the very
    # value stored there when that is one call-free expression (it reads the same things wherever it is written)
    bases = {f'{m}[{base_key}]' for m in maps}
    kept = _keyed_values(prog, fi, mp).get(base_key.split('.')[-1], [])
    if len(kept) == 1 and kept[0][0] is not None and not guards_of(kept[0][1]):
        for x in _stands_for(fn, kept[0][0]):
            if not any(isinstance(y, ast.Call) for y in ast.walk(x)) and not isinstance(x, ast.Constant):
                bases.add(norm(x))
    out = {}

    def mentions(e):
        return any(b in norm(x) for x in _stands_for(fn, e) for b in bases)

    def share_of(v, at, bind=None):
        ops = _product_operands(fn, v)
        if not ops or len(ops) != 2:
            return None
        for a, b in (ops, ops[::-1]):
            if any(norm(x) in bases for x in _stands_for(fn, a)):
                if bind is not None and isinstance(b, ast.Name) and b.id == bind[0]:
                    return _const_number(prog, fi, bind[1])
                return _const_number(prog, fi, b)
        return None

    for t, st, how in stores_to(fn):
        if not (isinstance(t, ast.Subscript) and norm(t.value) in maps and how == 'assign'):
            continue
        if isinstance(t.slice, ast.Attribute) and norm(t.slice.value) == 'Species':
            if mentions(st.value):
                out.setdefault(t.slice.attr, []).append(None if guards_of(st) else share_of(st.value, st))
        elif isinstance(t.slice, ast.Name):
            # for k, c in TABLE.items() / for k, c in PAIRS: mp[k] = mp[base] * c
            for owner, tgt, it in enclosing_iterations(st):
                if not (isinstance(tgt, (ast.Tuple, ast.List)) and len(tgt.elts) == 2 and all(isinstance(x, ast.Name) for x in tgt.elts)
                        and tgt.elts[0].id == t.slice.id):
                    continue
                im = iterated_mapping(it)
                rows = _table_rows(prog, fi, im[0], 'dict') if im is not None and im[1] == 'items' else \
                    (_table_rows(prog, fi, it, 'pairs') if im is None or im[1] == 'keys' else None)
                if rows is None:
                    continue
                for k, c in rows:
                    if isinstance(k, ast.Attribute) and norm(k.value) == 'Species':
                        out.setdefault(k.attr, []).append(None if guards_of(st, stop=owner) else share_of(st.value, st, (tgt.elts[1].id, c)))
    return out


def _expand(fi, e, prog=None, depth=0):
    """expression e of function fi with every local that has exactly one definition (`a = E`, `a, b = E1, E2`) replaced
    by that definition, and every call of a *simple function* - a nested def or a lambda of fi, or a function of fi's
    module, whose body is one `return E` - replaced by E with the arguments bound.  What cannot be expanded stays."""
    import copy
    fn = fi.node
    count, vals, fns = {}, {}, {}
    for t, st, how in stores_to(fn):
        if isinstance(t, ast.Name):
            count[t.id] = count.get(t.id, 0) + 1
    for x in walk_no_nested(fn):
        if isinstance(x, (ast.Assign, ast.AnnAssign)) and x.value is not None:
            for t in (x.targets if isinstance(x, ast.Assign) else [x.target]):
                if isinstance(t, ast.Name):
                    vals[t.id] = x.value
                elif isinstance(t, (ast.Tuple, ast.List)) and isinstance(x.value, (ast.Tuple, ast.List)) and len(t.elts) == len(x.value.elts):
                    vals.update({a_.id: b_ for a_, b_ in zip(t.elts, x.value.elts) if isinstance(a_, ast.Name)})
    nested = [x for x in ast.walk(fn) if isinstance(x, ast.FunctionDef) and x is not fn and next(
        (a_ for a_ in ancestors(x) if isinstance(a_, (ast.FunctionDef, ast.AsyncFunctionDef, ast.Lambda, ast.ClassDef))), None) is fn]
    for x in nested:
        if sum(1 for y in nested if y.name == x.name) == 1 and x.name not in count:
            fns[x.name] = x
    vals = {k: v for k, v in vals.items() if count.get(k) == 1 and k not in fi.params}
    if prog is not None:
        for g in fi.module.functions.values():
            if '.' not in g.qualname and g.name not in fns and g.name not in count and g.node is not fn:
                fns[g.name] = g.node

    def simple(d):
        """(parameter names, defaults, returned expression) of a one-expression function"""
        if isinstance(d, ast.Lambda):
            body = d.body
        else:
            stmts = [x for x in d.body if not (isinstance(x, ast.Expr) and isinstance(x.value, ast.Constant))]
            if len(stmts) != 1 or not isinstance(stmts[0], ast.Return) or stmts[0].value is None or d.decorator_list:
                return None
            body = stmts[0].value
        a = d.args
        if a.vararg or a.kwarg or a.kwonlyargs:
            return None
        names = [p.arg for p in a.posonlyargs + a.args]
        return names, dict(zip(names[len(names) - len(a.defaults):], a.defaults)), body

    class X(ast.NodeTransformer):
        def __init__(self, bind, busy, level):
            self.bind, self.busy, self.level = bind, busy, level

        def visit_Name(self, n):
            if not isinstance(n.ctx, ast.Load):
                return n
            if n.id in self.bind:
                return copy.deepcopy(self.bind[n.id])
            if n.id in vals and n.id not in self.busy and self.level < 40 and not isinstance(vals[n.id], ast.Lambda):
                return X({}, self.busy | {n.id}, self.level + 1).visit(copy.deepcopy(vals[n.id]))
            return n

        def visit_Lambda(self, n):
            return n

        def visit_ListComp(self, n):
            return n
        visit_SetComp = visit_DictComp = visit_GeneratorExp = visit_ListComp

        def visit_Call(self, n):
            n.args = [self.visit(a_) for a_ in n.args]
            for k in n.keywords:
                k.value = self.visit(k.value)
            d = None
            if isinstance(n.func, ast.Name) and n.func.id not in self.bind:
                d = fns.get(n.func.id) or (vals.get(n.func.id) if isinstance(vals.get(n.func.id), ast.Lambda) else None)
            sd = simple(d) if d is not None else None
            if sd is None or self.level >= 40 or any(isinstance(a_, ast.Starred) for a_ in n.args) or any(k.arg is None for k in n.keywords):
                n.func = self.visit(n.func)
                return n
            names, defaults, body = sd
            bind = {}
            for i, a_ in enumerate(n.args):
                if i >= len(names):
                    return n
                bind[names[i]] = a_
            for k in n.keywords:
                if k.arg not in names or k.arg in bind:
                    return n
                bind[k.arg] = k.value
            for nm_ in names:
                if nm_ not in bind:
                    if nm_ not in defaults:
                        return n
                    bind[nm_] = defaults[nm_]
            # the body sees its parameters first, then (nested def / lambda) the enclosing function's locals
            return X(bind, self.busy | {n.func.id}, self.level + 1).visit(copy.deepcopy(body))

    return X({}, frozenset(), depth).visit(copy.deepcopy(e))


def _per_mode(e, modes):
    """[value expression per thrust mode, in the order of `modes`] of a ThrustModeValues construction: four positional
    values (one per member of ThrustMode, in its order), a dict display keyed by ThrustMode members (a missing mode
    reads as 0.0), or one number for all modes.  None for anything else."""
    if not (isinstance(e, ast.Call) and call_name(e) == 'ThrustModeValues' and all(k.arg == 'mutable' for k in e.keywords)):
        return None
    if any(isinstance(a, ast.Starred) for a in e.args):
        return None
    if len(e.args) == len(modes):
        return list(e.args)
    if len(e.args) == 1:
        a = e.args[0]
        if isinstance(a, ast.Dict) and all(isinstance(k, ast.Attribute) and norm(k.value) == 'ThrustMode' for k in a.keys):
            d = {k.attr: v for k, v in zip(a.keys, a.values)}
            return [d.get(m, ast.Constant(0.0)) for m in modes]
        if isinstance(const_value(a), float):
            return [a] * len(modes)
    return None


def _sum_terms(fn, e):
    """the summands of e when it is a sum: `a + b`, sum((a, b)) / math.fsum([a, b]) / np.add(a, b) - through
    single-definition locals; None when it is not a sum"""
    for x in _stands_for(fn, e):
        if isinstance(x, ast.BinOp) and isinstance(x.op, ast.Add):
            out = []
            for side in (x.left, x.right):
                sub = _sum_terms(fn, side) if isinstance(side, ast.BinOp) and isinstance(side.op, ast.Add) else None
                out += sub if sub else [side]
            return out
        if isinstance(x, ast.Call) and call_name(x) in ('sum', 'math.fsum', 'fsum') and len(x.args) == 1 and not x.keywords \
                and isinstance(x.args[0], (ast.Tuple, ast.List)):
            return list(x.args[0].elts)
        if isinstance(x, ast.Call) and call_name(x) in ('np.add', 'numpy.add') and len(x.args) == 2 and not x.keywords:
            return list(x.args)
        if isinstance(x, ast.BinOp):
            return None
    return None


def _amounts_map(ctx, fi, default):
    """name of the amount map a producer without index map returns (`EmissionsSubset(emissions=<map>, …)`)"""
    f = _subset_fields(ctx.prog, fi)
    return f['emissions'].id if f and isinstance(f.get('emissions'), ast.Name) else default


def rule_speciation(ctx):
    prog = ctx.prog
    nm = prog.module('emissions/ei/nox.py')
    sp = nm.func('NOx_speciation')
    # per thrust mode, the three fractions NOx_speciation() returns add up to one - as an exact identity over the
    # function's own definitions (locals, nested helpers and one-line helpers of the module expanded), whatever the
    # nominal HONO / NO2 numbers and however the table is laid out
    modes = [k for k, v in prog.cls('performance/types.py', 'ThrustMode').class_assignments().items() if isinstance(v, ast.Constant)]
    ctx.floor('C01-R5/modes', len(modes), 4, 'thrust modes')
    rets = [n for n in walk_no_nested(sp.node) if isinstance(n, ast.Return) and n.value is not None]
    fields = None
    if len(rets) == 1:
        rv = _expand(sp, rets[0].value, prog)
        if isinstance(rv, ast.Call) and call_name(rv) == 'NOXSpeciation' and not any(isinstance(a_, ast.Starred) for a_ in rv.args):
            order = list(nm.cls('NOXSpeciation').annotated_fields())
            fields = {order[i]: a_ for i, a_ in enumerate(rv.args) if i < len(order)}
            fields.update({k.arg: k.value for k in rv.keywords if k.arg})
    if fields is None or set(fields) != {'no', 'no2', 'hono'}:
        ctx.undecided('C01-R5', sp, 'return NOXSpeciation(no, no2, hono)', 'the returned speciation table is not recognised')
    per = {k: _per_mode(v, modes) for k, v in fields.items()}
    for k, v in per.items():
        if v is None:
            ctx.undecided('C01-R5', sp, f'{k} = {norm(fields[k])[:60]}', 'cannot read the per-mode values of this ThrustModeValues')
    for i, mode in enumerate(modes):
        e = ast.BinOp(ast.BinOp(ast.BinOp(per['no'][i], ast.Add(), per['no2'][i]), ast.Add(), per['hono'][i]), ast.Sub(), ast.Constant(1))
        try:
            nf = normal_form(e, {})
            ok = nf.is_zero()
        except AlgebraError as ex:
            ctx.undecided('C01-R5', sp, f'mode {mode}', str(ex))
        ctx.ob('C01-R5', sp, f'thrust mode {mode}: NO + NO2 + HONO − 1 ≡ {nf}', ok,
               'identically zero: the three fractions add up to one' if ok else
               f'the NO, NO2 and HONO fractions of mode {mode} do not add up to one: the three species do not add up to NOx',
               line=rets[0].lineno)
    # GSE split: which constant share of GSE NOx each of NO / NO2 / HONO receives - from single stores or from a
    # loop over a constant table (dict / sequence of pairs; local, module-level or imported)
    gf = prog.func(GSE, 'get_GSE_emissions')
    shares = _constant_shares(prog, gf, _amounts_map(ctx, gf, 'gse'), 'Species.NOx')
    tot = Fraction(0)
    n = 0
    for sp_ in ('NO', 'NO2', 'HONO'):
        sh = shares.get(sp_, [])
        ok = len(sh) == 1 and sh[0] is not None
        if ok:
            tot += Fraction(repr(sh[0]))
            n += 1
        ctx.ob('C01-R5', gf, f'GSE {sp_} = NOx × constant', ok, f'gse[Species.NOx] * {sh[0]!r}' if ok else
               f'GSE {sp_} is not a fixed share of GSE NOx', nontrivial=False)
    ok = n == 3 and tot == 1
    ctx.ob('C01-R5', gf, f'GSE NOx shares sum to {tot}', ok, 'exactly one' if ok else 'GSE NO + NO2 + HONO ≠ GSE NOx')
    for fn_, mp in ((gf, _amounts_map(ctx, gf, 'gse')), (prog.func(APU, 'get_APU_emissions'), _producer_names(ctx, prog.func(APU, 'get_APU_emissions'), record=False)[0])):
        kv_ = _keyed_values(prog, fn_, mp)
        staging = set(_staging_maps(fn_.node, mp))
        s = kv_.get('SOx', [])
        ok, shown = False, None
        if len(s) == 1 and s[0][0] is not None:
            shown = norm(s[0][0])
            terms = _sum_terms(fn_.node, s[0][0])
            # each of the two summands is the value kept under SO2 / SO4: a read of that element, or the very value
            # that was stored there (a local both the store and the sum use)
            def is_value_of(term, k):
                # a read of the element from the map itself, or from the staging map (one that is only filled element by
                # element and merged into the map by one update - an inlined `mp.update(helper(…))`) that every store
                # of this species goes to: the element read there is the one the map receives
                homes = {norm(t_.value) for _v, st_ in kv_.get(k, []) for t_ in ast.walk(st_)
                         if isinstance(t_, ast.Subscript) and isinstance(t_.ctx, ast.Store) and norm(t_.slice) == f'Species.{k}'}
                staged = next(iter(homes)) if len(homes) == 1 and homes <= staging else None
                if any(norm(x) in (f'{mp}[Species.{k}]', f'{staged}[Species.{k}]') for x in _stands_for(fn_.node, term)):
                    return True
                vs = kv_.get(k, [])
                if len(vs) != 1 or vs[0][0] is None or not _same_value(fn_.node, term, vs[0][0]):
                    return False
                # one local used for both, or one call-free expression written twice (it reads the same things)
                return (isinstance(term, ast.Name) and isinstance(vs[0][0], ast.Name)) or not any(isinstance(y, ast.Call) for y in ast.walk(term))
            ok = terms is not None and len(terms) == 2 and any(
                is_value_of(a_, 'SO2') and is_value_of(b_, 'SO4') for a_, b_ in (terms, terms[::-1]))
        ctx.ob('C01-R5', fn_, f'{mp}[SOx] = SO2 + SO4', ok, shown if ok else
               f'SOx is not the sum of SO2 and SO4 (it receives `{shown}`)', line=(s[0][1].lineno if s else fn_.node.lineno))
    def speciated(fi_, v, frac):
        """(text of the other factor, text of the thrust mode or None) when v is <something> × <NOx_speciation()
        result>.<frac> or <something> × <NOx_speciation() result>.<frac>[mode] (factors in either order, through
        locals); None otherwise"""
        ops = _product_operands(fi_.node, v) if v is not None else None
        if not ops or len(ops) != 2:
            return None
        for a_, b_ in (ops, ops[::-1]):
            for x in _stands_for(fi_.node, a_):
                mode = None
                if isinstance(x, ast.Subscript):
                    x, mode = x.value, norm(x.slice)
                    x = next((y for y in _stands_for(fi_.node, x) if isinstance(y, ast.Attribute)), x)
                if isinstance(x, ast.Attribute) and x.attr == frac and any(
                        isinstance(y, ast.Call) and call_name(y).split('.')[-1] == 'NOx_speciation'
                        for y in _stands_for(fi_.node, x.value)):
                    return _same_text(fi_, b_), mode
        return None

    FAMILY = (('NO', 'no'), ('NO2', 'no2'), ('HONO', 'hono'))
    af = prog.func(APU, 'get_APU_emissions')
    a_idx = _producer_names(ctx, af, record=False)[0]
    akv = _keyed_values(prog, af, a_idx)
    nx = akv.get('NOx', [])
    nox_txt = _same_text(af, nx[0][0]) if len(nx) == 1 and nx[0][0] is not None else None
    modes_ = set()
    for sp_, fr in FAMILY:
        s = akv.get(sp_, [])
        r = speciated(af, s[0][0], fr) if len(s) == 1 else None
        ok = r is not None and r[1] is not None and nox_txt is not None and r[0] == nox_txt
        if ok:
            modes_.add(r[1])
        ctx.ob('C01-R5', af, f'APU {sp_} = APU NOx × speciation.{fr}[mode]', ok, norm(s[0][0]) if ok else
               f'APU {sp_} does not use its own fraction of the APU NOx index', nontrivial=False, line=(s[0][1].lineno if s else af.node.lineno))
    ok = len(modes_) == 1
    ctx.ob('C01-R5', af, f'APU fractions all taken at {sorted(modes_)}', ok, 'one thrust mode, so the three fractions sum to one' if ok else
           'APU NO/NO2/HONO fractions come from different thrust modes: they do not sum to one')
    ok = nox_txt is not None
    ctx.ob('C01-R5', af, 'APU NOx index is the one that was speciated', ok, nox_txt if ok else 'the APU NOx index is not written exactly once', nontrivial=False)
    # LTO: wherever in lto.py the four NOx-family indices are written (a helper of their own, or the producer
    # itself), NO / NO2 / HONO are the *same* NOx index times their own fraction of one NOx_speciation() result
    sites, seen_st = {}, set()
    from ..resolve import closure
    live = {id(f.node) for f in closure(prog, [prog.func(LTO, 'get_LTO_emissions')])}
    for fi_ in prog.module(LTO).functions.values():
        if id(fi_.node) not in live:
            continue                        # nothing the LTO producer runs (a helper left behind unused)
        maps = {norm(t.value) for t, st, how in stores_to(fi_.node) if isinstance(t, ast.Subscript) and isinstance(t.value, ast.Name)}
        staged = {l_ for m_ in maps for l_ in _staging_maps(fi_.node, m_)}
        for mp_ in sorted(maps - staged):
            for k_, vals in _keyed_values(prog, fi_, mp_).items():
                if k_ in ('NOx', 'NO', 'NO2', 'HONO'):
                    sites.setdefault(k_, []).extend((fi_, v_, st_, mp_) for v_, st_ in vals if id(st_) not in seen_st)
                    seen_st.update(id(st_) for _v, st_ in vals)
    ctx.floor('C01-R5/lto', len(sites), 4, 'NOx-family species written in lto.py')
    nx = sites.get('NOx', [])
    lf = nx[0][0]
    nox_txt = _same_text(lf, nx[0][1]) if len(nx) == 1 and nx[0][1] is not None else None
    for sp_, fr in FAMILY:
        s = sites.get(sp_, [])
        r = speciated(s[0][0], s[0][1], fr) if len(s) == 1 else None
        ok = r is not None and r[1] is None and nox_txt is not None and r[0] == nox_txt and s[0][0] is lf and s[0][3] == nx[0][3]
        ctx.ob('C01-R5', lf, f'LTO {sp_} = LTO NOx × speciation.{fr}', ok, norm(s[0][1]) if ok else
               f'LTO {sp_} does not use its own fraction of the LTO NOx index', nontrivial=False, line=(s[0][2].lineno if s else lf.node.lineno))
    ok = nox_txt is not None
    ctx.ob('C01-R5', lf, 'LTO NOx index is the one that was speciated', ok, nox_txt if ok else
           'the LTO NOx index is written more than once', nontrivial=False)
    # BFFM2: the result's NO / NO2 / HONO indices are its NOx index times a per-point array of the species' own
    # fraction, looked up by one and the same category array
    bf = nm.func('BFFM2_EINOx')
    brets = [n for n in walk_no_nested(bf.node) if isinstance(n, ast.Return) and n.value is not None]
    bfields = None
    if len(brets) == 1 and isinstance(brets[0].value, ast.Call) and call_name(brets[0].value) == 'BFFM2EINOxResult' \
            and not any(isinstance(a_, ast.Starred) for a_ in brets[0].value.args):
        order = list(nm.cls('BFFM2EINOxResult').annotated_fields())
        bfields = {order[i]: a_ for i, a_ in enumerate(brets[0].value.args) if i < len(order)}
        bfields.update({k.arg: k.value for k in brets[0].value.keywords if k.arg})
    if bfields is None or not all(k in bfields for k in ('NOxEI', 'NOEI', 'NO2EI', 'HONOEI')):
        ctx.undecided('C01-R5', bf, 'return BFFM2EINOxResult(…)', 'the returned result is not recognised')
    nox_txt = _same_text(bf, bfields['NOxEI'])
    cats = set()
    for fld, fr in (('NOEI', 'no'), ('NO2EI', 'no2'), ('HONOEI', 'hono')):
        ops = _product_operands(bf.node, bfields[fld])
        prop = None
        if ops and len(ops) == 2:
            for a_, b_ in (ops, ops[::-1]):
                if _same_text(bf, a_) == nox_txt:
                    prop = _proportion(bf, b_)
                    if prop is None:
                        ctx.undecided('C01-R5', bf, f'{fld} = {norm(bfields[fld])[:50]}', f'cannot tell what `{norm(b_)[:40]}` looks up')
                    break
        ok = prop is not None and prop[0] == fr
        if ok:
            cats.add(prop[1])
        ctx.ob('C01-R5', bf, f'{fld} = NOxEI × speciation.{fr} at the point\'s thrust category', ok,
               'own fraction of the returned NOx index' if ok else
               f'{fld} is not the returned NOx index times the `{fr}` fraction at the point\'s thrust category', line=brets[0].lineno)
    ok = len(cats) == 1
    ctx.ob('C01-R5', bf, f'fractions looked up by {sorted(cats)}', ok, 'one category array for the three species' if ok else
           'NO / NO2 / HONO fractions are looked up by different category arrays: per point they do not add up to one')
    # the trajectory's NOx family and the constant species take their own field of one result
    tr = prog.func(TR, 'compute_EI_NOx')
    t_idx = next(iter({norm(t.value) for t, st, how in stores_to(tr.node) if isinstance(t, ast.Subscript) and isinstance(t.value, ast.Name)
                       and isinstance(t.slice, ast.Attribute) and norm(t.slice.value) == 'Species'}), 'indices')
    tkv = _keyed_values(prog, tr, t_idx)
    for k, fld in {'NOx': 'NOxEI', 'NO': 'NOEI', 'NO2': 'NO2EI', 'HONO': 'HONOEI'}.items():
        s = tkv.get(k, [])
        ok = len(s) == 1 and _field_of_call(tr, s[0][0], fld, 'BFFM2_EINOx')
        ctx.ob('C01-R5', tr, f'trajectory {k} index = BFFM2 result .{fld}', ok, 'own field' if ok else
               f'Species.{k} receives `{norm(s[0][0]) if s and s[0][0] is not None else None}`', nontrivial=False)
    cu = prog.func('emissions/utils.py', 'constant_species_values')
    crets = [n.value for n in walk_no_nested(cu.node) if isinstance(n, ast.Return) and isinstance(n.value, ast.Name)]
    ckv = _keyed_values(prog, cu, crets[0].id if crets else 'constants')
    for k, (fld, src) in {'SOx': ('EI_SOx', 'EI_SOx'), 'SO2': ('EI_SO2', 'EI_SOx'), 'SO4': ('EI_SO4', 'EI_SOx'),
                          'CO2': ('EI_CO2', None), 'H2O': ('EI_H2O', None)}.items():
        s = ckv.get(k, [])
        ok = len(s) == 1 and (_field_of_call(cu, s[0][0], fld, src) if src else
                              (isinstance(s[0][0], ast.Attribute) and s[0][0].attr == fld and norm(s[0][0].value) in cu.params))
        ctx.ob('C01-R5', cu, f'constant index {k} = .{fld} of {"the " + src + "() result" if src else "the fuel"}', ok,
               'own field' if ok else f'Species.{k} receives `{norm(s[0][0]) if s and s[0][0] is not None else None}`', nontrivial=False)


def _copied_from(e):
    """x when e is a copy of x: `x.copy(…)`, copy.copy(x) / copy.deepcopy(x), np.copy(x) / np.array(x)"""
    if not isinstance(e, ast.Call):
        return None
    if call_name(e) in ('copy.copy', 'copy.deepcopy', 'deepcopy', 'np.copy', 'numpy.copy', 'np.array', 'numpy.array'):
        return e.args[0] if len(e.args) == 1 and not isinstance(e.args[0], ast.Starred) else None
    if isinstance(e.func, ast.Attribute) and e.func.attr == 'copy' and not e.args:
        return e.func.value
    return None


def _same_text(fi, e):
    """text of what e stands for (followed through single-definition locals to the last name / expression): two
    expressions with the same text denote the same value.  A copy that nothing is stored into afterwards denotes the
    value it was copied from."""
    chain = _stands_for(fi.node, e)
    for _ in range(4):
        src = _copied_from(chain[-1])
        locals_ = {x.id for x in chain if isinstance(x, ast.Name)}
        if src is None or any(isinstance(t, (ast.Subscript, ast.Attribute)) and isinstance(t.value, ast.Name) and t.value.id in locals_
                              for t, _s, _h in stores_to(fi.node)):
            break
        chain = _stands_for(fi.node, src)
    last = next((x for x in reversed(chain) if isinstance(x, ast.Name)), chain[-1])
    return norm(last)


def _field_of_call(fi, e, field, func):
    """e is `<x>.field` where x stands for a call of `func`"""
    for x in _stands_for(fi.node, e) if e is not None else ():
        if isinstance(x, ast.Attribute) and x.attr == field:
            return any(isinstance(y, ast.Call) and call_name(y).split('.')[-1] == func for y in _stands_for(fi.node, x.value))
    return False


def _proportion(fi, e):
    """(fraction attribute, text of the category array) when e is a per-point array of `<NOx_speciation()
    result>.<fraction>` looked up by category: np.array / np.asarray / np.fromiter over `[X.f[c] for c in C]`, or
    `X.f.broadcast(C)`; None otherwise"""
    def frac_of(x):
        if isinstance(x, ast.Attribute) and any(isinstance(y, ast.Call) and call_name(y).split('.')[-1] == 'NOx_speciation'
                                                for y in _stands_for(fi.node, x.value)):
            return x.attr
        return None
    for x in _stands_for(fi.node, e):
        if isinstance(x, ast.Call) and call_name(x) in ('np.array', 'np.asarray', 'np.fromiter', 'numpy.array', 'numpy.asarray', 'numpy.fromiter') \
                and x.args and isinstance(x.args[0], (ast.ListComp, ast.GeneratorExp)) and len(x.args[0].generators) == 1:
            g = x.args[0].generators[0]
            el = x.args[0].elt
            if not g.ifs and isinstance(g.target, ast.Name) and isinstance(el, ast.Subscript) and norm(el.slice) == g.target.id:
                base = next((y for y in _stands_for(fi.node, el.value) if isinstance(y, ast.Attribute)), el.value)
                f = frac_of(base)
                if f:
                    return f, _same_text(fi, g.iter)
        if isinstance(x, ast.Call) and isinstance(x.func, ast.Attribute) and x.func.attr == 'broadcast' and len(x.args) == 1 and not x.keywords:
            base = next((y for y in _stands_for(fi.node, x.func.value) if isinstance(y, ast.Attribute)), x.func.value)
            f = frac_of(base)
            if f:
                return f, _same_text(fi, x.args[0])
    return None


def _staging_maps(fn, mp):
    """local names L of maps that are only a staging area for `mp`: bound once to a new empty map (`SpeciesValues[…]()`,
    `dict()`, `{}`), filled and read element by element (`L[k] = v`, `… L[k] …`) and merged by one `mp.update(L)` - what
    an inlined `mp.update(helper(…))` looks like.  A store into L is then a store into mp."""
    out = []
    for st in walk_no_nested(fn):
        if not (isinstance(st, ast.Expr) and isinstance(st.value, ast.Call) and isinstance(st.value.func, ast.Attribute)
                and st.value.func.attr == 'update' and norm(st.value.func.value) == mp and len(st.value.args) == 1
                and not st.value.keywords and isinstance(st.value.args[0], ast.Name)):
            continue
        name = st.value.args[0].id
        v = single_def_value(fn, name)
        new = (isinstance(v, ast.Call) and not v.args and not v.keywords and (call_name(v).split('[')[0].split('.')[-1][:1].isupper()
                                                                           or call_name(v) == 'dict')) \
            or (isinstance(v, ast.Dict) and not v.keys)
        if not new:
            continue
        uses = [n for n in walk_no_nested(fn) if isinstance(n, ast.Name) and n.id == name]
        elementwise = [n for n in uses if isinstance(getattr(n, '_parent', None), ast.Subscript) and n._parent.value is n]
        if len(uses) == len(elementwise) + 2:          # + the binding and the update
            out.append(name)
    return out


def _keyed_values(prog, fi, mp):
    """Species name -> [(value expression or None, statement)] for everything function fi stores into the species map
    `mp` under a constant Species key: `mp[Species.K] = V`; one of several unpacked targets (value None unless the
    right side is a display); `for k, v in TABLE: mp[k] = E(v)` with TABLE a constant table of (Species.K, value)
    rows - dict display `.items()` or a sequence of pairs, written in place, a local or a module constant - in which
    case E is returned with v replaced by the row's value."""
    import copy
    out = {}
    fn = fi.node

    class Sub(ast.NodeTransformer):
        def __init__(self, name, val):
            self.name, self.val = name, val

        def visit_Name(self, n):
            return copy.deepcopy(self.val) if n.id == self.name and isinstance(n.ctx, ast.Load) else n

    maps = {mp, *_staging_maps(fn, mp)}
    for t, st, how in stores_to(fn):
        if not (isinstance(t, ast.Subscript) and norm(t.value) in maps and how in ('assign', 'ann')):
            continue
        v = getattr(st, 'value', None)
        if isinstance(st, ast.Assign) and not any(tg is t for tg in st.targets):
            tup = next((tg for tg in st.targets if isinstance(tg, (ast.Tuple, ast.List)) and any(el is t for el in tg.elts)), None)
            if tup is not None and isinstance(v, (ast.Tuple, ast.List)) and len(v.elts) == len(tup.elts):
                v = v.elts[[el is t for el in tup.elts].index(True)]
            else:
                v = None
        if isinstance(t.slice, ast.Attribute) and norm(t.slice.value) == 'Species':
            out.setdefault(t.slice.attr, []).append((v, st))
        elif isinstance(t.slice, ast.Name) and v is not None:
            for owner, tgt, it in enclosing_iterations(st):
                if not (isinstance(tgt, (ast.Tuple, ast.List)) and len(tgt.elts) == 2 and all(isinstance(x, ast.Name) for x in tgt.elts)
                        and tgt.elts[0].id == t.slice.id):
                    continue
                im = iterated_mapping(it)
                rows = _table_rows(prog, fi, im[0], 'dict') if im is not None and im[1] == 'items' else \
                    (_table_rows(prog, fi, it, 'pairs') if im is None or im[1] == 'keys' else None)
                for k, c in rows or ():
                    if isinstance(k, ast.Attribute) and norm(k.value) == 'Species':
                        vv = Sub(tgt.elts[1].id, c).visit(copy.deepcopy(v))
                        for nn in ast.walk(vv):
                            for ch in ast.iter_child_nodes(nn):
                                if not isinstance(ch, (ast.expr_context, ast.operator, ast.unaryop, ast.cmpop, ast.boolop)):
                                    ch._parent = nn
                        out.setdefault(k.attr, []).append((vv, st))
                break
    return out


def rule_cached_mutables(ctx):
    """R6: a memoised function hands the *same* object to every caller.  If a
    caller then zeroes entries of it in place (the LTO window masking does
    exactly that to its per-mode fuel), the change leaks into every later
    inventory.  So: no in-place element store on a local bound from a call of a
    functools.cache'd repository function, unless it was copied first."""
    prog = ctx.prog
    from ..resolve import resolve_call
    cached = {f.qualname: f for mod in prog.src_modules() if '/emissions/' in mod.relpath or mod.relpath.endswith('emissions/utils.py')
              for f in mod.functions.values() if any('cache' in d for d in f.decorators())}
    ctx.floor('C01-R6', len(cached), 3, 'memoised functions in the emissions package')
    n = 0
    for mod in prog.src_modules():
        if '/emissions/' not in mod.relpath:
            continue
        for fi in mod.functions.values():
            for t, st, how in stores_to(fi.node):
                v = getattr(st, 'value', None)
                if isinstance(t, ast.Name) and isinstance(v, ast.Call):
                    callee = resolve_call(prog, fi, v)
                    if callee is None or callee.qualname not in cached:
                        continue
                    n += 1
                    name = t.id
                    muts = [s2 for t2, s2, h2 in stores_to(fi.node) if isinstance(t2, ast.Subscript) and norm(t2.value) == name
                            and s2.lineno > st.lineno]
                    rebinds = [s2 for t2, s2, h2 in stores_to(fi.node) if isinstance(t2, ast.Name) and t2.id == name
                               and s2.lineno > st.lineno and '.copy(' in norm(getattr(s2, 'value', ast.Constant(0)))]
                    bad = [mu for mu in muts if not any(rb.lineno < mu.lineno for rb in rebinds)]
                    ctx.ob('C01-R6', fi, f'{name} = {callee.name}(…) (memoised) is not modified in place', not bad,
                           'only read, or copied before being changed' if not bad else
                           (f'`{norm(bad[0])[:50]}` writes into the object the cache hands to every later caller: after one '
                            'inventory in trajectory mode the approach/climb fuel stays zero for every later inventory '
                            '(climb/descent fuel is then counted nowhere in LTO mode)'), line=(bad[0].lineno if bad else st.lineno))
    ctx.ob('C01-R6', ('src/AEIC/emissions', '<package>'), f'{n} call sites of memoised functions examined', True, 'see above', nontrivial=False)


# ---------------------------------------------------------------------------------------------------------------
# R7: ownership of what is written in place (a small abstract interpreter over the producers' own statements)
# ---------------------------------------------------------------------------------------------------------------

_FRESH, _SCALAR, _UNKNOWN = 'fresh', 'scalar', 'unknown'
_VIEW_FUNCS = {'np.asarray', 'np.asanyarray', 'np.atleast_1d', 'np.atleast_2d', 'np.ravel', 'np.squeeze', 'np.reshape',
               'np.ascontiguousarray', 'np.transpose', 'np.broadcast_to', 'numpy.asarray', 'numpy.asanyarray', 'np.ma.asarray'}
_VIEW_METHODS = {'reshape', 'view', 'ravel', 'squeeze', 'transpose', 'swapaxes'}
_COPY_FUNCS = {'dict', 'list', 'tuple', 'set', 'frozenset', 'sorted', 'OrderedDict', 'collections.OrderedDict', 'np.array',
               'numpy.array', 'np.copy', 'numpy.copy', 'copy.copy', 'copy'}
_DEEPCOPY_FUNCS = {'copy.deepcopy', 'deepcopy'}
_INPLACE_METHODS = {'fill', 'sort', 'resize', 'itemset', 'put', 'partition', 'update', 'append', 'extend', 'clear', 'pop',
                    'setdefault', 'insert', 'remove', 'add', 'discard', 'popitem', 'reverse', 'appendleft'}
_MAX_DEPTH = 4


class _AV:
    """abstract value: `own` - who may hold the object itself ('fresh': created by this activation and not yet handed
    out; ('foreign', kind, text): an object somebody else holds - reached from a parameter, a module-level name or a
    memoised result; 'scalar'; 'unknown'); `held` - the same for what it contains (elements), `fields` - per attribute"""
    __slots__ = ('own', 'held', 'fields', '_h')

    def __init__(self, own, held=None, fields=None):
        self.own = frozenset(own)
        self.held = held
        self.fields = tuple(sorted(fields.items())) if isinstance(fields, dict) else fields
        self._h = hash((self.own, self.held, self.fields))

    def __hash__(self):
        return self._h

    def __eq__(self, other):
        return isinstance(other, _AV) and self._h == other._h and self.own == other.own and self.held == other.held \
            and self.fields == other.fields

    def foreign(self):
        return sorted(t for t in self.own if isinstance(t, tuple))

    def depth(self):
        return 1 + max([self.held.depth() if self.held is not None else 0] + [v.depth() for _k, v in (self.fields or ())])


_AV_UNKNOWN = _AV({_UNKNOWN})
_AV_SCALAR = _AV({_SCALAR})
_AV_FRESH = _AV({_FRESH})


def _av_tags(av):
    out = set(av.own)
    if av.held is not None:
        out |= _av_tags(av.held)
    for _k, v in av.fields or ():
        out |= _av_tags(v)
    return out


def _av_cap(av, room=_MAX_DEPTH):
    """av with everything below `room` levels folded into one leaf"""
    if av is None:
        return None
    if room <= 1:
        return _AV(_av_tags(av)) if (av.held is not None or av.fields) else av
    if av.held is None and not av.fields:
        return av
    return _AV(av.own, _av_cap(av.held, room - 1), {k: _av_cap(v, room - 1) for k, v in av.fields} if av.fields else None)


def _clip(s, n=70):
    return s if len(s) <= n else s[:n - 1] + '…'


def _extend(desc, suffix):
    """access path `desc` one step further; paths are kept to four steps so that loops reach a fixed point"""
    if desc.endswith('…'):
        return desc
    return desc + '…' if desc.count('.') + desc.count('[') >= 4 else _clip(desc + suffix)


def _av_read(av, suffix, field=None):
    """what reading an element (`x[k]`, iteration) or an attribute (`x.a`) of an object described by av yields"""
    if field is not None and av.fields:
        d = dict(av.fields)
        if field in d:
            return d[field]
    # an attribute that is not among the known ones is another slot of the object: it holds nothing of what was stored
    # into the attributes that are known (elements - `x[k]`, iteration - can be any of them)
    parts = [av.held] if av.held is not None else []
    if field is None and av.fields:
        parts += [v for _k, v in av.fields]
    own = set()
    for t in av.own:
        if isinstance(t, tuple):
            own.add((t[0], t[1], _extend(t[2], suffix)))
        elif t == _FRESH:
            if not parts:
                own.add(_UNKNOWN)
        else:
            own.add(t)
    r = _AV(own) if own else None
    for p in parts:
        r = p if r is None else _av_join(r, p)
    return r or _AV_UNKNOWN


def _av_join(a, b):
    if a is None:
        return b
    if b is None or a == b:
        return a
    if a.held is None and b.held is None:
        held = None
    else:
        held = _av_join(a.held if a.held is not None else _av_read(a, '[…]'), b.held if b.held is not None else _av_read(b, '[…]'))
    fields = None
    if a.fields is not None and b.fields is not None:
        da, db = dict(a.fields), dict(b.fields)
        fields = {k: _av_join(da.get(k) or _av_read(a, '.' + k, k), db.get(k) or _av_read(b, '.' + k, k)) for k in set(da) | set(db)}
    elif a.fields or b.fields:
        for _k, v in (a.fields or b.fields):
            held = _av_join(held, v) if held is not None else v
    return _av_cap(_AV(a.own | b.own, held, fields))


def _av_deepfresh(av):
    """av as a deep copy: nothing in it is anybody else's"""
    def tags(ts):
        return {_FRESH if isinstance(t, tuple) else t for t in ts}
    return _AV(tags(av.own), _av_deepfresh(av.held) if av.held is not None else None,
               {k: _av_deepfresh(v) for k, v in av.fields} if av.fields else None)


def _basic_slice(sl):
    """`a:b`, or a tuple of slices / None / ... with at least one slice: numpy hands out a view"""
    if isinstance(sl, ast.Slice):
        return True
    if isinstance(sl, ast.Tuple):
        return any(isinstance(x, ast.Slice) for x in sl.elts) and all(
            isinstance(x, ast.Slice) or (isinstance(x, ast.Constant) and (x.value is None or x.value is Ellipsis)) for x in sl.elts)
    return False


class _OwnState:
    __slots__ = ('env', 'facts', 'conds')

    def __init__(self, env=None, facts=None, conds=frozenset()):
        self.env, self.facts, self.conds = env or {}, facts or {}, conds

    def copy(self):
        return _OwnState(dict(self.env), dict(self.facts), self.conds)

    def same(self, o):
        return self.env == o.env and self.facts == o.facts and self.conds == o.conds

    def kill_name(self, name):
        for k in [k for k, (names, _av) in self.facts.items() if name in names]:
            del self.facts[k]

    def kill_base(self, base):
        for k in [k for k in self.facts if k.startswith(base + '[') or k.startswith(base + '.')]:
            del self.facts[k]


def _st_join(a, b):
    env = dict(a.env)
    for k, v in b.env.items():
        env[k] = _av_join(env[k], v) if k in env else v
    facts = {k: (a.facts[k][0], _av_join(a.facts[k][1], b.facts[k][1])) for k in a.facts if k in b.facts}
    return _OwnState(env, facts, a.conds & b.conds)


def _st_merge(states):
    """one state per set of decided conditions (at most 8 sets, else one state)"""
    groups = {}
    for s in states:
        groups[s.conds] = _st_join(groups[s.conds], s) if s.conds in groups else s
    out = list(groups.values())
    if len(out) > 8:
        r = out[0]
        for s in out[1:]:
            r = _st_join(r, s)
        out = [r]
    return out


def _cond_atom(fn, e, pol):
    """(text, polarity) of an atomic test in a canonical spelling: `!=` / `is not` / `not in` read as the negation of
    `==` / `is` / `in`, `is` as `==`; a local with one definition is read as that definition"""
    seen = 0
    while isinstance(e, ast.Name) and seen < 4:
        v = single_def_value(fn, e.id)
        if v is None:
            break
        e, seen = v, seen + 1
        while isinstance(e, ast.UnaryOp) and isinstance(e.op, ast.Not):
            e, pol = e.operand, not pol
    if isinstance(e, ast.Compare) and len(e.ops) == 1:
        op = e.ops[0]
        sym = {ast.Eq: ('==', True), ast.NotEq: ('==', False), ast.Is: ('==', True), ast.IsNot: ('==', False),
               ast.In: ('in', True), ast.NotIn: ('in', False)}.get(type(op))
        if sym is not None:
            return f'{norm(e.left)} {sym[0]} {norm(e.comparators[0])}', pol == sym[1]
    return norm(e), pol


def _cond_facts(fn, test, pol):
    from ..astutil import conjuncts
    return [_cond_atom(fn, e, p) for e, p in conjuncts(test, pol)]


def _stable_test(fn, e, assigned):
    """the test reads nothing this activation changes: no call, no name the function assigns"""
    for x in ast.walk(e):
        if isinstance(x, (ast.Call, ast.Await, ast.Yield, ast.NamedExpr, ast.Lambda)):
            return False
        if isinstance(x, ast.Name) and x.id in assigned:
            v = single_def_value(fn, x.id)
            if v is None or not _stable_test(fn, v, assigned - {x.id}):
                return False
    return True


def _tracked_conditions(fn):
    """texts of the atomic tests that the function evaluates at more than one place and that cannot change in between:
    the analysis keeps the paths on which such a test is true apart from those on which it is false"""
    assigned = set()
    for t, _s, _h in stores_to(fn):
        if isinstance(t, ast.Name):
            assigned.add(t.id)
    count = {}
    for x in walk_no_nested(fn):
        tests = []
        if isinstance(x, (ast.If, ast.IfExp, ast.While)):
            tests.append(x.test)
        elif isinstance(x, ast.Match):
            for c in x.cases:
                if isinstance(c.pattern, ast.MatchValue):
                    tests.append(ast.Compare(left=x.subject, ops=[ast.Eq()], comparators=[c.pattern.value]))
        for t in tests:
            for e, _p in _split_atoms(t):
                if _stable_test(fn, e, assigned):
                    k = _cond_atom(fn, e, True)[0]
                    count[k] = count.get(k, 0) + 1
    return {k for k, n in count.items() if n >= 2}


def _split_atoms(e):
    if isinstance(e, ast.UnaryOp) and isinstance(e.op, ast.Not):
        return _split_atoms(e.operand)
    if isinstance(e, ast.BoolOp):
        return [x for v in e.values for x in _split_atoms(v)]
    return [(e, True)]


def _ctor_captures(ci, init):
    """parameters of an __init__ that the new object keeps by reference *and writes through*: `self.a = p` /
    `self.a = args[0]` (also through a conditional expression / `or`) for an attribute `a` that some method of the class
    changes in place (`self.a[k] = v`, `del self.a[k]`, self.a.update(…)); a store into the new object then is a store
    into what was handed to the constructor"""
    from ..resolve import self_attr_stores
    fn = init.node
    params = set(init.params[1:])
    written = set()
    for c in ci.mro():
        for meth in c.methods.values():
            if meth.params[:1] == ['self']:
                written |= {attr for attr, _s, how in self_attr_stores(meth) if how.startswith(('elem-', 'call-'))}

    def roots(e):
        if isinstance(e, ast.Name):
            return {e.id} & params
        if isinstance(e, ast.Subscript) and isinstance(e.value, ast.Name) and fn.args.vararg and e.value.id == fn.args.vararg.arg:
            return {e.value.id}
        if isinstance(e, ast.IfExp):
            return roots(e.body) | roots(e.orelse)
        if isinstance(e, ast.BoolOp):
            return set().union(*[roots(v) for v in e.values])
        return set()

    out = set()
    for t, s_, how in stores_to(fn):
        if isinstance(t, ast.Attribute) and isinstance(t.value, ast.Name) and t.value.id == 'self' and how in ('assign', 'ann') \
                and t.attr in written and getattr(s_, 'value', None) is not None:
            out |= roots(s_.value)
    return out


class _FakeFI:
    """a function that exists only as source text (positive controls)"""

    def __init__(self, src, module):
        self.node = ast.parse(src).body[0]
        for n in ast.walk(self.node):
            for ch in ast.iter_child_nodes(n):
                ch._parent = n
        self.module, self.cls, self.qualname, self.name, self.file = module, None, self.node.name, self.node.name, module.relpath
        a = self.node.args
        self.params = [x.arg for x in a.posonlyargs + a.args] + ([a.vararg.arg] if a.vararg else []) + \
            [x.arg for x in a.kwonlyargs] + ([a.kwarg.arg] if a.kwarg else [])

    def decorators(self):
        return []


class _Ownership:
    """Runs a function's statements over abstract values (see _AV): which objects may still be somebody else's when
    something is stored into them.  Branches are joined (a copy made on one branch only leaves the object possibly
    foreign), except that the two outcomes of a test the function repeats unchanged are kept apart; loops run to a
    fixed point; `for k in m: m[k] = <copy>` (every key, unconditionally) replaces what m holds; resolved functions of
    the package are entered with the caller's values (results, and what they put into their arguments, come back)."""

    def __init__(self, prog, scope):
        self.prog, self.scope = prog, scope
        self.sites = {}       # (file, line, col) -> dict(fi, node, text, foreign tags, partly fresh?, n)
        self.memo = {}
        self.busy = set()
        self.tracked = {}
        self.captures = {}
        self._resolved = {}

    # -- function level ------------------------------------------------------------------------------------------
    def run_root(self, fi):
        bound = {}
        a = fi.node.args
        for p in fi.params:
            if p in ('self', 'cls') and fi.cls is not None:
                bound[p] = _AV_UNKNOWN
            elif (a.vararg and p == a.vararg.arg) or (a.kwarg and p == a.kwarg.arg):
                bound[p] = _AV({_FRESH}, _AV({('foreign', 'param', p)}))
            else:
                bound[p] = _AV({('foreign', 'param', p)})
        return self.analyse(fi, bound, 0)

    def analyse(self, fi, bound, depth):
        key = (id(fi.node), tuple(sorted(bound.items())))
        if key in self.memo:
            return self.memo[key]
        if key in self.busy or depth > 5:
            return _AV_UNKNOWN, {}
        self.busy.add(key)
        fr = _Frame(self, fi, depth)
        st = _OwnState(dict(bound))
        a = fi.node.args
        defaults = dict(zip([x.arg for x in (a.posonlyargs + a.args)][len(a.posonlyargs + a.args) - len(a.defaults):], a.defaults))
        defaults.update({x.arg: d for x, d in zip(a.kwonlyargs, a.kw_defaults) if d is not None})
        for p in fi.params:
            if p not in st.env:
                d = defaults.get(p)
                st.env[p] = _AV_SCALAR if d is None or isinstance(d, ast.Constant) else _AV({('foreign', 'global', f'default value of `{p}`')})
        out = fr.block(fi.node.body, [st])
        exits = fr.returns + [(None, s) for s in out]
        ret, fin = None, None
        for v, s in exits:
            ret = _av_join(ret, v if v is not None else _AV_SCALAR)
            fin = s if fin is None else _st_join(fin, s)
        after = {}
        if fin is not None:
            for p in bound:
                if not local_defs(fi.node, p) and p in fin.env and fin.env[p] != bound[p]:
                    after[p] = fin.env[p]
        self.busy.discard(key)
        self.memo[key] = (ret or _AV_SCALAR, after)
        return self.memo[key]

    def resolved(self, kind, fi, call):
        """the repository class / function a call node resolves to (looked up once per node)"""
        from ..resolve import resolve_call, resolve_class_call
        k = (kind, id(call))
        if k not in self._resolved:
            self._resolved[k] = (call, (resolve_class_call if kind == 'class' else resolve_call)(self.prog, fi, call))
        return self._resolved[k][1]

    def note_store(self, fi, node, base_av, what):
        if not any(sf in fi.file for sf in self.scope):
            return
        k = (fi.file, node.lineno, node.col_offset)
        r = self.sites.setdefault(k, {'fi': fi, 'node': node, 'what': what, 'foreign': set(), 'fresh': False, 'n': 0})
        r['n'] += 1
        r['foreign'] |= set(base_av.foreign())
        r['fresh'] = r['fresh'] or _FRESH in base_av.own


class _Frame:
    def __init__(self, eng, fi, depth):
        self.eng, self.fi, self.fn, self.depth = eng, fi, fi.node, depth
        self.returns = []
        self.loops = []
        if id(fi.node) not in eng.tracked:
            eng.tracked[id(fi.node)] = _tracked_conditions(fi.node)
        self.tracked = eng.tracked[id(fi.node)]

    # -- conditions ----------------------------------------------------------------------------------------------
    def _decided(self, st, facts):
        """False when one of the facts (text, polarity) contradicts what is known on this path"""
        return not any((t, not p) in st.conds for t, p in facts)

    def _assume(self, st, facts):
        new = {(t, p) for t, p in facts if t in self.tracked}
        if new:
            st.conds = st.conds | new
        return st

    def branch(self, st, test):
        """(state for the true outcome | None, state for the false outcome | None)"""
        tf, ff = _cond_facts(self.fn, test, True), _cond_facts(self.fn, test, False)
        t = self._assume(st.copy(), tf) if self._decided(st, tf) else None
        f = self._assume(st.copy(), ff) if self._decided(st, ff) else None
        if t is None and f is None:      # contradictory knowledge: keep both rather than lose the path
            return st.copy(), st.copy()
        return t, f

    # -- statements ----------------------------------------------------------------------------------------------
    def block(self, stmts, states):
        for s in stmts:
            if not states:
                break
            nxt = []
            for st in states:
                nxt += self.stmt(s, st)
            states = _st_merge(nxt)
        return states

    def stmt(self, s, st):
        if isinstance(s, ast.Assign):
            av = self.eval(s.value, st)
            for t in s.targets:
                self.assign(t, av, st, s.value, s)
            return [st]
        if isinstance(s, ast.AnnAssign):
            if s.value is not None:
                self.assign(s.target, self.eval(s.value, st), st, s.value, s)
            return [st]
        if isinstance(s, ast.AugAssign):
            self.eval(s.value, st)
            if isinstance(s.target, (ast.Subscript, ast.Attribute)):
                self.store_into(s.target, _AV({_FRESH, _SCALAR}), st, s)
            elif isinstance(s.target, ast.Name):
                old = st.env.get(s.target.id)
                st.env[s.target.id] = _av_join(old, _AV({_FRESH, _SCALAR})) if old is not None else _AV_UNKNOWN
                st.kill_name(s.target.id)
            return [st]
        if isinstance(s, ast.Expr):
            self.eval(s.value, st)
            return [st]
        if isinstance(s, ast.Return):
            self.returns.append((self.eval(s.value, st) if s.value is not None else _AV_SCALAR, st))
            return []
        if isinstance(s, ast.Raise):
            return []
        if isinstance(s, ast.Continue):
            if self.loops:
                self.loops[-1]['cont'].append(st)
            return []
        if isinstance(s, ast.Break):
            if self.loops:
                self.loops[-1]['brk'].append(st)
            return []
        if isinstance(s, ast.If):
            self.eval(s.test, st)
            t, f = self.branch(st, s.test)
            out = []
            if t is not None:
                out += self.block(s.body, [t])
            if f is not None:
                out += self.block(s.orelse, [f])
            return out
        if isinstance(s, (ast.For, ast.AsyncFor)):
            return self.loop(s, st)
        if isinstance(s, ast.While):
            return self.loop(s, st)
        if isinstance(s, ast.Match):
            return self.match(s, st)
        if isinstance(s, (ast.With, ast.AsyncWith)):
            for it in s.items:
                v = self.eval(it.context_expr, st)
                if it.optional_vars is not None:
                    self.assign(it.optional_vars, v, st, None, s)
            return self.block(s.body, [st])
        if isinstance(s, ast.Try):
            pre = st.copy()
            body = self.block(s.body, [st])
            out = self.block(s.orelse, [x.copy() for x in body]) if s.orelse else body
            mid = _st_merge([pre] + [x.copy() for x in body])
            for h in s.handlers:
                for m in mid:
                    hs = m.copy()
                    if h.name:
                        hs.env[h.name] = _AV_UNKNOWN
                    out += self.block(h.body, [hs])
            out = _st_merge(out)
            if s.finalbody:
                out = self.block(s.finalbody, out)
            return out
        if isinstance(s, ast.Delete):
            for t in s.targets:
                if isinstance(t, (ast.Subscript, ast.Attribute)):
                    self.store_into(t, None, st, s)
                elif isinstance(t, ast.Name):
                    st.env.pop(t.id, None)
                    st.kill_name(t.id)
            return [st]
        if isinstance(s, (ast.FunctionDef, ast.AsyncFunctionDef, ast.ClassDef)):
            st.env[s.name] = _AV_UNKNOWN
            return [st]
        if isinstance(s, ast.Assert):
            self.eval(s.test, st)
            return [st]
        return [st]

    def match(self, s, st):
        self.eval(s.subject, st)
        out, rest = [], st
        for c in s.cases:
            if rest is None:
                break
            if isinstance(c.pattern, ast.MatchValue) and c.guard is None:
                test = ast.Compare(left=s.subject, ops=[ast.Eq()], comparators=[c.pattern.value])
                t, rest = self.branch(rest, test)
            elif isinstance(c.pattern, ast.MatchAs) and c.pattern.pattern is None and c.guard is None:
                t, rest = rest.copy(), None
                if c.pattern.name:
                    t.env[c.pattern.name] = self.eval(s.subject, t)
            else:
                t = rest.copy()
                for n in ast.walk(c.pattern):
                    for nm in (getattr(n, 'name', None), getattr(n, 'rest', None)):
                        if isinstance(nm, str):
                            t.env[nm] = _AV_UNKNOWN
                            t.kill_name(nm)
            if t is not None:
                out += self.block(c.body, [t])
        if rest is not None:
            out.append(rest)
        return out

    def loop(self, s, st):
        is_for = not isinstance(s, ast.While)
        pre = [st]
        cur = [st.copy()]
        brk, out = [], []
        for _round in range(8):
            heads = []
            for h in cur:
                h = h.copy()
                if is_for:
                    self.bind_iteration(s.target, s.iter, h, s)
                    heads.append(h)
                else:
                    self.eval(s.test, h)
                    t, _f = self.branch(h, s.test)
                    if t is not None:
                        heads.append(t)
            self.loops.append({'cont': [], 'brk': []})
            out = self.block(s.body, heads)
            frame = self.loops.pop()
            out = _st_merge(out + frame['cont'])
            brk += frame['brk']
            new = _st_merge([p.copy() for p in pre] + [o.copy() for o in out])
            if len(new) == len(cur) and all(a.same(b) for a, b in zip(new, cur)):
                break
            cur = new
        after = [x.copy() for x in cur]
        if is_for and out and not brk:
            self.every_key_replaced(s, out, after)
        if s.orelse:
            after = self.block(s.orelse, after)
        return _st_merge(after + brk)

    def every_key_replaced(self, s, out, after):
        """`for k in m` / `for k, v in m.items()` whose body, on every path, ends with m[k] freshly stored (and stores
        nothing else into m): afterwards m holds what those stores put there, and nothing of what it held before"""
        mi = map_iteration(s.target, s.iter)
        if mi is None or mi[1] is None:
            return
        m, k = mi[0], mi[1]
        if not isinstance(iterated_mapping(s.iter)[0], ast.Name):
            return
        path = f'{m}[{k}]'
        if not all(path in o.facts for o in out):
            return
        for t, _st, _how in stores_to(s):
            if isinstance(t, ast.Subscript) and norm(t.value) == m and norm(t.slice) != k:
                return
            if isinstance(t, ast.Name) and t.id in (m, k) and _st is not s:
                return
        for c in calls_in(s):
            if isinstance(c.func, ast.Attribute) and norm(c.func.value) == m and c.func.attr in _INPLACE_METHODS:
                return
            if any(isinstance(a_, ast.Name) and a_.id == m for a_ in list(c.args) + [kw.value for kw in c.keywords]):
                return
        new = None
        for o in out:
            new = _av_join(new, o.facts[path][1])
        for a_ in after:
            if m in a_.env:
                a_.env[m] = _av_cap(_AV(a_.env[m].own, new, a_.env[m].fields))

    def bind_iteration(self, target, it, st, node):
        """bind the target(s) of `for target in it` / a comprehension clause to what the iteration yields"""
        elem, pair = None, None
        im = iterated_mapping(it)
        core = it
        while isinstance(core, ast.Call) and isinstance(core.func, ast.Name) and core.func.id in ('list', 'tuple', 'sorted', 'iter', 'reversed') \
                and len(core.args) == 1:
            core = core.args[0]
        if isinstance(core, (ast.List, ast.Tuple, ast.Set)):
            for e in core.elts:
                v = self.eval(e, st)
                elem = _av_join(elem, _av_read(v, '[…]') if isinstance(e, ast.Starred) else v)
            elem = elem or _AV_UNKNOWN
        elif isinstance(core, ast.Call) and call_name(core) in ('zip', 'enumerate', 'range'):
            cn = call_name(core)
            if cn == 'range':
                elem = _AV_SCALAR
            elif cn == 'enumerate' and core.args:
                pair = [_AV_SCALAR, _av_read(self.eval(core.args[0], st), '[…]')]
            else:
                pair = [_av_read(self.eval(a_, st), '[…]') for a_ in core.args]
        elif im is not None and im[1] == 'items':
            pair = [_AV_SCALAR, _av_read(self.eval(im[0], st), '[…]')]
        elif im is not None and im[1] == 'values':
            elem = _av_read(self.eval(im[0], st), '[…]')
        elif im is not None and isinstance(core, ast.Call) and isinstance(core.func, ast.Attribute) and core.func.attr == 'keys':
            self.eval(im[0], st)
            elem = _AV_SCALAR
        else:
            elem = _av_read(self.eval(core, st), '[…]')
        if pair is not None and isinstance(target, (ast.Tuple, ast.List)) and len(target.elts) == len(pair):
            for t, v in zip(target.elts, pair):
                self.assign(t, v, st, None, node)
            return
        if pair is not None:
            j = None
            for v in pair:
                j = _av_join(j, v)
            elem = _AV({_FRESH}, j)
        self.assign(target, elem, st, None, node)

    # -- stores --------------------------------------------------------------------------------------------------
    def assign(self, t, av, st, value_node, stmt):
        if isinstance(t, ast.Name):
            st.env[t.id] = av
            st.kill_name(t.id)
        elif isinstance(t, (ast.Tuple, ast.List)):
            if isinstance(value_node, (ast.Tuple, ast.List)) and len(value_node.elts) == len(t.elts) \
                    and not any(isinstance(x, ast.Starred) for x in list(t.elts) + list(value_node.elts)):
                for a_, b_ in zip(t.elts, value_node.elts):
                    self.assign(a_, self.eval(b_, st), st, b_, stmt)
            else:
                for a_ in t.elts:
                    self.assign(a_, _av_read(av, '[…]'), st, None, stmt)
        elif isinstance(t, ast.Starred):
            self.assign(t.value, _AV({_FRESH}, _av_read(av, '[…]')), st, None, stmt)
        elif isinstance(t, (ast.Subscript, ast.Attribute)):
            self.store_into(t, av, st, stmt)

    def store_into(self, t, av, st, stmt):
        """`B[k] = v` / `B.a = v` / `B[k] op= v` / `del B[k]`: the object B denotes is changed in place"""
        base_e = t.value
        base = self.eval(base_e, st)
        if not (isinstance(t, ast.Attribute) and isinstance(base_e, ast.Name) and base_e.id in ('self', 'cls') and self.fi.cls is not None):
            self.eng.note_store(self.fi, t, base, norm(stmt))
        btxt = norm(self._view_root(base_e))
        if av is not None:
            if isinstance(t, ast.Attribute):
                new = _AV(base.own, base.held, dict(base.fields or ()) | {t.attr: av})
            elif isinstance(t, ast.Subscript) and _basic_slice(t.slice):
                new = base
            else:
                new = _AV(base.own, _av_join(base.held if base.held is not None else _av_read(base, '[…]'), av), base.fields)
            new = _av_cap(new)
            root = self._view_root(base_e)
            if isinstance(root, ast.Name):
                if root.id in st.env:
                    st.env[root.id] = new
            elif btxt in st.facts:
                st.facts[btxt] = (st.facts[btxt][0], new)
        st.kill_base(norm(t) if not (isinstance(t, ast.Subscript) and _basic_slice(t.slice)) else '\0')
        if isinstance(t, ast.Subscript) and not _basic_slice(t.slice):
            # another key of the same container may be the same element: forget what was known about them
            for k in [k for k in st.facts if k.startswith(btxt + '[') and k != norm(t)]:
                del st.facts[k]
        if av is not None and self._simple_path(t):
            st.facts[norm(t)] = (frozenset(names_in(t)), av)
        elif norm(t) in st.facts:
            del st.facts[norm(t)]

    @staticmethod
    def _view_root(e):
        while isinstance(e, ast.Subscript) and _basic_slice(e.slice):
            e = e.value
        return e

    @staticmethod
    def _simple_path(t):
        if isinstance(t, ast.Attribute):
            return isinstance(t.value, ast.Name)
        if isinstance(t, ast.Subscript) and isinstance(t.value, (ast.Name, ast.Attribute)) and not _basic_slice(t.slice):
            return all(isinstance(x, (ast.Name, ast.Attribute, ast.Constant, ast.Load)) for x in ast.walk(t.slice)) \
                and all(isinstance(x, (ast.Name, ast.Attribute, ast.Load)) for x in ast.walk(t.value))
        return False

    # -- expressions ---------------------------------------------------------------------------------------------
    def eval(self, e, st):
        if e is None:
            return _AV_SCALAR
        if isinstance(e, ast.Constant):
            return _AV_SCALAR
        if isinstance(e, ast.Name):
            if e.id in st.env:
                return st.env[e.id]
            return self.global_name(e.id)
        if isinstance(e, (ast.Attribute, ast.Subscript)):
            txt = norm(e)
            if txt in st.facts:
                return st.facts[txt][1]
            base = self.eval(e.value, st)
            if isinstance(e, ast.Attribute):
                if e.attr == 'T':
                    return base
                return _av_read(base, '.' + e.attr, e.attr)
            if _basic_slice(e.slice):
                return base          # a basic slice of an array is a view of it
            self.eval(e.slice, st)
            return _av_read(base, f'[{_clip(norm(e.slice), 24)}]')
        if isinstance(e, ast.Call):
            return self.call(e, st)
        if isinstance(e, ast.BoolOp):
            r = None
            for v in e.values:
                r = _av_join(r, self.eval(v, st))
            return r
        if isinstance(e, ast.IfExp):
            self.eval(e.test, st)
            t, f = self.branch(st, e.test)
            r = None
            if t is not None:
                r = _av_join(r, self.eval(e.body, t))
            if f is not None:
                r = _av_join(r, self.eval(e.orelse, f))
            return r
        if isinstance(e, (ast.BinOp, ast.UnaryOp)):
            for ch in ast.iter_child_nodes(e):
                if isinstance(ch, ast.expr):
                    self.eval(ch, st)
            return _AV({_FRESH}, _AV_SCALAR)
        if isinstance(e, ast.Compare):
            self.eval(e.left, st)
            for c in e.comparators:
                self.eval(c, st)
            return _AV({_FRESH}, _AV_SCALAR)
        if isinstance(e, ast.Dict):
            h = None
            for k, v in zip(e.keys, e.values):
                x = self.eval(v, st)
                h = _av_join(h, _av_read(x, '[…]') if k is None else x)
            return _av_cap(_AV({_FRESH}, h or _AV_SCALAR))
        if isinstance(e, (ast.List, ast.Tuple, ast.Set)):
            h = None
            for v in e.elts:
                x = self.eval(v.value if isinstance(v, ast.Starred) else v, st)
                h = _av_join(h, _av_read(x, '[…]') if isinstance(v, ast.Starred) else x)
            return _av_cap(_AV({_FRESH}, h or _AV_SCALAR))
        if isinstance(e, (ast.ListComp, ast.SetComp, ast.GeneratorExp, ast.DictComp)):
            inner = st.copy()
            for g in e.generators:
                self.bind_iteration(g.target, g.iter, inner, e)
                for c in g.ifs:
                    self.eval(c, inner)
            return _av_cap(_AV({_FRESH}, self.eval(e.value if isinstance(e, ast.DictComp) else e.elt, inner)))
        if isinstance(e, ast.NamedExpr):
            v = self.eval(e.value, st)
            self.assign(e.target, v, st, e.value, e)
            return v
        if isinstance(e, ast.Starred):
            return _av_read(self.eval(e.value, st), '[…]')
        if isinstance(e, (ast.JoinedStr, ast.FormattedValue)):
            return _AV_SCALAR
        return _AV_UNKNOWN

    def global_name(self, name):
        r = self.eng.prog.resolve_name(self.fi.module, name)
        if isinstance(r, tuple) and r[0] == 'const':
            v = r[1].constants[r[2]]
            if isinstance(v, ast.Constant) or (isinstance(v, (ast.BinOp, ast.UnaryOp)) and not any(isinstance(x, ast.Call) for x in ast.walk(v))):
                return _AV_SCALAR
            return _AV({('foreign', 'global', name)})
        return _AV_UNKNOWN

    # -- calls ---------------------------------------------------------------------------------------------------
    def call(self, e, st):
        args = [self.eval(a_, st) for a_ in e.args]
        kws = {k.arg: self.eval(k.value, st) for k in e.keywords}
        cn = call_name(e).split('[')[0]
        f = e.func
        head = cn.split('.')[0]
        is_module_fn = isinstance(f, ast.Name) or (isinstance(f, ast.Subscript)) or (head in self.fi.module.imports and head not in st.env)
        plain = not any(isinstance(a_, ast.Starred) for a_ in e.args) and None not in kws
        if is_module_fn:
            if cn in _DEEPCOPY_FUNCS and args:
                return _av_deepfresh(_AV({_FRESH}, args[0].held, args[0].fields))
            if cn in _VIEW_FUNCS and args:
                cp = kwarg(e, 'copy')
                if not (isinstance(cp, ast.Constant) and cp.value is True):
                    return args[0]
                return _AV({_FRESH}, _AV_SCALAR)
            if cn == 'getattr' and len(e.args) >= 2 and isinstance(e.args[1], ast.Constant) and isinstance(e.args[1].value, str):
                r = _av_read(args[0], '.' + e.args[1].value, e.args[1].value)
                return _av_join(r, args[2]) if len(args) > 2 else r
            ci = self.eng.resolved('class', self.fi, e) if plain else None
            if ci is not None:
                return self.construct(ci, e, args, kws)
            if cn in _COPY_FUNCS and plain:
                h = None
                for a_ in args:
                    h = _av_join(h, _av_read(a_, '[…]'))
                for v in kws.values():
                    h = _av_join(h, v)
                return _av_cap(_AV({_FRESH}, h or _AV_SCALAR))
            callee = self.eng.resolved('call', self.fi, e) if plain else None
            if callee is not None and callee.cls is None:
                if any('cache' in d for d in callee.decorators()):
                    return _AV({('foreign', 'memo', f'{callee.name}(…)')})
                if any(sf in callee.file for sf in self.eng.scope) and not callee.node.decorator_list:
                    return self.enter(callee, e, args, kws, st)
            return _AV_UNKNOWN
        # a method of some object
        recv = self.eval(f.value, st)
        m = f.attr
        rtxt = norm(f.value)
        if m == 'copy':
            # a `copy` method of the repository is taken at its word only after reading it: one that hands back the
            # receiver itself on some path (`if self._mutable: return self`) does not give the caller an object of its own
            meth = self.copy_method(e) if plain else None
            if meth is not None:
                ret = self.enter(meth, e, args, kws, st, recv)
                if any(t == _FRESH or isinstance(t, tuple) for t in ret.own):
                    return ret
            return _av_cap(_AV({_FRESH}, recv.held if recv.held is not None else _av_read(recv, '[…]'), recv.fields))
        if m == '__deepcopy__':
            return _av_deepfresh(_AV({_FRESH}, recv.held, recv.fields))
        if m == 'astype':
            cp = kwarg(e, 'copy')
            return recv if isinstance(cp, ast.Constant) and cp.value is False else _AV({_FRESH}, _AV_SCALAR)
        if m in _VIEW_METHODS:
            return recv
        if m in _INPLACE_METHODS:
            self.eng.note_store(self.fi, e, recv, norm(e))
            add, strong = None, False
            if m == 'update':
                add = self.update_every_key(e, st)
                strong = add is not None
                if not strong:
                    for a_ in args:
                        add = _av_join(add, _av_read(a_, '[…]'))
                    for v in kws.values():
                        add = _av_join(add, v)
            elif m == 'extend':
                for a_ in args:
                    add = _av_join(add, _av_read(a_, '[…]'))
            elif m in ('append', 'add', 'appendleft'):
                add = args[0] if args else None
            elif m in ('insert', 'setdefault'):
                add = args[1] if len(args) > 1 else None
            if add is not None:
                held = add if strong else _av_join(recv.held if recv.held is not None else _av_read(recv, '[…]'), add)
                new = _av_cap(_AV(recv.own, held, recv.fields))
                if isinstance(f.value, ast.Name) and f.value.id in st.env:
                    st.env[f.value.id] = new
                elif rtxt in st.facts:
                    st.facts[rtxt] = (st.facts[rtxt][0], new)
            st.kill_base(rtxt)
            if m in ('pop', 'setdefault', 'popitem'):
                return _av_read(recv, '[…]')
            return _AV_SCALAR
        if m in ('values', 'keys'):
            return _AV({_FRESH}, _av_read(recv, '[…]') if m == 'values' else _AV_SCALAR)
        if m == 'items':
            return _AV({_FRESH}, _AV({_FRESH}, _av_read(recv, '[…]')))
        if m == 'get':
            r = _av_read(recv, '[…]')
            return _av_join(r, args[1]) if len(args) > 1 else r
        return _AV_UNKNOWN

    def update_every_key(self, e, st):
        """`m.update({k: E for k in m})` / `… for k, v in m.items()`: every key of m gets E"""
        f = e.func
        if not (isinstance(f.value, ast.Name) and len(e.args) == 1 and not e.keywords and isinstance(e.args[0], ast.DictComp)):
            return None
        dc = e.args[0]
        if len(dc.generators) != 1 or dc.generators[0].ifs:
            return None
        g = dc.generators[0]
        mi = map_iteration(g.target, g.iter)
        if mi is None or mi[0] != f.value.id or mi[1] is None or norm(dc.key) != mi[1]:
            return None
        inner = st.copy()
        self.bind_iteration(g.target, g.iter, inner, dc)
        return self.eval(dc.value, inner)

    def construct(self, ci, e, args, kws):
        init = ci.find_method('__init__')
        if init is not None:
            key = id(init.node)
            if key not in self.eng.captures:
                self.eng.captures[key] = _ctor_captures(ci, init)
            cap = self.eng.captures[key]
            a = init.node.args
            fixed = [x.arg for x in a.posonlyargs + a.args][1:]
            own, held = {_FRESH}, None
            for i, v in enumerate(args):
                p = fixed[i] if i < len(fixed) else (a.vararg.arg if a.vararg else None)
                if p in cap:
                    own |= {t for t in v.own if t != _FRESH and t != _SCALAR}
                    held = _av_join(held, _av_read(v, '[…]'))
            for k, v in kws.items():
                if k in cap:
                    own |= {t for t in v.own if t != _FRESH and t != _SCALAR}
                    held = _av_join(held, _av_read(v, '[…]'))
            return _av_cap(_AV(own, held))
        order = list(ci.all_fields())
        fields = {order[i]: v for i, v in enumerate(args) if i < len(order)}
        fields.update({k: v for k, v in kws.items() if k})
        return _av_cap(_AV({_FRESH}, None, fields))

    def copy_method(self, e):
        """the repository method a call `x.copy(…)` runs: resolved through the receiver's class when that is known, else
        the only `copy` method of the repository that accepts the keywords of the call"""
        r = self.eng.resolved('call', self.fi, e)
        if r is None and e.keywords:
            kws = {k.arg for k in e.keywords}
            cands = []
            for c in self.eng.prog.all_classes():
                mth = c.methods.get('copy')
                if mth is not None and not mth.node.decorator_list:
                    a = mth.node.args
                    if kws <= {x.arg for x in a.args + a.kwonlyargs} and len(e.args) < len(a.args):
                        cands.append(mth)
            r = cands[0] if len(cands) == 1 else None
        return r if r is not None and r.cls is not None and not r.node.decorator_list and r.params[:1] == ['self'] else None

    def enter(self, callee, e, args, kws, st, recv=None):
        a = callee.node.args
        names = [x.arg for x in a.posonlyargs + a.args]
        bound, exprs = {}, {}
        if recv is not None:
            bound[names[0]], names = recv, names[1:]
        for i, v in enumerate(args):
            if i < len(names):
                bound[names[i]], exprs[names[i]] = v, e.args[i]
            elif a.vararg:
                bound[a.vararg.arg] = _av_join(bound.get(a.vararg.arg), _AV({_FRESH}, v))
        for k in e.keywords:
            if k.arg in names or k.arg in [x.arg for x in a.kwonlyargs]:
                bound[k.arg], exprs[k.arg] = kws[k.arg], k.value
            elif a.kwarg:
                bound[a.kwarg.arg] = _av_join(bound.get(a.kwarg.arg), _AV({_FRESH}, kws[k.arg]))
        ret, after = self.eng.analyse(callee, bound, self.depth + 1)
        for p, av in after.items():
            x = exprs.get(p)
            if isinstance(x, ast.Name) and x.id in st.env:
                st.env[x.id] = av
                st.kill_base(x.id)
            elif x is not None and norm(x) in st.facts:
                st.facts[norm(x)] = (st.facts[norm(x)][0], av)
                st.kill_base(norm(x))
        return ret


_R7_CONTROL_BAD = '''
def control(model):
    table = {}
    table['a'] = model.data.first
    table['b'] = model.data.first * 2.0
    for key in table:
        item = table[key]
        if not item._mutable:
            item = table[key] = item.copy()
        item[0] = 0.0
    return table
'''
_R7_CONTROL_GOOD = '''
def control(model, flag):
    table = {}
    table['a'] = model.data.first
    if flag.on:
        for key in table:
            table[key] = table[key].copy()
    if flag.on:
        for key in table:
            table[key][0] = 0.0
    return table
'''


def rule_foreign_stores(ctx):
    """R7: nothing a producer writes in place may still be the caller's."""
    prog = ctx.prog
    scope = ('/emissions/',)
    lto_mod = prog.module(LTO)
    # positive / negative control: the same engine on two embedded functions
    verdicts = []
    for src in (_R7_CONTROL_BAD, _R7_CONTROL_GOOD):
        eng = _Ownership(prog, scope)
        eng.run_root(_FakeFI(src, lto_mod))
        verdicts.append(sorted(r['node'].lineno for r in eng.sites.values() if r['foreign']))
    ctx.control('C01-R7', verdicts == [[10], []],
                'embedded zeroing after a copy made on one branch only is recognised as a write into caller-held data; '
                'the same zeroing after an unconditional copy of every element (in a separate loop, under the same repeated test) is not')
    eng = _Ownership(prog, scope)
    from ..resolve import callees
    fns = [fi for m in prog.src_modules() if any(sf in m.relpath for sf in scope) for fi in m.functions.values()]
    called = {id(g.node) for f in fns for _c, g in callees(prog, f) if g is not None and g.node is not f.node}
    n = 0
    for fi in fns:
        if '<locals>' in fi.qualname:
            continue
        if fi.cls is None and fi.name.startswith('_') and not fi.name.startswith('__') and id(fi.node) in called:
            continue            # a private helper: judged with what its callers in the package hand it
        n += 1
        eng.run_root(fi)
    ctx.floor('C01-R7', len(eng.sites), 6, 'in-place stores examined in the emissions package')
    lto_sites = 0
    for (file, line, _col), r in sorted(eng.sites.items()):
        fi = r['fi']
        lto_sites += file == LTO
        bad = sorted(r['foreign'])
        if not bad:
            ctx.ob('C01-R7', fi, f'in-place `{_clip(r["what"], 60)}`', True,
                   'the written object was created by this computation on every path (constructed, computed or copied)', line=line,
                   nontrivial=r['fresh'])
            continue
        kinds = {'param': 'the caller\'s', 'global': 'the module-level', 'memo': 'the memoised'}
        bad.sort(key=lambda t: (('param', 'global', 'memo').index(t[1]) if t[1] in ('param', 'global', 'memo') else 9, t[2]))
        whose = '; '.join(f'{kinds.get(k, k)} `{txt}`' for _f, k, txt in bad[:3])
        partly = (' (it is an object created here only on some paths, for some of the elements or from some callers: a copy made under a condition - '
                  'a flag of the object, an emptiness or type test - does not make the object this function\'s own where the '
                  'condition fails)') if r['fresh'] else ''
        ctx.ob('C01-R7', fi, f'in-place `{_clip(r["what"], 60)}`', False,
               f'the object written here can still be {whose}{partly}: the change stays in data the function does not own, so the next '
               'inventory computed from the same data starts from altered (zeroed) indices / fuel and is no longer balanced or finite',
               line=line)
    ctx.ob('C01-R7', ('src/AEIC/emissions', '<package>'), f'{n} function(s) run, {len(eng.sites)} in-place stores examined', True,
           'see above', nontrivial=False)


def run(ctx):
    rule_cached_mutables(ctx)
    rule_foreign_stores(ctx)
    rule_sum(ctx)
    rule_fuel(ctx)
    rule_amounts(ctx)
    rule_windows(ctx)
    rule_speciation(ctx)
    ctx.assumptions += ['numpy broadcasting multiplies per-segment arrays elementwise; ThrustModeValues * is per mode',
                        'finiteness, sign and float rounding of the amounts are not decided']
