"""C01 — emissions inventory balances (bookkeeping shape, not numbers).

R1  sum over sources (T-AGREE): sum_total_emissions ranges over the whole
    Species enum; the accumulator receives exactly one `+=` per source
    parameter, reduced the way that source's values demand; the APU/GSE
    switches are the ones that gate their computation; the call passes each
    component's `.emissions` to the parameter of the same name; the only write
    to the totals afterwards is `[Species.CO2] += x` with the same x stored as
    lifecycle_co2, under the CO2 and life-cycle switches.
R2  fuel for exactly those components (T-PAIR): the components whose
    `.emissions` are summed are exactly those whose `.fuel_burn` enters
    total_fuel_burn, each added in the control region of its computation.
R3  amount = EI × component fuel (T-PAIR + def-use): per producer, the index
    map, the amount map and the reported fuel are read off the EmissionsSubset
    it returns (whatever the locals are called), and the variable that
    multiplies the indices must be the one whose value (APU) or sum (LTO; over
    the counted slice for the trajectory) is reported as fuel_burn.  Every place
    that fills the emissions map under a variable key stores a product whose
    factors are the index map's element at that key and the component fuel F,
    for a key that walks the index map's own keys with nothing (guard, filter,
    continue/break) that lets a key go without an amount.  The element may be
    spelt `indices[k]`, the value variable of `for k, v in indices.items()`,
    or a local standing for either; the loop may be a statement or a dict
    comprehension passed to `.update` / the constructor.  The returned
    fuel_burn derives from the same F (sum / slice-sum), and zeroing stores
    into elements of the two maps (however the element is reached) come as
    index/emission twins over one slice value.  In compute_emissions the array
    passed as the trajectory producer's multiplier (through any alias) is
    zeros_like(fuel_mass) with the single store [1:] = fuel_mass[:-1] -
    fuel_mass[1:].
R4  windows complementary (T-AGREE, finite): for every member of
    ClimbDescentMode exactly one of "trajectory excludes climb/descent" and
    "LTO keeps approach/climb fuel" holds; LTO zeroes exactly approach and
    climb of its per-mode fuel (stores under ThrustMode keys, or a loop over a
    literal / named constant collection of modes); the trajectory's fuel total
    and its zeroing use one slice.
R5  speciation identities (T-ALG): NO + NO2 + HONO ≡ 100 % per thrust class as
    a polynomial identity; the constant shares of GSE NOx given to NO, NO2 and
    HONO (written out per species, or rows of a constant table walked by a
    loop; literals or named constants) sum to exactly 1; APU takes its three
    fractions at one thrust mode; SOx = SO2 + SO4 wherever both are set; in
    lto.py, wherever the NOx family is written (helper or producer), NO, NO2
    and HONO are the one stored NOx index times their own fraction of a
    NOx_speciation() result; BFFM2 multiplies one NOx index by three
    proportion arrays indexed by one category array.
R6  memoised mutables: a local bound from a call of a functools.cache'd function
    of the emissions package is not stored into in place unless it was rebound
    to a copy first (the generic form, including results kept in containers
    and aliases, is T-MEMO M2).
Not decided: finiteness, sign, float rounding, numeric content of any EI.
"""

from __future__ import annotations

import ast
from fractions import Fraction

from ..algebra import AlgebraError, normal_form, poly_equal
from ..astutil import (ancestors, is_within, call_name, calls_in, const_value, enclosing_iterations, eval_pred, guards_of, iterated_mapping,
                       kwarg, local_defs, map_iteration, norm, single_def_value, stmt_of, stores_to, walk_no_nested)
from ..conform import _inline_env

EM = 'emissions/emission.py'
TR = 'emissions/trajectory.py'
LTO = 'emissions/lto.py'
APU = 'emissions/apu.py'
GSE = 'emissions/gse.py'


def rule_sum(ctx):
    prog = ctx.prog
    m = prog.module(EM)
    st = m.func('sum_total_emissions')
    ce = m.func('compute_emissions')
    loops = [n for n in walk_no_nested(st.node) if isinstance(n, ast.For)]
    ok = len(loops) == 1 and norm(loops[0].iter) == 'Species' and norm(loops[0].target) == 'species'
    ctx.ob('C01-R1', st, f'totals computed for every member of {norm(loops[0].iter) if loops else "?"}', ok,
           'whole Species enum' if ok else 'the total is not formed for every species', line=(loops[0].lineno if loops else 0))
    lp = loops[0]
    adds = [n for n in ast.walk(lp) if isinstance(n, ast.AugAssign) and norm(n.target) == 'total']
    params = st.params
    seen = {}
    for a in adds:
        src = next((p for p in params if f'{p}[species]' in norm(a.value)), None)
        seen.setdefault(src, []).append(a)
    want_red = {'trajectory': 'np.sum(trajectory[species])', 'lto': 'lto[species].sum()', 'apu': 'apu[species]', 'gse': 'gse[species]'}
    for p in params:
        a = seen.get(p, [])
        ok = len(a) == 1 and isinstance(a[0].op, ast.Add)
        why = 'added exactly once'
        if len(a) != 1:
            why = f'source `{p}` is added {len(a)} times to the species total'
        ctx.ob('C01-R1', st, f'source {p} enters the total', ok, why, line=(a[0].lineno if a else lp.lineno))
        if a:
            red = norm(a[0].value)
            okr = red == want_red.get(p)
            ctx.ob('C01-R1', st, f'{p} reduced by `{red}`', okr, 'reduction matches the value shape (array / per-mode / scalar)' if okr
                   else f'expected `{want_red.get(p)}`', line=a[0].lineno, nontrivial=False)
            gs = [(norm(t), pol) for t, pol, _ in guards_of(a[0], stop=lp)]
            memb = (f'species in {p}', True) in gs or any(f'species in {p}' in t and pol for t, pol in gs)
            ctx.ob('C01-R1', st, f'{p} read only when it has the species', memb, f'`species in {p}`' if memb else
                   f'{p}[species] is read without a membership test', line=a[0].lineno, nontrivial=False)
    ctx.floor('C01-R1', len([p for p in params if p in seen]), 4, 'sources summed')
    extra = [a for s, al in seen.items() if s is None for a in al]
    for a in extra:
        ctx.ob('C01-R1', st, f'extra term {norm(a)}', False, 'something other than the four sources is added to the total', line=a.lineno)
    res = [s for t, s, how in stores_to(st.node) if norm(t) == 'result[species]']
    ok = len(res) == 1 and norm(res[0].value) == 'total' and any(x is lp for x in ancestors(res[0]))
    ctx.ob('C01-R1', st, 'result[species] = total', ok, 'stored per species' if ok else 'the accumulated total is not what is stored')
    tot0 = [s for t, s, how in stores_to(lp) if norm(t) == 'total' and how == 'assign']
    ok = len(tot0) == 1 and isinstance(tot0[0].value, ast.Constant) and tot0[0].value.value == 0.0 and tot0[0] in lp.body
    ctx.ob('C01-R1', st, 'accumulator reset per species', ok, 'total = 0.0 at the top of the loop body' if ok else
           'the accumulator is not reset for each species (totals leak between species)')
    # switches
    for comp in ('apu', 'gse'):
        a = seen.get(comp, [])
        sg = {norm(t) for x in a for t, pol, _ in guards_of(x, stop=lp) if pol and 'config.emissions' in norm(t)}
        sg = {c for g in sg for c in g.split(' and ') if 'config.emissions' in c}
        cc = [c for c in calls_in(ce.node) if call_name(c).lower() == f'get_{comp}_emissions']
        cg = set()
        if cc:
            for t, pol, _ in guards_of(cc[0]):
                for c in norm(t).split(' and '):
                    if 'config.emissions' in c and pol:
                        cg.add(c)
        ok = sg == cg and len(sg) == 1
        ctx.ob('C01-R1', st, f'{comp}: summed under {sorted(sg)}, computed under {sorted(cg)}', ok,
               'one and the same switch' if ok else
               f'{comp.upper()} is computed (and its fuel counted) under one switch but summed under another: '
               'with exactly one of them on, the species totals no longer equal the sum of the parts',
               line=(a[0].lineno if a else lp.lineno))
    # call site
    call = next((c for c in calls_in(ce.node) if call_name(c) == 'sum_total_emissions'), None)
    if call is None:
        ctx.undecided('C01-R1', ce, 'sum_total_emissions(...)', 'call not found')
    for k in call.keywords:
        ok = norm(k.value) == f'{k.arg}.emissions'
        ctx.ob('C01-R1', ce, f'{k.arg}={norm(k.value)}', ok, 'component passed to its own parameter' if ok else
               f'parameter `{k.arg}` receives `{norm(k.value)}`', line=k.value.lineno)
    ok = sorted(k.arg for k in call.keywords) == sorted(params)
    ctx.ob('C01-R1', ce, 'all four sources passed', ok, 'trajectory, lto, apu, gse' if ok else 'a source is missing from the sum', nontrivial=False)
    # Emissions(...) fields receive their own component
    ec = next((c for c in calls_in(ce.node) if call_name(c) == 'Emissions'), None)
    if ec is not None:
        want = {'trajectory_emissions': 'trajectory.emissions', 'trajectory_indices': 'trajectory.indices',
                'lto_emissions': 'lto.emissions', 'lto_indices': 'lto.indices', 'apu_emissions': 'apu.emissions',
                'apu_indices': 'apu.indices', 'gse_emissions': 'gse.emissions', 'total_emissions': 'total_emissions',
                'fuel_burn_per_segment': 'fuel_burn_per_segment', 'total_fuel_burn': 'float(total_fuel_burn)'}
        for k in ec.keywords:
            ok = want.get(k.arg) == norm(k.value)
            ctx.ob('C01-R1', ce, f'Emissions.{k.arg} = {norm(k.value)}', ok, 'own component' if ok else
                   f'field `{k.arg}` reports `{norm(k.value)}`', line=k.value.lineno, nontrivial=False)
    # life-cycle adjustment
    post = [s for t, s, how in stores_to(ce.node) if 'total_emissions' in norm(t) and s.lineno > stmt_of(call).lineno
            and not (isinstance(t, ast.Name))]
    ok = len(post) == 1 and isinstance(post[0], ast.AugAssign) and isinstance(post[0].op, ast.Add) \
        and norm(post[0].target) == 'emissions.total_emissions[Species.CO2]'
    x = norm(post[0].value) if post else None
    lc = [s for t, s, how in stores_to(ce.node) if norm(t) == 'emissions.lifecycle_co2']
    ok = ok and len(lc) == 1 and norm(lc[0].value) == x and getattr(lc[0], '_parent', None) is getattr(post[0], '_parent', None)
    gs = {c for t, pol, _ in (guards_of(post[0]) if post else []) if pol for c in norm(t).split(' and ')}
    ok = ok and gs == {'Species.CO2 in config.emissions.enabled_species', 'config.emissions.lifecycle_enabled'}
    ctx.ob('C01-R1', ce, 'only CO2 gets the life-cycle adjustment, and it is reported', ok,
           f'total[CO2] += {x}; lifecycle_co2 = {x} under the CO2 and life-cycle switches' if ok else
           'totals are modified after the sum other than by the reported life-cycle CO2 adjustment',
           line=(post[0].lineno if post else ce.node.lineno))
    return seen, call


def rule_fuel(ctx):
    prog = ctx.prog
    m = prog.module(EM)
    ce = m.func('compute_emissions')
    defs = [s for t, s, how in stores_to(ce.node) if isinstance(t, ast.Name) and t.id == 'total_fuel_burn']
    comps = {}
    for s in defs:
        v = norm(s.value)
        c = v.split('.')[0] if v.endswith('.fuel_burn') else None
        ok_form = (isinstance(s, ast.Assign) or (isinstance(s, ast.AugAssign) and isinstance(s.op, ast.Add))) and c is not None
        if not ok_form:
            ctx.ob('C01-R2', ce, norm(s), False, 'total fuel burn is updated by something that is not a component\'s fuel', line=s.lineno)
            continue
        comps.setdefault(c, []).append(s)
    summed = {'trajectory', 'lto', 'apu', 'gse'}
    for c in sorted(summed | set(comps)):
        ss = comps.get(c, [])
        ok = len(ss) == 1 and c in summed
        why = 'fuel of a summed component counted once'
        if len(ss) != 1:
            why = f'fuel of `{c}` is counted {len(ss)} times although its emissions are summed once'
        ctx.ob('C01-R2', ce, f'{c}.fuel_burn in total_fuel_burn', ok, why, line=(ss[0].lineno if ss else ce.node.lineno))
        if ss:
            comp_def = [s for t, s, how in stores_to(ce.node) if isinstance(t, ast.Name) and t.id == c
                        and isinstance(s.value, ast.Call) and call_name(s.value).lower().startswith('get_')]
            same = bool(comp_def) and getattr(comp_def[0], '_parent', None) is getattr(ss[0], '_parent', None) \
                and comp_def[0].lineno < ss[0].lineno
            ctx.ob('C01-R2', ce, f'{c} fuel added where {c} is computed', same,
                   'same control region' if same else f'{c} fuel is added under a different condition than its computation',
                   line=ss[0].lineno)
    first = defs[0] if defs else None
    ok = first is not None and isinstance(first, ast.Assign)
    ctx.ob('C01-R2', ce, 'total starts from the first component (no stale value)', ok, norm(first) if ok else 'total_fuel_burn is not initialised by assignment', nontrivial=False)
    # the array handed to the trajectory producer as its per-segment fuel - under whatever local name(s) - is
    # zeros_like(fuel_mass) with exactly one store, [1:] = fuel_mass[:-1] - fuel_mass[1:]
    tc = next((c for c in calls_in(ce.node) if call_name(c) == 'get_trajectory_emissions'), None)
    tfi = prog.func(TR, 'get_trajectory_emissions')
    t_fuel = _producer_names(ctx, tfi, record=False)[3]
    arg = None
    if tc is not None and t_fuel in tfi.params:
        i = tfi.params.index(t_fuel)
        arg = kwarg(tc, t_fuel) or (tc.args[i] if i < len(tc.args) and not any(isinstance(a, ast.Starred) for a in tc.args) else None)
    ok = arg is not None
    ctx.ob('C01-R3', ce, 'trajectory producer receives that per-segment fuel', ok,
           f'`{norm(arg)}` is passed as `{t_fuel}`, the array that multiplies the indices' if ok else
           'cannot find what is passed as the per-segment fuel', nontrivial=False)
    chain = _stands_for(ce.node, arg) if arg is not None else []
    names = {x.id for x in chain if isinstance(x, ast.Name)}

    def mass(e):
        return any(norm(x) == 'traj.fuel_mass' for x in _stands_for(ce.node, e))

    init = chain[-1] if chain else None
    ok = isinstance(init, ast.Call) and call_name(init) in ('np.zeros_like', 'numpy.zeros_like') and len(init.args) == 1 and mass(init.args[0])
    fb = [(t, s) for t, s, how in stores_to(ce.node) if isinstance(t, ast.Subscript) and isinstance(t.value, ast.Name) and t.value.id in names]
    if ok and len(fb) == 1 and isinstance(fb[0][1], ast.Assign):
        t, s = fb[0]
        v = s.value
        ok = norm(t.slice) == '1:' and isinstance(v, ast.BinOp) and isinstance(v.op, ast.Sub) \
            and isinstance(v.left, ast.Subscript) and norm(v.left.slice) == ':-1' and mass(v.left.value) \
            and isinstance(v.right, ast.Subscript) and norm(v.right.slice) == '1:' and mass(v.right.value)
    else:
        ok = False
    ctx.ob('C01-R3', ce, 'per-segment fuel = fuel-mass differences, booked at the segment end', ok,
           'fuel_burn[1:] = fuel_mass[:-1] - fuel_mass[1:], fuel_burn[0] = 0' if ok else 'per-segment fuel burn definition changed',
           line=(fb[0][1].lineno if fb else ce.node.lineno))


def _stands_for(fn, e):
    """e, then what it stands for through single-definition locals (outermost first)"""
    out, seen = [e], set()
    while isinstance(e, ast.Name) and e.id not in seen:
        seen.add(e.id)
        v = single_def_value(fn, e.id)
        if v is None:
            break
        out.append(v)
        e = v
    return out


def _writes_map(owner, m, before):
    """a statement of `owner` that stores into mapping m (element store / update / setdefault) above line `before`"""
    for t, st, how in stores_to(owner):
        if isinstance(t, ast.Subscript) and norm(t.value) == m and st.lineno < before:
            return st
    for c in calls_in(owner):
        if isinstance(c.func, ast.Attribute) and norm(c.func.value) == m and c.func.attr in ('update', 'setdefault', 'pop', 'clear') \
                and c.lineno < before:
            return stmt_of(c)
    return None


def _element_of(fn, e, at):
    """(mapping text, key text or None) when expression e, evaluated at node `at`, is an element of a mapping:
    `m[k]`; the value variable of a governing `for k, v in m.items()` / `for v in m.values()` (as long as the loop
    has not stored into m before `at`, which would make the variable stale); or a single-definition local that
    stands for one of those.  None otherwise."""
    for x in _stands_for(fn, e):
        if isinstance(x, ast.Subscript) and isinstance(x.value, (ast.Name, ast.Attribute)):
            return norm(x.value), norm(x.slice)
        if isinstance(x, ast.Name):
            for owner, tgt, it in enclosing_iterations(at):
                mi = map_iteration(tgt, it)
                if mi and mi[2] == x.id:
                    if isinstance(owner, ast.For) and _writes_map(owner, mi[0], getattr(at, 'lineno', 0)) is not None:
                        return None
                    return mi[0], mi[1]
    return None


def _product_operands(fn, v):
    """the two factors when v (through single-definition locals) is a product `a * b` / np.multiply(a, b)"""
    for x in _stands_for(fn, v):
        if isinstance(x, ast.BinOp):
            return (x.left, x.right) if isinstance(x.op, ast.Mult) else ()
        if isinstance(x, ast.Call) and call_name(x) in ('np.multiply', 'numpy.multiply') and len(x.args) == 2 and not x.keywords:
            return x.args[0], x.args[1]
    return None


def _amount_sites(fn, emis):
    """every place where amounts are put into the map `emis` under a *variable* key:
    (key expr, value expr, node whose context decides loops and guards, statement)"""
    out = []
    for t, s, how in stores_to(fn):
        if isinstance(t, ast.Subscript) and norm(t.value) == emis and isinstance(t.slice, ast.Name) and how in ('assign', 'ann') \
                and not (isinstance(s.value, ast.Constant)):
            out.append((t.slice, s.value, s, s))
    for c in calls_in(fn):
        comp = None
        if isinstance(c.func, ast.Attribute) and c.func.attr == 'update' and norm(c.func.value) == emis and len(c.args) == 1:
            comp = c.args[0]
        else:
            st = stmt_of(c)
            if isinstance(st, (ast.Assign, ast.AnnAssign)) and st.value is c and len(c.args) == 1 \
                    and any(isinstance(t, ast.Name) and t.id == emis for t in (st.targets if isinstance(st, ast.Assign) else [st.target])):
                comp = c.args[0]
        if isinstance(comp, ast.DictComp):
            out.append((comp.key, comp.value, comp.value, stmt_of(c)))
    for st in walk_no_nested(fn):
        if isinstance(st, ast.Assign) and isinstance(st.value, ast.DictComp) \
                and any(isinstance(t, ast.Name) and t.id == emis for t in st.targets):
            out.append((st.value.key, st.value.value, st.value.value, st))
    return sorted(out, key=lambda r: r[3].lineno)


def _producer(ctx, fi, emis, idx, fuel_var, ret_fuel_ok):
    """amount = emission index × component fuel, for every key of the index map.  Decided on content: the key ranges
    over the index map's own keys (`for k in idx` / `.keys()` / `for k, v in idx.items()` / a dict comprehension over
    any of those), the stored value is a product whose factors are the index map's element at that key (as
    `idx[k]`, the `.items()` value variable, or a local standing for either) and the component's fuel, and nothing
    (guard, comprehension filter, continue/break) lets a key of the index map go without an amount."""
    fn = fi.node
    label = f'{emis}[k] = {idx}[k] * {fuel_var} over the keys of {idx}'
    sites = _amount_sites(fn, emis)
    if not sites:
        ctx.undecided('C01-R3', fi, label, f'no statement that fills `{emis}` under a variable key was recognised')
    mult = []
    for key, val, at, st in sites:
        ops = _product_operands(fn, val)
        if ops is None:
            ctx.undecided('C01-R3', fi, label, f'`{norm(val)[:60]}` at line {st.lineno} is not recognisably a product')
        why = None
        it = next(((o, mi) for o, tg, itx in enclosing_iterations(at)
                   for mi in [map_iteration(tg, itx)] if mi and mi[1] == key.id), None) if isinstance(key, ast.Name) else None
        if it is None:
            why = f'the key `{norm(key)}` of line {st.lineno} does not range over the keys of a map'
        elif it[1][0] != idx:
            why = f'the amounts are formed for the keys of `{it[1][0]}`, not for the keys of the index map `{idx}`'
        elif len(ops) != 2:
            why = f'`{norm(val)[:60]}` is not a product'
        else:
            is_fuel = [any(isinstance(x, ast.Name) and x.id == fuel_var for x in _stands_for(fn, o)) for o in ops]
            is_elem = [_element_of(fn, o, at) == (idx, key.id) for o in ops]
            if not ((is_fuel[0] and is_elem[1]) or (is_fuel[1] and is_elem[0])):
                why = (f'`{norm(val)[:60]}` is not (index of that species) × `{fuel_var}`: factors '
                       f'{[norm(o)[:30] for o in ops]}')
        if why is None:
            owner = it[0]
            if guards_of(at, stop=owner):
                why = f'the amount is formed only under `{norm(guards_of(at, stop=owner)[0][0])[:50]}`: some species of the index map get no amount'
            elif isinstance(owner, ast.For) and any(isinstance(x, (ast.Continue, ast.Break)) and x.lineno < st.lineno for x in walk_no_nested(owner)):
                why = 'the loop can skip a key (continue/break) before its amount is formed'
        if why is None:
            mult.append(st)
        ctx.ob('C01-R3', fi, label, why is None,
               'amount = emission index × component fuel for every species of the index map' if why is None else
               f'amounts are not formed as index × component fuel over all keys of the index map: {why}', line=st.lineno)
    others = [s for t, s, how in stores_to(fn) if isinstance(t, ast.Subscript) and norm(t.value) == emis and s not in mult]
    return mult, others


def _subset_fields(prog, fi):
    """field -> expression of the EmissionsSubset the producer returns (positional arguments mapped through the
    dataclass's own field order); None when the function does not end in one such return"""
    rets = [r for r in walk_no_nested(fi.node) if isinstance(r, ast.Return)]
    if len(rets) != 1 or not isinstance(rets[0].value, ast.Call) or call_name(rets[0].value).split('[')[0] != 'EmissionsSubset':
        return None
    order = list(prog.cls('emissions/types.py', 'EmissionsSubset').annotated_fields())
    c = rets[0].value
    out = {order[i]: a for i, a in enumerate(c.args) if i < len(order) and not isinstance(a, ast.Starred)}
    out.update({k.arg: k.value for k in c.keywords if k.arg})
    return out


def _fuel_source(fn, e):
    """(variable, how, slice expr or None): the local whose content the reported component fuel `e` is - the variable
    itself ('scalar'), or its sum `v.sum()` / `np.sum(v)` / `np.sum(v[s])` / `v[s].sum()` ('sum') - looking through
    single-definition locals and float()"""
    last = None
    for x in _stands_for(fn, e):
        while isinstance(x, ast.Call) and call_name(x) == 'float' and len(x.args) == 1:
            x = x.args[0]
        arg = None
        if isinstance(x, ast.Call) and call_name(x) in ('np.sum', 'numpy.sum', 'sum', 'np.nansum') and len(x.args) == 1 and not x.keywords:
            arg = x.args[0]
        elif isinstance(x, ast.Call) and isinstance(x.func, ast.Attribute) and x.func.attr == 'sum' and not x.args and not x.keywords:
            arg = x.func.value
        if arg is not None:
            sl = None
            if isinstance(arg, ast.Subscript):
                arg, sl = arg.value, arg.slice
            names = [y for y in _stands_for(fn, arg) if isinstance(y, ast.Name)]
            return (names[-1].id, 'sum', sl) if names else None
        if isinstance(x, ast.Name):
            last = x.id
    return (last, 'scalar', None) if last else None


def _seq_elts(prog, fi, e):
    """elements of e when it is a literal list / tuple / set, written in place or reached through a single-definition
    local, a module-level or an imported constant"""
    for x in _stands_for(fi.node, e):
        if isinstance(x, ast.Name) and not local_defs(fi.node, x.id) and x.id not in fi.params:
            r = prog.resolve_name(fi.module, x.id)
            if isinstance(r, tuple) and r[0] == 'const':
                x = r[1].constants[r[2]]
        if isinstance(x, (ast.List, ast.Tuple, ast.Set)):
            return list(x.elts)
    return None


def _producer_names(ctx, fi, record=True):
    """(index map, amount map, (fuel variable, how, slice)) of a producer, read off what it returns"""
    f = _subset_fields(ctx.prog, fi)
    if f is None or not all(k in f for k in ('indices', 'emissions', 'fuel_burn')) \
            or not isinstance(f['indices'], ast.Name) or not isinstance(f['emissions'], ast.Name):
        ctx.undecided('C01-R3', fi, 'return EmissionsSubset(indices, emissions, fuel_burn)', 'the producer\'s return is not recognised')
    src = _fuel_source(fi.node, f['fuel_burn'])
    if src is None:
        ctx.undecided('C01-R3', fi, f'fuel_burn={norm(f["fuel_burn"])[:50]}', 'cannot tell which local the reported fuel is (the sum of)')
    # the variable that multiplies the indices where the amounts are formed
    mult = None
    for key, val, at, st in _amount_sites(fi.node, f['emissions'].id):
        ops = _product_operands(fi.node, val)
        if ops and len(ops) == 2 and isinstance(key, ast.Name):
            for a_, b_ in (ops, ops[::-1]):
                el = _element_of(fi.node, a_, at)
                if el is not None and el[0] == f['indices'].id:
                    names = [x.id for x in _stands_for(fi.node, b_) if isinstance(x, ast.Name)]
                    mult = mult or (names[-1] if names else None)
    if mult is None:
        ctx.undecided('C01-R3', fi, f'{f["emissions"].id}[k] = {f["indices"].id}[k] * fuel',
                      'cannot tell which variable multiplies the indices where the amounts are formed')
    ok = f['indices'].id != f['emissions'].id
    if record:
        ctx.ob('C01-R3', fi, f'returns indices={f["indices"].id}, emissions={f["emissions"].id}, fuel_burn={norm(f["fuel_burn"])[:40]}', ok,
               'index map, amount map and fuel are three different things' if ok else 'the producer returns one map as both indices and amounts')
    return f['indices'].id, f['emissions'].id, src, mult


def rule_amounts(ctx):
    prog = ctx.prog
    # trajectory
    tf = prog.func(TR, 'get_trajectory_emissions')
    t_idx, t_em, (t_fuel, t_how, t_slice), t_mult = _producer_names(ctx, tf)
    mult, others = _producer(ctx, tf, t_em, t_idx, t_mult, None)
    ok = t_how == 'sum' and isinstance(t_slice, ast.Name) and t_fuel == t_mult
    ctx.ob('C01-R3', tf, f'trajectory fuel = {norm(_subset_fields(prog, tf)["fuel_burn"])}, amounts use {t_mult}', ok,
           'sum of the same per-segment fuel the amounts use, over the counted slice' if ok else
           ('the component\'s fuel total is not the sum of the per-segment fuel that multiplies the indices: '
            'segments can have emissions whose fuel is missing from total fuel burn (or vice versa)'))
    win = t_slice.id if isinstance(t_slice, ast.Name) else 'idx_slice'
    # window masking: constant stores into a slice of an *element* of the index / amount map, however the element is
    # reached (`m[k][a:b]`, the value variable of `for k, v in m.items()` / `m.values()`, or a local standing for it)
    zero = []
    for t, s, how in stores_to(tf.node):
        if isinstance(t, ast.Subscript) and isinstance(getattr(s, 'value', None), ast.Constant):
            el = _element_of(tf.node, t.value, s)
            if el is not None and el[0] in (t_idx, t_em):
                zero.append((t, s, 'indices' if el[0] == t_idx else 'emissions'))
    by_slice = {}
    for t, s, which in zero:
        by_slice.setdefault(norm(t.slice), set()).add(which)
        if s.value.value != 0.0:
            ctx.ob('C01-R3', tf, norm(s), False, 'window masking writes a non-zero constant', line=s.lineno)
    for sl, who in sorted(by_slice.items()):
        ok = who == {'indices', 'emissions'}
        ctx.ob('C01-R3', tf, f'zeroing over [{sl}] applied to {sorted(who)}', ok,
               'index and amount are masked together' if ok else
               'only one of index/amount is masked: amount ≠ index × fuel inside the masked window')
    ok = set(by_slice) == {f':{win}.start', f'{win}.stop:'}
    ctx.ob('C01-R4', tf, f'masked windows {sorted(by_slice)}', ok, f'everything outside {win}' if ok else
           'the masked windows are not the complement of the counted slice')
    late = [s for t, s in [(t, s) for t, s, how in stores_to(tf.node) if isinstance(t, ast.Subscript) and norm(t.value) == t_idx]
            if mult and s.lineno > mult[0].lineno]
    ctx.ob('C01-R3', tf, 'no index is rewritten after the amounts were formed', not late,
           'indices final before the multiplication' if not late else
           f'`{norm(late[0])[:60]}` changes an index after its amount was computed', line=(late[0].lineno if late else tf.node.lineno))
    ids = single_def_value(tf.node, win)
    ok = ids is not None and isinstance(ids, ast.Call) and call_name(ids) == '_trajectory_slice' and [norm(a) for a in ids.args] == ['traj']
    ctx.ob('C01-R4', tf, 'one slice value drives masking and fuel total', ok, f'{win} = _trajectory_slice(traj)' if ok else
           'masking and fuel total use different windows')
    # LTO
    lf = prog.func(LTO, 'get_LTO_emissions')
    l_idx, l_em, (l_fuel, l_how, l_slice), l_mult = _producer_names(ctx, lf)
    _producer(ctx, lf, l_em, l_idx, l_mult, None)
    ops = _product_operands(lf.node, ast.Name(id=l_mult, ctx=ast.Load())) or ()
    ok = len(ops) == 2 and any(
        isinstance(a_, ast.Name) and a_.id == '_LTO_TIMS' and isinstance(b_, ast.Attribute) and b_.attr == 'fuel_flow'
        and any(norm(x) == 'performance_model.lto' for x in _stands_for(lf.node, b_.value)) for a_, b_ in (ops, ops[::-1]))
    ctx.ob('C01-R3', lf, 'LTO fuel = time in mode × fuel flow', ok, f'{l_mult} = _LTO_TIMS × performance_model.lto.fuel_flow' if ok
           else 'LTO fuel per mode changed')
    ok = l_how == 'sum' and l_slice is None and l_fuel == l_mult
    ctx.ob('C01-R3', lf, 'LTO returns indices, amounts and the sum of the same per-mode fuel', ok,
           f'{l_fuel}.sum()' if ok else 'reported LTO fuel is not the sum of the fuel that multiplies the indices')
    # APU
    af = prog.func(APU, 'get_APU_emissions')
    a_idx, a_em, (a_fuel, a_how, a_slice), a_mult = _producer_names(ctx, af)
    _producer(ctx, af, a_em, a_idx, a_mult, None)
    ok = a_how == 'scalar' and a_fuel == a_mult
    ctx.ob('C01-R3', af, 'APU returns indices, amounts and the same fuel', ok, a_fuel if ok else 'reported APU fuel differs from the multiplier')
    fb = single_def_value(af.node, a_mult)
    ok = fb is not None and norm(fb) in ('apu.fuel_kg_per_s * apu_time', 'apu_time * apu.fuel_kg_per_s')
    ctx.ob('C01-R3', af, 'APU fuel = fuel flow × time', ok, norm(fb) if ok else 'APU fuel changed', nontrivial=False)
    # GSE: CO2 amount and fuel are tied by the fuel's CO2 index
    gf = prog.func(GSE, 'get_GSE_emissions')
    g = single_def_value(gf.node, 'gse_fuel')
    ok = g is not None and norm(g) == 'gse[Species.CO2] / fuel.EI_CO2'
    h = [s for t, s, how in stores_to(gf.node) if norm(t) == 'gse[Species.H2O]']
    ok = ok and len(h) == 1 and norm(h[0].value) in ('fuel.EI_H2O * gse_fuel', 'gse_fuel * fuel.EI_H2O')
    ctx.ob('C01-R3', gf, 'GSE fuel = CO2 / EI_CO2 and H2O = EI_H2O × that fuel', ok,
           'CO2 and H2O amounts equal the fuel\'s EI times the GSE fuel' if ok else 'GSE fuel and its CO2/H2O amounts are inconsistent')
    ret = [n for n in walk_no_nested(gf.node) if isinstance(n, ast.Return)]
    kw = {k.arg: norm(k.value) for k in ret[0].value.keywords} if ret else {}
    ok = kw == {'emissions': 'gse', 'fuel_burn': 'gse_fuel'}
    ctx.ob('C01-R3', gf, f'GSE returns {kw}', ok, 'amounts and fuel' if ok else 'GSE returns crossed fields', nontrivial=False)


def rule_windows(ctx):
    prog = ctx.prog
    cm = prog.module('config/emissions.py')
    members = [k for k, v in cm.cls('ClimbDescentMode').class_assignments().items() if isinstance(v, ast.Constant)]
    ctx.floor('C01-R4', len(members), 2, 'climb/descent accounting modes')
    ts = prog.func(TR, '_trajectory_slice')
    iff = next((n for n in walk_no_nested(ts.node) if isinstance(n, ast.If)), None)
    if iff is None:
        ctx.undecided('C01-R4', ts, 'if', 'window selection is not an if/else')
    body_ret = next((s for s in iff.body if isinstance(s, ast.Return)), None)
    else_ret = next((s for s in iff.orelse if isinstance(s, ast.Return)), None)
    excl_txt, full_txt = 'slice(traj.n_climb, len(traj) - traj.n_descent)', 'slice(0, len(traj))'
    if body_ret is None or else_ret is None:
        ctx.undecided('C01-R4', ts, 'returns', 'window selection shape not recognised')
    if norm(body_ret.value) == excl_txt and norm(else_ret.value) == full_txt:
        excl_pred, pol = iff.test, True
    elif norm(body_ret.value) == full_txt and norm(else_ret.value) == excl_txt:
        excl_pred, pol = iff.test, False
    else:
        ctx.ob('C01-R4', ts, f'windows {norm(body_ret.value)} / {norm(else_ret.value)}', False,
               'the cruise-only window is not [n_climb, len − n_descent) or the full window is not [0, len)', line=iff.lineno)
        return
    ctx.ob('C01-R4', ts, 'cruise-only window = [n_climb, len − n_descent); full window = [0, len)', True, 'window shapes', line=iff.lineno)
    lf = prog.func(LTO, 'get_LTO_emissions')
    ziff = None
    for n in walk_no_nested(lf.node):
        if isinstance(n, ast.If) and 'climb_descent_mode' in norm(n.test):
            ziff = n
    if ziff is None:
        ctx.undecided('C01-R4', lf, 'if', 'LTO window guard not found')
    for mem in members:
        env = {'config.emissions.climb_descent_mode': mem}
        env.update({f'ClimbDescentMode.{k}': k for k in members})
        try:
            traj_excludes = bool(eval_pred(excl_pred, env)) == pol
            lto_zeroes = bool(eval_pred(ziff.test, env))
        except ValueError as e:
            ctx.undecided('C01-R4', ts, f'mode {mem}', f'cannot evaluate the guards: {e}')
        ok = traj_excludes != lto_zeroes
        ctx.ob('C01-R4', ts, f'mode {mem}: trajectory excludes climb/descent={traj_excludes}, LTO drops approach/climb fuel={lto_zeroes}', ok,
               'every kilogram of climb/descent fuel is counted exactly once' if ok else
               ('climb/descent fuel is counted twice' if not traj_excludes and not lto_zeroes else
                'climb/descent fuel is counted nowhere'), line=iff.lineno)
    # which modes of the per-mode fuel (the variable whose sum the producer reports) are set to zero under that
    # guard: stores under a ThrustMode key, or under the variable of a loop over a constant collection of modes
    l_idx, l_em, _src, l_fuel = _producer_names(ctx, lf, record=False)
    zmodes = []
    for t, s, how in stores_to(ziff):
        if not (isinstance(t, ast.Subscript) and norm(t.value) == l_fuel and how == 'assign' and any(s is x or is_within(s, x) for x in ziff.body)):
            continue
        if const_value(s.value) != 0:
            ctx.ob('C01-R4', lf, norm(s)[:60], False, 'the per-mode LTO fuel is overwritten with something other than zero', line=s.lineno)
            continue
        if isinstance(t.slice, ast.Attribute):
            zmodes.append(norm(t.slice))
        elif isinstance(t.slice, ast.Name):
            lp = next((o for o, tg, it_ in enclosing_iterations(s, stop=ziff) if isinstance(tg, ast.Name) and tg.id == t.slice.id), None)
            elts = _seq_elts(prog, lf, lp.iter) if isinstance(lp, ast.For) else None
            if elts is None:
                ctx.undecided('C01-R4', lf, norm(s)[:60], 'cannot tell which thrust modes the loop walks')
            zmodes += [norm(e) for e in elts]
    ok = sorted(zmodes) == ['ThrustMode.APPROACH', 'ThrustMode.CLIMB']
    ctx.ob('C01-R4', lf, f'LTO fuel zeroed for {zmodes}', ok, 'exactly the two modes the trajectory window replaces' if ok else
           'the LTO modes whose fuel is dropped are not approach and climb')
    # the zeroing must precede the multiplication
    mult = [st for _k, _v, _at, st in _amount_sites(lf.node, l_em)]
    ok = bool(mult) and ziff.lineno < mult[0].lineno
    ctx.ob('C01-R4', lf, 'fuel is zeroed before the amounts are formed', ok, 'order' if ok else 'amounts are formed from unzeroed fuel', nontrivial=False)


def _const_number(prog, fi, e):
    """numeric value of e when it is a literal, or a name that stands for one (single-definition local, module-level
    or imported constant); None otherwise"""
    for x in _stands_for(fi.node, e):
        v = const_value(x)
        if isinstance(v, (int, float)) and not isinstance(v, bool):
            return v
        if isinstance(x, ast.Name) and single_def_value(fi.node, x.id) is None and not local_defs(fi.node, x.id):
            r = prog.resolve_name(fi.module, x.id)
            if isinstance(r, tuple) and r[0] == 'const':
                v = const_value(r[1].constants[r[2]])
                if isinstance(v, (int, float)) and not isinstance(v, bool):
                    return v
    return None


def _table_rows(prog, fi, e, kind):
    """[(key expr, value expr)] when e is a literal table - a dict display (kind 'dict') or a list / tuple of pairs
    (kind 'pairs') - written in place or reached through a single-definition local, a module-level or an imported
    constant"""
    for x in _stands_for(fi.node, e):
        if isinstance(x, ast.Name) and not local_defs(fi.node, x.id) and x.id not in fi.params:
            r = prog.resolve_name(fi.module, x.id)
            if isinstance(r, tuple) and r[0] == 'const':
                x = r[1].constants[r[2]]
        if isinstance(x, ast.Call) and len(x.args) == 1 and not x.keywords and call_name(x).split('[')[0] in (
                'dict', 'OrderedDict', 'collections.OrderedDict', 'MappingProxyType', 'types.MappingProxyType', 'SpeciesValues'):
            x = x.args[0]
        if kind == 'dict' and isinstance(x, ast.Dict) and all(k is not None for k in x.keys):
            return list(zip(x.keys, x.values))
        if kind == 'pairs' and isinstance(x, (ast.List, ast.Tuple)) and x.elts and all(isinstance(r, (ast.Tuple, ast.List)) and len(r.elts) == 2 for r in x.elts):
            return [(r.elts[0], r.elts[1]) for r in x.elts]
    return None


def _constant_shares(prog, fi, mp, base_key):
    """species name -> [share, …] for every store `mp[Species.X] = mp[base_key] * c` of the function: written out per
    species, or produced by a loop over a constant table of (species, share) rows.  A share that is not a known
    number is recorded as None."""
    fn = fi.node
    base = f'{mp}[{base_key}]'
    out = {}

    def share_of(v, at, bind=None):
        ops = _product_operands(fn, v)
        if not ops or len(ops) != 2:
            return None
        for a, b in (ops, ops[::-1]):
            if any(norm(x) == base for x in _stands_for(fn, a)):
                if bind is not None and isinstance(b, ast.Name) and b.id == bind[0]:
                    return _const_number(prog, fi, bind[1])
                return _const_number(prog, fi, b)
        return None

    for t, st, how in stores_to(fn):
        if not (isinstance(t, ast.Subscript) and norm(t.value) == mp and how == 'assign'):
            continue
        if isinstance(t.slice, ast.Attribute) and norm(t.slice.value) == 'Species':
            if base in norm(st.value) or any(base in norm(x) for x in _stands_for(fn, st.value)):
                out.setdefault(t.slice.attr, []).append(None if guards_of(st) else share_of(st.value, st))
        elif isinstance(t.slice, ast.Name):
            # for k, c in TABLE.items() / for k, c in PAIRS: mp[k] = mp[base] * c
            for owner, tgt, it in enclosing_iterations(st):
                if not (isinstance(tgt, (ast.Tuple, ast.List)) and len(tgt.elts) == 2 and all(isinstance(x, ast.Name) for x in tgt.elts)
                        and tgt.elts[0].id == t.slice.id):
                    continue
                im = iterated_mapping(it)
                rows = _table_rows(prog, fi, im[0], 'dict') if im is not None and im[1] == 'items' else \
                    (_table_rows(prog, fi, it, 'pairs') if im is None or im[1] == 'keys' else None)
                if rows is None:
                    continue
                for k, c in rows:
                    if isinstance(k, ast.Attribute) and norm(k.value) == 'Species':
                        out.setdefault(k.attr, []).append(None if guards_of(st, stop=owner) else share_of(st.value, st, (tgt.elts[1].id, c)))
    return out


def rule_speciation(ctx):
    prog = ctx.prog
    nm = prog.module('emissions/ei/nox.py')
    sp = nm.func('NOx_speciation')
    env = {}
    for x in walk_no_nested(sp.node):
        if isinstance(x, ast.Assign):
            t = x.targets[0]
            if isinstance(t, ast.Name):
                env[t.id] = x.value
            elif isinstance(t, ast.Tuple) and isinstance(x.value, ast.Tuple):
                for a, b in zip(t.elts, x.value.elts):
                    env[a.id] = b
    for cls_ in ('H', 'L', 'A'):
        try:
            e = ast.parse(f'no{cls_}nom + no2{cls_}nom + hono{cls_}nom - 100.0', mode='eval').body
            nf = normal_form(e, env)
            ok = nf.is_zero()
        except (AlgebraError, KeyError) as ex:
            ctx.undecided('C01-R5', sp, f'class {cls_}', str(ex))
        ctx.ob('C01-R5', sp, f'thrust class {cls_}: NO + NO2 + HONO − 100 ≡ {nf}', ok,
               'identically zero, whatever the nominal HONO / NO2 numbers' if ok else
               f'NO + NO2 + HONO ≠ 100 % in class {cls_}: the three species do not add up to NOx')
    ret = [n for n in walk_no_nested(sp.node) if isinstance(n, ast.Return)][0].value
    orders = {}
    for k in ret.keywords:
        args = [norm(a) for a in k.value.args]
        orders[k.arg] = args
        pre = {'no': 'no', 'no2': 'no2', 'hono': 'hono'}[k.arg]
        ok = args == [f'{pre}Lnom / 100', f'{pre}Anom / 100', f'{pre}Hnom / 100', f'{pre}Hnom / 100']
        ctx.ob('C01-R5', sp, f'{k.arg} per mode = {args}', ok, 'idle→L, approach→A, climb/take-off→H, as fractions' if ok else
               f'mode order or scaling of `{k.arg}` differs from the other two species: the per-mode sum is not 1',
               line=k.value.lineno)
    # GSE split: which constant share of GSE NOx each of NO / NO2 / HONO receives - from single stores or from a
    # loop over a constant table (dict / sequence of pairs; local, module-level or imported)
    gf = prog.func(GSE, 'get_GSE_emissions')
    shares = _constant_shares(prog, gf, 'gse', 'Species.NOx')
    tot = Fraction(0)
    n = 0
    for sp_ in ('NO', 'NO2', 'HONO'):
        sh = shares.get(sp_, [])
        ok = len(sh) == 1 and sh[0] is not None
        if ok:
            tot += Fraction(repr(sh[0]))
            n += 1
        ctx.ob('C01-R5', gf, f'GSE {sp_} = NOx × constant', ok, f'gse[Species.NOx] * {sh[0]!r}' if ok else
               f'GSE {sp_} is not a fixed share of GSE NOx', nontrivial=False)
    ok = n == 3 and tot == 1
    ctx.ob('C01-R5', gf, f'GSE NOx shares sum to {tot}', ok, 'exactly one' if ok else 'GSE NO + NO2 + HONO ≠ GSE NOx')
    for fn_, mp in ((gf, 'gse'), (prog.func(APU, 'get_APU_emissions'), 'indices')):
        s = [st for t, st, how in stores_to(fn_.node) if norm(t) == f'{mp}[Species.SOx]']
        ok = len(s) == 1 and {norm(s[0].value.left), norm(s[0].value.right)} == {f'{mp}[Species.SO2]', f'{mp}[Species.SO4]'} \
            and isinstance(s[0].value.op, ast.Add)
        ctx.ob('C01-R5', fn_, f'{mp}[SOx] = SO2 + SO4', ok, norm(s[0].value) if ok else 'SOx is not the sum of SO2 and SO4')
    af = prog.func(APU, 'get_APU_emissions')
    modes = set()
    for sp_, fr in (('NO', 'no'), ('NO2', 'no2'), ('HONO', 'hono')):
        s = [st for t, st, how in stores_to(af.node) if norm(t) == f'indices[Species.{sp_}]']
        ok = len(s) == 1 and isinstance(s[0].value, ast.BinOp) and norm(s[0].value.left) == 'apu.NOx_g_per_kg' \
            and isinstance(s[0].value.right, ast.Subscript) and norm(s[0].value.right.value) == f'nox_speciation.{fr}'
        if ok:
            modes.add(norm(s[0].value.right.slice))
        ctx.ob('C01-R5', af, f'APU {sp_} = APU NOx × speciation.{fr}[mode]', ok, norm(s[0].value) if ok else
               f'APU {sp_} does not use its own fraction of the APU NOx index', nontrivial=False)
    ok = len(modes) == 1
    ctx.ob('C01-R5', af, f'APU fractions all taken at {sorted(modes)}', ok, 'one thrust mode, so the three fractions sum to one' if ok else
           'APU NO/NO2/HONO fractions come from different thrust modes: they do not sum to one')
    s = [st for t, st, how in stores_to(af.node) if norm(t) == 'indices[Species.NOx]']
    ok = len(s) == 1 and norm(s[0].value) == 'apu.NOx_g_per_kg'
    ctx.ob('C01-R5', af, 'APU NOx index is the one that was speciated', ok, 'apu.NOx_g_per_kg' if ok else 'APU NOx differs from the speciated quantity', nontrivial=False)
    # LTO: wherever in lto.py the four NOx-family indices are written (a helper of their own, or the producer
    # itself), NO / NO2 / HONO are the *same* NOx index times their own fraction of one NOx_speciation() result
    sites = {}
    for fi_ in prog.module(LTO).functions.values():
        for t, st, how in stores_to(fi_.node):
            if isinstance(t, ast.Subscript) and isinstance(t.slice, ast.Attribute) and norm(t.slice.value) == 'Species' \
                    and t.slice.attr in ('NOx', 'NO', 'NO2', 'HONO') and how == 'assign':
                sites.setdefault(t.slice.attr, []).append((fi_, st, norm(t.value)))
    ctx.floor('C01-R5/lto', len(sites), 4, 'NOx-family species written in lto.py')
    nx = sites.get('NOx', [])
    lf = nx[0][0]
    nox_txt = norm(nx[0][1].value) if len(nx) == 1 else None

    def speciated(fi_, v, frac):
        """text of the other factor when v is <something> × <NOx_speciation() result>.<frac>"""
        ops = _product_operands(fi_.node, v)
        if not ops or len(ops) != 2:
            return None
        for a_, b_ in (ops, ops[::-1]):
            for x in _stands_for(fi_.node, a_):
                if isinstance(x, ast.Attribute) and x.attr == frac and any(
                        isinstance(y, ast.Call) and call_name(y).split('.')[-1] == 'NOx_speciation'
                        for y in _stands_for(fi_.node, x.value)):
                    return norm(b_)
        return None

    for sp_, fr in (('NO', 'no'), ('NO2', 'no2'), ('HONO', 'hono')):
        s = sites.get(sp_, [])
        other = speciated(s[0][0], s[0][1].value, fr) if len(s) == 1 else None
        ok = len(s) == 1 and nox_txt is not None and other == nox_txt and s[0][0] is lf and s[0][2] == nx[0][2]
        ctx.ob('C01-R5', lf, f'LTO {sp_} = LTO NOx × speciation.{fr}', ok, norm(s[0][1].value) if ok else
               f'LTO {sp_} does not use its own fraction of the LTO NOx index', nontrivial=False)
    ok = nox_txt is not None
    ctx.ob('C01-R5', lf, 'LTO NOx index is the one that was speciated', ok, nox_txt if ok else
           'the LTO NOx index is written more than once', nontrivial=False)
    bf = nm.func('BFFM2_EINOx')
    cats = set()
    for prop, fr in (('noProp', 'no'), ('no2Prop', 'no2'), ('honoProp', 'hono')):
        d = single_def_value(bf.node, prop)
        ok = d is not None and norm(d) == f'np.array([nox_speciation.{fr}[cat] for cat in thrustCat])'
        if ok:
            cats.add('thrustCat')
        ctx.ob('C01-R5', bf, f'{prop} from speciation.{fr} indexed by thrustCat', ok, 'own fraction, shared category array' if ok else
               f'{prop} is not the `{fr}` fraction at the point\'s thrust category')
    tr = prog.func(TR, 'compute_EI_NOx')
    want = {'NOx': 'bffm2_result.NOxEI', 'NO': 'bffm2_result.NOEI', 'NO2': 'bffm2_result.NO2EI', 'HONO': 'bffm2_result.HONOEI'}
    for k, v in want.items():
        s = [st for t, st, how in stores_to(tr.node) if norm(t) == f'indices[Species.{k}]']
        ok = len(s) == 1 and norm(s[0].value) == v
        ctx.ob('C01-R5', tr, f'trajectory {k} index = {v}', ok, 'own field' if ok else f'Species.{k} receives `{norm(s[0].value) if s else None}`', nontrivial=False)
    # constant species: SOx/SO2/SO4 from one EI_SOx result
    cu = prog.func('emissions/utils.py', 'constant_species_values')
    want = {'SOx': 'sox_result.EI_SOx', 'SO2': 'sox_result.EI_SO2', 'SO4': 'sox_result.EI_SO4', 'CO2': 'fuel.EI_CO2', 'H2O': 'fuel.EI_H2O'}
    for k, v in want.items():
        s = [st for t, st, how in stores_to(cu.node) if norm(t) == f'constants[Species.{k}]']
        ok = len(s) == 1 and norm(s[0].value) == v
        ctx.ob('C01-R5', cu, f'constant index {k} = {v}', ok, 'own field' if ok else f'Species.{k} receives `{norm(s[0].value) if s else None}`', nontrivial=False)


def rule_cached_mutables(ctx):
    """R6: a memoised function hands the *same* object to every caller.  If a
    caller then zeroes entries of it in place (the LTO window masking does
    exactly that to its per-mode fuel), the change leaks into every later
    inventory.  So: no in-place element store on a local bound from a call of a
    functools.cache'd repository function, unless it was copied first."""
    prog = ctx.prog
    from ..resolve import resolve_call
    cached = {f.qualname: f for mod in prog.src_modules() if '/emissions/' in mod.relpath or mod.relpath.endswith('emissions/utils.py')
              for f in mod.functions.values() if any('cache' in d for d in f.decorators())}
    ctx.floor('C01-R6', len(cached), 3, 'memoised functions in the emissions package')
    n = 0
    for mod in prog.src_modules():
        if '/emissions/' not in mod.relpath:
            continue
        for fi in mod.functions.values():
            for t, st, how in stores_to(fi.node):
                v = getattr(st, 'value', None)
                if isinstance(t, ast.Name) and isinstance(v, ast.Call):
                    callee = resolve_call(prog, fi, v)
                    if callee is None or callee.qualname not in cached:
                        continue
                    n += 1
                    name = t.id
                    muts = [s2 for t2, s2, h2 in stores_to(fi.node) if isinstance(t2, ast.Subscript) and norm(t2.value) == name
                            and s2.lineno > st.lineno]
                    rebinds = [s2 for t2, s2, h2 in stores_to(fi.node) if isinstance(t2, ast.Name) and t2.id == name
                               and s2.lineno > st.lineno and '.copy(' in norm(getattr(s2, 'value', ast.Constant(0)))]
                    bad = [mu for mu in muts if not any(rb.lineno < mu.lineno for rb in rebinds)]
                    ctx.ob('C01-R6', fi, f'{name} = {callee.name}(…) (memoised) is not modified in place', not bad,
                           'only read, or copied before being changed' if not bad else
                           (f'`{norm(bad[0])[:50]}` writes into the object the cache hands to every later caller: after one '
                            'inventory in trajectory mode the approach/climb fuel stays zero for every later inventory '
                            '(climb/descent fuel is then counted nowhere in LTO mode)'), line=(bad[0].lineno if bad else st.lineno))
    ctx.ob('C01-R6', ('src/AEIC/emissions', '<package>'), f'{n} call sites of memoised functions examined', True, 'see above', nontrivial=False)


def run(ctx):
    rule_cached_mutables(ctx)
    rule_sum(ctx)
    rule_fuel(ctx)
    rule_amounts(ctx)
    rule_windows(ctx)
    rule_speciation(ctx)
    ctx.assumptions += ['numpy broadcasting multiplies per-segment arrays elementwise; ThrustModeValues * is per mode',
                        'finiteness, sign and float rounding of the amounts are not decided']
