"""C14 — mission queries return exactly the matching flight instances.

R1  to_sql is pure (effects): every attribute of `self` mutated in code
    reachable from `to_sql` is re-initialised on every path before its first
    mutation in that call.  One named exception: Filter._normalize rewrites
    str attributes to one-element lists under an isinstance(..., str) guard —
    an idempotent normalisation.
R2  empty-collection unpack (T-GUARD): `a, b = …zip(*xs)` needs a dominating
    non-emptiness test of xs.
R3  placeholders = parameters (symbolic count): for each condition pushed,
    the number of `?` in its text equals the number of parameters pushed with
    it, as linear forms over len(<list>).
R4  column <-> field agreement: SELECT list and row indices used by from_row
    agree by name; ORDER BY present on the unconditional path.
R5  spatial compatibility rule counts the four spatial kinds in each of the
    three positions.
R7  bounding-box bounds reach the SQL parameters exactly as given (BoundingBox
    is a plain value; no method rewrites its fields).
R6  date bounds inclusive; every-nth anchored at the start day; limit/offset.
"""

from __future__ import annotations

import ast
import re
from collections import Counter

from ..astutil import first_stmt, last_stmt  # noqa: F401
from ..astutil import (MUTATING_METHODS, ancestors, call_name, calls_in, guards_of, norm,
                       single_def_value, stmt_of, stores_to, walk_no_nested)
from ..cfg import CFG
from ..loader import dotted_name
from ..resolve import closure, resolve_call

Q = 'missions/query.py'
F = 'missions/filter.py'


# ---------------------------------------------------------------- R1 -----
def _mutations(fi):
    """[(attr, node, how)] mutations of self.<attr> in fi (not plain re-binding)"""
    out = []
    for t, st, how in stores_to(fi.node):
        b = t
        elem = False
        while isinstance(b, ast.Subscript):
            b, elem = b.value, True
        if isinstance(b, ast.Attribute) and norm(b.value) == 'self':
            if how == 'aug' or elem:
                out.append((b.attr, st, how if not elem else 'elem-' + how))
    for c in calls_in(fi.node):
        if isinstance(c.func, ast.Attribute) and c.func.attr in MUTATING_METHODS:
            b = c.func.value
            while isinstance(b, ast.Subscript):
                b = b.value
            if isinstance(b, ast.Attribute) and norm(b.value) == 'self':
                out.append((b.attr, stmt_of(c), 'call-' + c.func.attr))
        if call_name(c) == 'setattr' and c.args and norm(c.args[0]) == 'self':
            out.append(('<dynamic>', stmt_of(c), 'setattr'))
    return out


def _resets(fi):
    out = []
    for t, st, how in stores_to(fi.node):
        if how == 'assign' and isinstance(t, ast.Attribute) and norm(t.value) == 'self':
            v = st.value
            fresh = isinstance(v, (ast.List, ast.Dict, ast.Set, ast.Tuple, ast.Constant)) or \
                (isinstance(v, ast.Call) and call_name(v) in ('list', 'dict', 'set'))
            if fresh:
                out.append((t.attr, st))
    return out


def rule_pure(ctx):
    prog = ctx.prog
    classes = [c for c in prog.subclasses_of('QueryBase') if c.name != 'QueryBase']
    classes.append(prog.cls(F, 'Filter'))
    ctx.floor('C14-R1', len(classes), 4, 'query classes and Filter')
    for cls in classes:
        ts = cls.find_method('to_sql')
        if ts is None:
            continue
        reach = [f for f in closure(prog, [ts]) if f.cls is not None and f.cls in cls.mro() or f is ts]
        reach = [f for f in reach if f.cls is not None and (f.cls in cls.mro())]
        cfgs = {f.qualname: CFG(f.node) for f in reach}
        resets = {}
        for f in reach:
            for a, st in _resets(f):
                resets.setdefault(a, []).append((f, st))
        found = 0
        for f in reach:
            for attr, st, how in _mutations(f):
                found += 1
                if attr == '<dynamic>':
                    gs = [norm(t) for t, pol, _ in guards_of(st) if pol]
                    c = st.value if isinstance(st, ast.Expr) else None
                    idem = any(g.startswith('isinstance(getattr(self, ') and g.endswith(', str)') for g in gs) and \
                        isinstance(c, ast.Call) and len(c.args) == 3 and isinstance(c.args[2], ast.List) \
                        and len(c.args[2].elts) == 1 and norm(c.args[2].elts[0]).startswith('getattr(self, ')
                    ctx.ob('C14-R1', f, f'{cls.name}.to_sql: {norm(st)[:60]}', idem,
                           'idempotent normalisation (str → one-element list, only while it is still a str)' if idem
                           else 'to_sql rewrites attributes of the query object: a second call sees different state',
                           line=st.lineno)
                    continue
                ok = False
                why = (f'self.{attr} is mutated ({how}) during to_sql but never re-initialised in that call: '
                       'building the SQL twice accumulates conditions/parameters')
                g = cfgs[f.qualname]
                mn = g.nodes_of(st)
                dom = g.dominators(edge_ok=lambda a, b, lab: lab != 'e')
                for rf, rst in resets.get(attr, []):
                    if rf == f:
                        rn = g.nodes_of(rst)
                        if rn and mn and all(rn[0] in dom[x] for x in mn):
                            ok, why = True, f'reset `{norm(rst)}` dominates the mutation'
                    else:
                        # reset in a helper: helper call dominates the mutation, reset dominates helper exit
                        gr = cfgs[rf.qualname]
                        domr = gr.dominators(edge_ok=lambda a, b, lab: lab != 'e')
                        rn = gr.nodes_of(rst)
                        if not rn or rn[0] not in domr.get(gr.exit, set()):
                            continue
                        for n in g.nodes:
                            if n.stmt is not None and n.kind == 'stmt' and any(
                                    resolve_call(prog, f, c) == rf for c in calls_in(n.stmt)):
                                if mn and all(n.id in dom[x] for x in mn):
                                    ok, why = True, (f'`{n.text()[:40]}` dominates the mutation and always runs '
                                                     f'`{norm(rst)}`')
                ctx.ob('C14-R1', f, f'{cls.name}.to_sql: self.{attr} {how} at `{norm(st)[:50]}`', ok, why,
                       line=st.lineno)
        if cls.name != 'Filter':
            ctx.floor(f'C14-R1/{cls.name}', found, 2, f'mutations reachable from {cls.name}.to_sql')


# ---------------------------------------------------------------- R2 -----
def rule_unpack(ctx):
    prog = ctx.prog
    fns = prog.all_functions() if ctx.tier == 'thorough' else \
        [f for f in prog.all_functions() if f.file.endswith((Q, F))]
    n = 0
    for fi in fns:
        for x in walk_no_nested(fi.node):
            if isinstance(x, ast.Assign) and isinstance(x.targets[0], ast.Tuple):
                z = [c for c in ast.walk(x.value) if isinstance(c, ast.Call) and call_name(c) == 'zip'
                     and len(c.args) == 1 and isinstance(c.args[0], ast.Starred)]
                if not z:
                    continue
                n += 1
                xs = norm(z[0].args[0].value)
                g = CFG(fi.node)
                dom = g.dominators(edge_ok=lambda a, b, lab: lab != 'e')
                un = g.nodes_of(x)
                guard = None
                for t in g.nodes:
                    if t.kind == 'test' and isinstance(t.stmt, ast.If) and norm(t.stmt.test) in (
                            f'not {xs}', f'len({xs}) == 0', f'{xs} == []', f'not len({xs})') \
                            and isinstance(last_stmt(t.stmt.body), (ast.Return, ast.Raise)):
                        if un and t.id in dom[un[0]]:
                            guard = t
                    if t.kind == 'test' and isinstance(t.stmt, ast.If) and norm(t.stmt.test) in (xs, f'len({xs}) > 0') \
                            and any(x is s or any(a is s for a in ancestors(x)) for s in t.stmt.body):
                        guard = t
                ctx.ob('C14-R2', fi, f'{norm(x.targets[0])} = …zip(*{xs})', guard is not None,
                       f'`{guard.text()}` handles the empty case first' if guard is not None else
                       f'unpacking zip(*{xs}) fails with "not enough values to unpack" when {xs} is empty: '
                       'a filter with no conditions must select everything', line=x.lineno)
    ctx.floor('C14-R2', n, 1, 'zip(*xs) unpack sites')


# ---------------------------------------------------------------- R3 -----
def _q_count(fi, e, env=None, depth=0) -> Counter | None:
    """number of '?' produced by string expression e, as a linear form"""
    env = env or {}
    if depth > 6:
        return None
    if isinstance(e, ast.Constant) and isinstance(e.value, str):
        return Counter({'1': e.value.count('?')}) if e.value.count('?') else Counter()
    if isinstance(e, ast.JoinedStr):
        tot = Counter()
        for v in e.values:
            c = _q_count(fi, v, env, depth + 1)
            if c is None:
                return None
            tot += c
        return tot
    if isinstance(e, ast.FormattedValue):
        return _q_count(fi, e.value, env, depth + 1)
    if isinstance(e, ast.BinOp) and isinstance(e.op, ast.Add):
        a, b = _q_count(fi, e.left, env, depth + 1), _q_count(fi, e.right, env, depth + 1)
        return None if a is None or b is None else a + b
    if isinstance(e, ast.Name):
        if e.id in env:
            return env[e.id]
        if e.id in ('table',):
            return Counter()
        d = single_def_value(fi.node, e.id)
        if d is None:
            # several definitions: take the nearest preceding one in the same block
            blk = getattr(stmt_of(e), '_parent', None)
            cands = [st for t, st, how in stores_to(fi.node) if isinstance(t, ast.Name) and t.id == e.id
                     and how == 'assign' and getattr(st, '_parent', None) is blk and st.lineno < e.lineno]
            d = cands[-1].value if cands else None
        if d is not None:
            return _q_count(fi, d, env, depth + 1)
        return None
    if isinstance(e, ast.Call):
        cn = call_name(e)
        # ', '.join('?' * len(X))
        if isinstance(e.func, ast.Attribute) and e.func.attr == 'join' and len(e.args) == 1:
            a = e.args[0]
            if isinstance(a, ast.BinOp) and isinstance(a.op, ast.Mult) and isinstance(a.left, ast.Constant) \
                    and a.left.value == '?' and isinstance(a.right, ast.Call) and call_name(a.right) == 'len':
                sym = norm(a.right.args[0])
                return Counter({f'len({env.get("@" + sym, sym)})': 1})
            if isinstance(a, ast.BinOp) and isinstance(a.op, ast.Mult) and isinstance(a.left, ast.List):
                return None
        # local helper returning a string: sub_select_for(X)
        q = fi.qualname
        helper = fi.module.functions.get(f'{q}.<locals>.{cn}')
        if helper is not None and len(e.args) == len(helper.params):
            rets = [n for n in walk_no_nested(helper.node) if isinstance(n, ast.Return)]
            if len(rets) == 1:
                env2 = {'@' + p: norm(a) for p, a in zip(helper.params, e.args)}
                return _q_count(helper, rets[0].value, env2, depth + 1)
        return None
    if isinstance(e, ast.Attribute) and norm(e) in ('self._where_clause',):
        return Counter()
    return None


def _p_count(e) -> Counter | None:
    """number of parameters a parameter expression contributes"""
    if isinstance(e, ast.List):
        return Counter({'1': len(e.elts)})
    if isinstance(e, ast.BinOp) and isinstance(e.op, ast.Add):
        a, b = _p_count(e.left), _p_count(e.right)
        return None if a is None or b is None else a + b
    if isinstance(e, (ast.Attribute, ast.Name)):
        return Counter({f'len({norm(e)})': 1})
    return None


def rule_placeholders(ctx):
    prog = ctx.prog
    fm = prog.module(F)
    n = 0
    for qn in ('Filter._airport_condition', 'Filter._country_condition', 'Filter._continent_condition',
               'Filter._bounding_box_condition', 'Filter.to_sql'):
        fi = fm.func(qn)
        for t in walk_no_nested(fi.node):
            if isinstance(t, ast.Tuple) and len(t.elts) == 2 and isinstance(t.ctx, ast.Load):
                par = getattr(t, '_parent', None)
                is_cond = (isinstance(par, ast.Call) and call_name(par).endswith('.append')) or \
                    (isinstance(par, ast.List) and isinstance(getattr(par, '_parent', None), ast.Return))
                if not is_cond:
                    continue
                text, params = t.elts
                if isinstance(text, ast.Name) and text.id in fi.params:
                    continue  # the generic `simple(expr, value)` helper, handled below
                qc = _q_count(fi, text)
                pc = _p_count(params)
                n += 1
                if qc is None or pc is None:
                    ctx.undecided('C14-R3', fi, norm(t)[:80], 'cannot count placeholders / parameters symbolically')
                ok = +qc == +pc
                ctx.ob('C14-R3', fi, f'condition `{norm(text)[:50]}` with params `{norm(params)[:50]}`', ok,
                       f'placeholders {dict(+qc)} = parameters {dict(+pc)}' if ok else
                       f'{dict(+qc)} placeholders but {dict(+pc)} parameters: the statement cannot bind '
                       '(or binds values to the wrong placeholders)', line=t.lineno)
    fi = fm.func('Filter.to_sql')
    for c in calls_in(fi.node):
        if call_name(c) == 'simple' and len(c.args) == 2:
            qc = _q_count(fi, c.args[0])
            n += 1
            ok = qc is not None and +qc == Counter({'1': 1})
            ctx.ob('C14-R3', fi, f'simple({norm(c.args[0])}, {norm(c.args[1])})', ok,
                   'one placeholder, one scalar parameter' if ok else 'placeholder count differs from 1', line=c.lineno)
            col = re.search(r'(\w+) ([<>]=) \?', norm(c.args[0]))
            attr = norm(c.args[1]).replace('self.', '')
            okr = col is not None and ((attr.startswith('min_') and col.group(2) == '>=') or
                                       (attr.startswith('max_') and col.group(2) == '<=')) and \
                attr[4:].replace('seat_capacity', 'seat_capacity') == col.group(1)
            ctx.ob('C14-R3', fi, f'{attr} ↔ {col.group(1) if col else "?"} {col.group(2) if col else ""}', bool(okr),
                   'min → >=, max → <= on the column of the same name' if okr else
                   'range bound compares the wrong column or in the wrong direction', line=c.lineno)
    ctx.floor('C14-R3', n, 15, 'filter conditions')
    # flatten step in to_sql
    rets = [r for r in walk_no_nested(fi.node) if isinstance(r, ast.Return) and isinstance(r.value, ast.Tuple)]
    flat = [r for r in rets if 'for ps in params for p in' in norm(r.value)]
    ok = bool(flat) and "' AND '.join(conds)" in norm(flat[0].value)
    ctx.ob('C14-R3', fi, 'conditions AND-ed, parameters flattened in condition order', ok,
           norm(flat[0].value)[:100] if ok else 'conditions are not joined with AND / parameters not flattened in order')
    # origin/destination column roles in the spatial helpers
    for qn in ('Filter._airport_condition', 'Filter._country_condition', 'Filter._continent_condition',
               'Filter._bounding_box_condition'):
        f2 = fm.func(qn)
        for t in walk_no_nested(f2.node):
            if isinstance(t, ast.Tuple) and len(t.elts) == 2 and isinstance(t.ctx, ast.Load):
                txt, par = norm(t.elts[0]), norm(t.elts[1])
                for role in ('origin', 'destination'):
                    if f'self.{role}_' in par:
                        other = 'destination' if role == 'origin' else 'origin'
                        ok = f'{{table}}{role} IN' in txt and f'{{table}}{other} IN' not in txt
                        ctx.ob('C14-R3', f2, f'{role} filter constrains the {role} column', ok,
                               'column matches the filter attribute' if ok else
                               f'the {role}_* filter is applied to the {other} column', line=t.lineno)
    # query-level conditions: per block, '?' appended == params pushed
    qm = prog.module(Q)
    pending = []
    for qn in ('QueryBase._common_conditions', 'Query.to_sql'):
        fq = qm.func(qn)
        blocks = {}
        for x in walk_no_nested(fq.node):
            if isinstance(x, ast.Expr) and isinstance(x.value, ast.Call):
                cn = call_name(x.value)
                if cn in ('self._conditions.append', 'self._params.append', 'self._params.extend'):
                    blocks.setdefault(id(getattr(x, '_parent', None)), []).append(x)
            if isinstance(x, ast.AugAssign) and norm(x.target) == 'self._params':
                blocks.setdefault(id(getattr(x, '_parent', None)), []).append(x)
        for blk in blocks.values():
            q = Counter()
            p = Counter()
            und = False
            for x in blk:
                if isinstance(x, ast.AugAssign):
                    pc = _p_count(x.value)
                    p += pc if pc else Counter()
                    und = und or pc is None
                    continue
                c = x.value
                cn = call_name(c)
                if cn.endswith('_conditions.append'):
                    if isinstance(c.args[0], ast.Name) and c.args[0].id == 'cond':
                        q += Counter({'filter': 1})
                    else:
                        qc = _q_count(fq, c.args[0])
                        und = und or qc is None
                        q += qc or Counter()
                elif cn.endswith('_params.append'):
                    p += Counter({'1': 1})
                elif cn.endswith('_params.extend'):
                    if norm(c.args[0]) == 'p':
                        p += Counter({'filter': 1})
                    else:
                        pc = _p_count(c.args[0])
                        und = und or pc is None
                        p += pc or Counter()
            if und:
                pending.append((fq, norm(blk[0])[:60]))
                continue
            ok = +q == +p
            ctx.ob('C14-R3', fq, f'block at `{norm(blk[0])[:50]}`', ok,
                   f'{dict(+q)} placeholders = {dict(+p)} parameters' if ok else
                   (f'{dict(+q)} placeholders but {dict(+p)} parameters pushed in the same block: the condition list and the '
                    'parameter list are built in parallel, so a condition whose text is appended elsewhere binds the values of '
                    'its neighbours (e.g. the sample fraction to the day modulus)'), line=blk[0].lineno)
    for fq, what in pending:
        ctx.undecided('C14-R3', fq, what, 'cannot count symbolically')


# ---------------------------------------------------------------- R4..R6 ---
def _sql_text(fi, name='sql'):
    d = [st for t, st, how in stores_to(fi.node) if isinstance(t, ast.Name) and t.id == name and how in ('assign',)]
    if not d:
        return None, None
    v = d[0].value
    parts = []
    for x in ast.walk(v):
        if isinstance(x, ast.Constant) and isinstance(x.value, str):
            parts.append((x.lineno, x.col_offset, x.value))
    parts.sort()
    return ''.join(p[2] for p in parts), d[0]


def rule_columns(ctx):
    prog = ctx.prog
    qm = prog.module(Q)
    qs = qm.func('Query.to_sql')
    sql, st = _sql_text(qs)
    if sql is None:
        ctx.undecided('C14-R4', qs, 'sql', 'SQL literal not found')
    msel = re.search(r'SELECT (.*?) FROM', sql, re.S)
    cols = []
    for c in msel.group(1).split(','):
        c = c.strip()
        ma = re.search(r'\bAS (\w+)$', c, re.I)
        cols.append(ma.group(1) if ma else c.split('.')[-1])
    fr = qm.func('QueryResult.from_row')
    call = next(c for c in calls_in(fr.node) if call_name(c) == 'cls')
    alias = {'departure': 'departure_timestamp', 'arrival': 'arrival_timestamp'}
    n = 0
    for k in call.keywords:
        idx = None
        for x in ast.walk(k.value):
            if isinstance(x, ast.Subscript) and norm(x.value) == 'row' and isinstance(x.slice, ast.Constant):
                idx = x.slice.value
        if idx is None:
            ctx.undecided('C14-R4', fr, k.arg, 'row index not found')
        n += 1
        want = alias.get(k.arg, k.arg)
        ok = idx < len(cols) and cols[idx] == want
        ctx.ob('C14-R4', fr, f'{k.arg} = row[{idx}] ({cols[idx] if idx < len(cols) else "?"})', ok,
               'field reads the column of the same name' if ok else
               f'field `{k.arg}` reads column {idx} which the SELECT list defines as `{cols[idx] if idx < len(cols) else "out of range"}`',
               line=k.value.lineno)
    ctx.floor('C14-R4', n, 15, 'QueryResult fields')
    ok = len(cols) == n
    ctx.ob('C14-R4', qs, f'{len(cols)} selected columns for {n} result fields', ok, 'same number' if ok else 'arity differs',
           nontrivial=False)
    ok = sql.rstrip().endswith('ORDER BY s.departure_timestamp') and not guards_of(st)
    ctx.ob('C14-R4', qs, 'results ordered by departure time', ok, 'ORDER BY s.departure_timestamp on every path' if ok else
           'results are not (always) ordered by departure time', line=st.lineno)
    joins = ['JOIN flights f ON f.id = s.flight_id', 'JOIN airports ao ON f.origin = ao.id',
             'JOIN airports ad ON f.destination = ad.id']
    for j in joins:
        ctx.ob('C14-R4', qs, j, j in sql, 'join present' if j in sql else 'join changed: rows pair the wrong airports/flights',
               line=st.lineno, nontrivial=False)
    ok = 'ao.iata_code AS origin' in sql and 'ad.iata_code AS destination' in sql and \
        'ao.country AS origin_country' in sql and 'ad.country AS destination_country' in sql
    ctx.ob('C14-R4', qs, 'origin columns from ao, destination columns from ad', ok, 'aliases agree with joins' if ok else
           'origin/destination columns are taken from the wrong airport alias', line=st.lineno)
    # limit / offset
    src = ' '.join(norm(s) for s in qs.node.body)
    ok = "sql += f' LIMIT {self.limit}'" in src and "sql += f' OFFSET {self.offset}'" in src
    ctx.ob('C14-R6', qs, 'limit and offset appended after ordering', ok, 'LIMIT then OFFSET' if ok else 'limit/offset handling changed')
    # frequent routes
    ff = qm.func('FrequentFlightQuery.to_sql')
    sql2, st2 = _sql_text(ff)
    ok = sql2 is not None and 'COUNT(s.id) AS nflights' in sql2 and 'GROUP BY od_pair' in sql2 and \
        'ORDER BY nflights DESC' in sql2 and 'substring(od_pair, 1, 3) AS airport1' in sql2 and \
        'substring(od_pair, 4) AS airport2' in sql2
    ctx.ob('C14-R4', ff, 'frequent routes: count per direction-independent pair, descending', bool(ok),
           'GROUP BY od_pair ORDER BY nflights DESC' if ok else 'frequent-route SQL changed')
    ffr = qm.func('FrequentFlightQueryResult.from_row')
    c = next(c for c in calls_in(ffr.node) if call_name(c) == 'cls')
    got = {k.arg: norm(k.value) for k in c.keywords}
    ok = got == {'airport1': 'row[0]', 'airport2': 'row[1]', 'number_of_flights': 'row[2]'}
    ctx.ob('C14-R4', ffr, f'{got}', ok, 'fields follow the SELECT order' if ok else 'frequent-route fields read the wrong columns')
    cq = qm.func('CountQuery.to_sql')
    src = ' '.join(norm(s) for s in cq.node.body)
    ok = "sql = 'SELECT COUNT(s.id) FROM schedules s'" in src and 'JOIN flights f ON f.id = s.flight_id' in src
    ctx.ob('C14-R4', cq, 'count query counts instances with the same joins', ok, 'COUNT(s.id)' if ok else 'count query changed')

    # R6 dates
    cc = qm.func('QueryBase._common_conditions')
    src = ' '.join(norm(s) for s in cc.node.body)
    ok = "self._conditions.append('s.departure_timestamp >= ?')" in src and \
        'self._params.append(int(date_to_timestamp(self.start_date).timestamp()))' in src
    ctx.ob('C14-R6', cc, 'start date inclusive from midnight UTC', ok, '>= midnight(start)' if ok else 'start bound changed')
    ok = "self._conditions.append('s.departure_timestamp < ?')" in src and \
        'int((date_to_timestamp(self.end_date) + timedelta(days=1)).timestamp())' in src
    ctx.ob('C14-R6', cc, 'end date inclusive: strictly before midnight of the following day', ok,
           '< midnight(end + 1 day)' if ok else 'end bound changed (end date no longer inclusive, or a day too many)')
    dt = qm.func('date_to_timestamp')
    ok = 'pd.Timestamp(d, tzinfo=UTC)' in ' '.join(norm(s) for s in dt.node.body)
    ctx.ob('C14-R6', dt, 'dates are UTC midnights', ok, 'tzinfo=UTC' if ok else 'date conversion is no longer UTC midnight', nontrivial=False)
    src = ' '.join(norm(s) for s in qs.node.body)
    ok = "'(s.day - ?) % ? = 0'" in src and '(self.start_date - date(1970, 1, 1)).days' in src and \
        "'(s.day - (SELECT MIN(day) FROM schedules)) % ? = 0'" in src
    ctx.ob('C14-R6', qs, 'every-nth-day anchored at the start day (or first day in the data)', ok,
           '(day − anchor) % n = 0' if ok else 'every-nth-day selection changed')
    # guard of the every_nth block
    blk = [n for n in walk_no_nested(qs.node) if isinstance(n, ast.If) and 'every_nth' in norm(n.test) and not isinstance(first_stmt(n.body), ast.Raise)]
    ok = bool(blk) and norm(blk[0].test) == 'self.every_nth is not None and self.every_nth > 1'
    ctx.ob('C14-R6', qs, 'every_nth applied when > 1', ok, norm(blk[0].test) if ok else 'every_nth guard changed', nontrivial=False)
    # sampling
    ok = "'(random() + 9223372036854775808) / 18446744073709551615.0 < ?'" in src
    ctx.ob('C14-R6', qs, 'sampling probability from SQLite random()', ok, 'uniform (0,1) < sample' if ok else 'sampling expression changed', nontrivial=False)

    # R5 spatial rule
    fm = prog.module(F)
    nm = fm.func('Filter._normalize')
    okd = single_def_value(nm.node, 'ok')
    ok = okd is not None
    if ok:
        import itertools
        from ..astutil import eval_pred
        try:
            for c_, o_, d_ in itertools.product(range(4), repeat=3):
                want = (c_ == 1 and o_ == 0 and d_ == 0) or (c_ == 0 and o_ <= 1 and d_ <= 1)
                if bool(eval_pred(okd, {'combined': c_, 'origin': o_, 'destination': d_})) != want:
                    ok = False
        except ValueError as e:
            ctx.undecided('C14-R5', nm, norm(okd), f'cannot tabulate the rule: {e}')
    kinds = [norm(c.args[0]) for c in calls_in(nm.node) if call_name(c) == 'self._spatial']
    ok = ok and sorted(kinds) == ["'airport'", "'bounding_box'", "'continent'", "'country'"]
    rs = [n for n in walk_no_nested(nm.node) if isinstance(n, ast.Raise) and any(norm(t) == 'not ok' for t, _, _ in guards_of(n))]
    ok = ok and bool(rs)
    ctx.ob('C14-R5', nm, 'spatial compatibility: one combined filter, or at most one origin and one destination', bool(ok),
           'counts airport/country/continent/bounding_box in each of the three positions' if ok else
           'the compatibility rule of spatial filters changed')
    sp = fm.func('Filter._spatial')
    src = ' '.join(norm(s) for s in sp.node.body)
    ok = "origin = getattr(self, 'origin_' + attr)" in src and "destination = getattr(self, 'destination_' + attr)" in src \
        and 'both = getattr(self, attr)' in src
    ctx.ob('C14-R5', sp, 'positions read the attribute of their own prefix', ok, 'both / origin_ / destination_' if ok else
           'spatial positions read the wrong attribute', nontrivial=False)


# ---------------------------------------------------------------- R7 -----
def rule_is_set(ctx):
    """"is this optional numeric set?" must be decided by `is (not) None`, never
    by truthiness: 0 is a legitimate bound (max_seat_capacity=0 selects all-cargo
    flights), and a dropped bound silently selects everything."""
    prog = ctx.prog
    classes = [prog.cls(F, 'Filter')] + [c for c in prog.subclasses_of('QueryBase')]
    n = 0
    for cls in classes:
        numeric = set()
        for f, ann in cls.all_fields().items():
            a = norm(ann)
            if 'None' in a and any(k in a for k in ('float', 'int')) and 'list' not in a and 'str' not in a:
                numeric.add(f)
        if not numeric:
            continue
        fns = [f for f in cls.module.functions.values() if f.cls is cls]
        for fi in fns:
            # parameters of (nested) helpers that receive such a field
            tainted = {}
            for c in calls_in(fi.node):
                callee = resolve_call(prog, fi, c)
                if callee is None:
                    continue
                off = 1 if callee.params[:1] in (['self'], ['cls']) else 0
                for i, a in enumerate(c.args):
                    if isinstance(a, ast.Attribute) and norm(a.value) == 'self' and a.attr in numeric \
                            and i + off < len(callee.params):
                        tainted.setdefault(callee.qualname, {})[callee.params[i + off]] = a.attr
            scopes = [(fi, {f'self.{x}': x for x in numeric})]
            for q, prm in tainted.items():
                callee = fi.module.functions.get(q)
                if callee is not None:
                    scopes.append((callee, dict(prm)))
            for fn, subj in scopes:
                for x in walk_no_nested(fn.node):
                    tests = []
                    if isinstance(x, (ast.If, ast.While, ast.IfExp)):
                        tests.append(x.test)
                    for t in tests:
                        atoms = [t]
                        if isinstance(t, ast.BoolOp):
                            atoms = list(t.values)
                        for a in atoms:
                            neg = isinstance(a, ast.UnaryOp) and isinstance(a.op, ast.Not)
                            core = a.operand if neg else a
                            txt = norm(core)
                            if txt in subj:
                                n += 1
                                ctx.ob('C14-R7', fn, f'`{norm(t)}` tests {subj[txt]} by truthiness', False,
                                       f'the optional numeric `{subj[txt]}` counts as "not set" when it is 0: a bound of 0 '
                                       '(e.g. max_seat_capacity=0) is silently dropped and the query selects everything',
                                       line=t.lineno)
                            elif isinstance(core, ast.Compare) and norm(core.left) in subj and \
                                    isinstance(core.ops[0], (ast.Is, ast.IsNot)) and norm(core.comparators[0]) == 'None':
                                n += 1
                                ctx.ob('C14-R7', fn, f'`{norm(core)}`', True, 'identity test against None', line=core.lineno,
                                       nontrivial=False)
    ctx.floor('C14-R7', n, 6, 'is-set tests of optional numeric fields')


def rule_cursor(ctx):
    """R8: query results are lazy generators over a database cursor; each query
    must iterate a cursor of its own, created in the call that runs the query —
    a cursor kept on the Database object is shared iteration state, and a second
    query silently truncates or mixes the rows of the first."""
    prog = ctx.prog
    dbm = prog.module('missions/database.py')
    fi = dbm.func('Database.__call__')
    ex = [c for c in calls_in(fi.node) if isinstance(c.func, ast.Attribute) and c.func.attr == 'execute']
    yr = [c for c in calls_in(fi.node) if call_name(c) == 'self._yield_results']
    n = 0
    for c in ex + yr:
        recv = c.func.value if c in ex else (c.args[0] if c.args else None)
        n += 1
        ok = False
        why = 'the cursor is not a fresh local of this call'
        if isinstance(recv, ast.Name):
            d = single_def_value(fi.node, recv.id)
            ok = isinstance(d, ast.Call) and call_name(d) == 'self._conn.cursor'
            why = f'{recv.id} = self._conn.cursor() created for this query' if ok else why
        elif recv is not None:
            why = f'`{norm(recv)}` lives on the Database object and is shared by every query issued through it'
        ctx.ob('C14-R8', fi, f'query runs on cursor `{norm(recv) if recv is not None else "?"}`', ok, why, line=c.lineno)
    ctx.floor('C14-R8', n, 2, 'cursor uses in Database.__call__')
    r = [st for st in walk_no_nested(fi.node) if isinstance(st, ast.Assign) and isinstance(st.targets[0], ast.Tuple)
         and [norm(e) for e in st.targets[0].elts] == ['sql', 'params']]
    ok = len(r) == 1 and norm(r[0].value) == 'query.to_sql()'
    ctx.ob('C14-R8', fi, 'SQL and parameters come from one to_sql() call', ok, 'sql, params = query.to_sql()' if ok else
           'SQL text and parameters are not taken from the same to_sql() call', nontrivial=False)
    yf = dbm.func('Database._yield_results')
    src = ' '.join(norm(s_) for s_ in yf.node.body)
    ok = 'for row in cur.execute(sql, params)' in src and 'yield result_type.from_row(row)' in src
    ctx.ob('C14-R8', yf, 'every row is converted by the query\'s own result type', ok, 'result_type.from_row(row)' if ok else 'row conversion changed', nontrivial=False)


def rule_criteria_values(ctx):
    """R7: the numbers a caller puts into a bounding box are the numbers compared in SQL: BoundingBox is a plain
    value (no method rewrites its fields) and _bounding_box_condition passes the four bounds as they are."""
    fm = ctx.prog.module(F)
    bb = fm.cls('BoundingBox')
    fields = set(bb.annotated_fields())
    ctx.floor('C14-R7', len(fields), 4, 'BoundingBox fields')
    n = 0
    for meth in bb.methods.values():
        for t, st, how in stores_to(meth.node):
            if isinstance(t, ast.Attribute) and norm(t.value) == 'self' and t.attr in fields:
                n += 1
                ctx.ob('C14-R7', meth, f'{norm(st)[:60]}', False,
                       (f'BoundingBox.{t.attr} is rewritten after construction: the box that is compared in SQL is not the box '
                        'the caller asked for (wrapping an eastern edge of 180° to −180° makes `longitude <= ?` match nothing)'),
                       line=st.lineno)
    ctx.ob('C14-R7', (fm.relpath, 'BoundingBox'), f'{n} method(s) rewrite the bounds', n == 0,
           'the bounds are stored as given' if n == 0 else 'see above', nontrivial=False)
    bc = fm.func('Filter._bounding_box_condition')
    uses = [x for x in ast.walk(bc.node) if isinstance(x, ast.Attribute) and x.attr in fields]
    ctx.floor('C14-R7/uses', len(uses), 4, 'bounds used by _bounding_box_condition')
    for u in uses:
        p = getattr(u, '_parent', None)
        ok = isinstance(p, (ast.List, ast.Tuple))
        ctx.ob('C14-R7', bc, f'bound {norm(u)} passed as a parameter unchanged', ok,
               'element of the parameter list' if ok else f'the bound enters an expression (`{norm(p)[:50]}`) before being compared',
               line=u.lineno, nontrivial=False)


def run(ctx):
    rule_criteria_values(ctx)
    rule_cursor(ctx)
    rule_is_set(ctx)
    rule_pure(ctx)
    rule_unpack(ctx)
    rule_placeholders(ctx)
    rule_columns(ctx)
    ctx.assumptions += ['SQL semantics / SQLite planner are trusted; the rules decide the text/parameter construction only']
